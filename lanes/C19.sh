#!/usr/bin/env bash
# Fuzz lane of C19: lanes/C19.sh <quick|thorough> <seed>
# One libFuzzer target per decoder group (fuzz/fuzz_targets/*.rs), oracle = decode -> re-encode ->
# decode again -> identical bytes; any panic is a crash. Crashes whose panic site is a `known` C19
# entry of known_findings.json are reported as KNOWN-FINDING, anything else as VIOLATION.
# exit 0 = no (new) crash, 1 = VIOLATION, 2 = INCONCLUSIVE (build failed).
set -u
TIER="${1:-quick}"; SEED="${2:-1}"
ROOT="$(cd "$(dirname "$0")/.." && pwd)"
FZ="$ROOT/fuzz"
# Sanitizer: none by default. Measured: with ASan the decoders' `read_many` pre-allocations (up to the
# 2^28-byte cap per call, poisoned and unpoisoned by ASan each time) limit a target to ~250 exec/s; without
# it the same target runs ~200 000 exec/s. C19_FUZZ_SANITIZER=address gives the (slow) ASan variant.
SAN="${C19_FUZZ_SANITIZER:-none}"; TD="$FZ/target-$SAN"; LOGS="$TD/lane-logs"
TARGETS="${C19_FUZZ_TARGETS:-proof program_ast module_ast library statement small}"
if [ "$TIER" = thorough ]; then T=300; else T=25; fi
T="${C19_FUZZ_SECS:-$T}"
mkdir -p "$LOGS"
# -O = release without debug assertions / overflow checks: the same build mode as the `rel` monitor, so
# panic sites match the known-findings list. C19_FUZZ_DEBUG_ASSERTIONS=1 switches them on (cargo-fuzz default).
MODE="-O"; [ "${C19_FUZZ_DEBUG_ASSERTIONS:-0}" = 1 ] && MODE="-a"
if ! (cd "$FZ" && cargo +nightly fuzz build $MODE -s "$SAN" --target-dir "$TD" --fuzz-dir "$FZ" >"$LOGS/build.log" 2>&1); then
  tail -n 20 "$LOGS/build.log"; echo "INCONCLUSIVE property=C19 reason=fuzz-build-failed"; exit 2
fi
# seed corpus of valid encodings from the harness (export-only run; evidence is not touched)
for M in "$ROOT/harness/target/release/mvmon" "$ROOT"/harness/target-*/release/mvmon; do
  if [ -x "$M" ]; then
    VERIF_ROOT="$ROOT" VERIF_EXPORT_CORPUS=1 "$M" check C19 quick --seed "$SEED" --lane corpus --partial-out "$LOGS/export.json" >/dev/null 2>&1
    break
  fi
done
rm -rf "$FZ/artifacts"
for t in $TARGETS; do
  ML=4096; [ "$t" = proof ] && ML=65536
  mkdir -p "$FZ/corpus/$t" "$FZ/artifacts/$t"
  (cd "$FZ" && cargo +nightly fuzz run $MODE -s "$SAN" --target-dir "$TD" --fuzz-dir "$FZ" "$t" -- -fork=2 -ignore_crashes=1 -seed="$SEED" \
     -max_total_time="$T" -timeout=10 -max_len="$ML" -rss_limit_mb=0 -malloc_limit_mb=0 -detect_leaks=0 \
     >"$LOGS/$t.log" 2>&1) &
done
wait
python3 - "$ROOT" "$FZ" "$TD" $TARGETS <<'PY'
import json, os, re, subprocess, sys
root, fz, td, targets = sys.argv[1], sys.argv[2], sys.argv[3], sys.argv[4:]
known = [f for f in json.load(open(os.path.join(root, "known_findings.json"))).get("findings", [])
         if f.get("property") == "C19" and f.get("status") == "known"]
def site_of(text):
    m = re.search(r"panicked at ([^\s]+?):(\d+):\d+", text)
    if not m: return None
    path, line = m.group(1), m.group(2)
    if "/repo/" in path: path = path.split("/repo/", 1)[1]
    elif "/registry/src/" in path: path = "dep:" + path.split("/registry/src/", 1)[1].split("/", 1)[1]
    elif "/library/" in path and ("/rustc/" in path or "/rustlib/" in path): path = "std:" + path.split("/library/", 1)[1]
    return f"{path}:{line}"
seen, rc = {}, 0
for t in targets:
    d = os.path.join(fz, "artifacts", t)
    exe = os.path.join(td, "x86_64-unknown-linux-gnu", "release", t)
    arts = sorted(os.listdir(d)) if os.path.isdir(d) else []
    execs = re.findall(r"#(\d+):? cov: (\d+)", open(os.path.join(td, "lane-logs", t + ".log"), errors="replace").read())
    print(f"fuzz target={t} artifacts={len(arts)} last_progress={execs[-1] if execs else None}")
    for a in arts:
        p = os.path.join(d, a)
        try:
            r = subprocess.run([exe, p], capture_output=True, timeout=120, text=True, errors="replace")
            out, code = r.stderr, r.returncode
        except Exception as e:
            out, code = f"rerun failed: {e}", -1
        if code == 0:                                    # a slow unit on a loaded machine, not a hang
            print(f"note: artifact {p} does not reproduce (ran to completion when re-executed)")
            continue
        site = site_of(out) or a.split("-")[0]          # real hangs / ooms have no panic site
        key = (t, site)
        if key in seen: continue
        seen[key] = p
        hit = next((k for k in known if k.get("signature", "").endswith(site)), None)
        if hit:
            print(f"KNOWN-FINDING: property=C19 {hit.get('what','')} [{hit['signature']}] (fuzz target {t}, artifact {p})")
        else:
            msg = (re.search(r"panicked at [^\n]*\n([^\n]*)", out) or [None, ""])[1]
            print(f"VIOLATION property=C19 replay={p}")
            print(f"  signature=fuzz/{t}/{site} :: {msg[:200]} :: reproduce: cd {fz} && cargo +nightly fuzz run {t} {p}")
            rc = 1
sys.exit(rc)
PY
exit $?
