#!/usr/bin/env bash
# Sanitizer lanes of C03: lanes/C03.sh <quick|thorough> <seed>
# The same small workload (mvmon san-workload: assemble -> execute -> real aux-segment builders ->
# T-air -> T-bus [-> prove + verify]) is run
#   * under valgrind memcheck (release binary): uninitialised-value use / invalid accesses behind
#     the `uninit_vector` users of the trace builders and in the prover/verifier;
#   * under Miri with Tree Borrows (cargo +nightly miri run): undefined behaviour in the
#     repository's own code on the assemble / execute / aux-build / constraint-evaluation path.
# exit 0 = clean, 1 = VIOLATION (tool report whose stack goes through /repo code, or a behavioural
# finding of the monitors under the tool), 2 = INCONCLUSIVE (tool could not run).
# A summary is written to harness/target/partials/C03.lane.json and merged into evidence/C03.json.
set -u
TIER="${1:-quick}"; SEED="${2:-1}"
ROOT="$(cd "$(dirname "$0")/.." && pwd)"
H="$ROOT/harness"; BIN="$H/target/release/mvmon"
OUT="$H/target/lanes-C03"; rm -rf "$OUT"; mkdir -p "$OUT" "$H/target/partials"
if [ "$TIER" = thorough ]; then MEM_SHARDS=8; MEM_N=4; MIRI_SHARDS=16; MIRI_N=3; else MEM_SHARDS=4; MEM_N=2; MIRI_SHARDS=4; MIRI_N=1; fi
RC=0
# ---------------------------------------------------------------- memcheck
MEM_OK=0; MEM_ERR=0
if command -v valgrind >/dev/null 2>&1; then
  for s in $(seq 0 $((MEM_SHARDS-1))); do
    ( valgrind --error-exitcode=9 --errors-for-leak-kinds=none -q "$BIN" san-workload "$SEED" "$s" "$MEM_N" --prove >"$OUT/memcheck_$s.log" 2>&1; echo $? >"$OUT/memcheck_$s.rc" ) &
  done
  wait
  for s in $(seq 0 $((MEM_SHARDS-1))); do
    r=$(cat "$OUT/memcheck_$s.rc" 2>/dev/null || echo 99)
    if [ "$r" = 0 ]; then MEM_OK=$((MEM_OK+1));
    elif [ "$r" = 9 ] || [ "$r" = 1 ]; then MEM_ERR=$((MEM_ERR+1)); cp "$OUT/memcheck_$s.log" "$ROOT/replays/C03-memcheck-shard$s.log"; echo "VIOLATION property=C03 replay=$ROOT/replays/C03-memcheck-shard$s.log"; grep -m3 -E "^==|SAN-FINDING" "$OUT/memcheck_$s.log"; RC=1;
    else echo "INCONCLUSIVE property=C03 reason=memcheck-lane-exit-$r"; [ $RC -eq 0 ] && RC=2; fi
  done
else
  echo "INCONCLUSIVE property=C03 reason=valgrind-not-installed"; [ $RC -eq 0 ] && RC=2
fi
MEM_PROGS=$(cat "$OUT"/memcheck_*.log 2>/dev/null | grep -c "^SAN-OK")
# ---------------------------------------------------------------- miri
MIRI_OK=0; MIRI_UB_REPO=0; MIRI_UB_DEP=0; MIRI_PROGS=0
export MIRIFLAGS="-Zmiri-tree-borrows -Zmiri-disable-isolation"
# (cargo miri has no `build`: a run that only prints the usage compiles the crate for the Miri target)
(cd "$H" && CARGO_TARGET_DIR="$H/target-miri" cargo +nightly miri run --offline --bin mvmon -- usage >"$OUT/miri_build.log" 2>&1)
if grep -q "usage: mvmon" "$OUT/miri_build.log"; then
  for s in $(seq 0 $((MIRI_SHARDS-1))); do
    ( cd "$H" && CARGO_TARGET_DIR="$H/target-miri" timeout 1500 cargo +nightly miri run --offline --bin mvmon -- san-workload "$SEED" "$s" "$MIRI_N" >"$OUT/miri_$s.log" 2>&1; echo $? >"$OUT/miri_$s.rc" ) &
  done
  wait
  for s in $(seq 0 $((MIRI_SHARDS-1))); do
    r=$(cat "$OUT/miri_$s.rc" 2>/dev/null || echo 99)
    if [ "$r" = 0 ]; then MIRI_OK=$((MIRI_OK+1));
    elif grep -q "Undefined Behavior" "$OUT/miri_$s.log"; then
      if grep -A60 "Undefined Behavior" "$OUT/miri_$s.log" | grep -q "at /repo/"; then
        MIRI_UB_REPO=$((MIRI_UB_REPO+1)); cp "$OUT/miri_$s.log" "$ROOT/replays/C03-miri-shard$s.log"
        echo "VIOLATION property=C03 replay=$ROOT/replays/C03-miri-shard$s.log"; grep -m2 -A3 "Undefined Behavior" "$OUT/miri_$s.log"; RC=1
      else
        # a report whose stack never enters cf/miden-vm code: dependency report, listed, not a verdict on the repository
        MIRI_UB_DEP=$((MIRI_UB_DEP+1)); echo "SAN-DEPENDENCY-REPORT miri shard $s: $(grep -m1 'Undefined Behavior' "$OUT/miri_$s.log")"
      fi
    elif [ "$r" = 1 ] && grep -q "SAN-FINDING" "$OUT/miri_$s.log"; then
      cp "$OUT/miri_$s.log" "$ROOT/replays/C03-miri-shard$s.log"; echo "VIOLATION property=C03 replay=$ROOT/replays/C03-miri-shard$s.log"; RC=1
    elif [ "$r" = 124 ]; then echo "SAN-NOTE miri shard $s timed out (not a verdict)";
    else echo "SAN-NOTE miri shard $s exit $r (not a verdict)"; fi
  done
  MIRI_PROGS=$(cat "$OUT"/miri_*.log 2>/dev/null | grep -c "^SAN-OK")
else
  tail -n 5 "$OUT/miri_build.log"; echo "INCONCLUSIVE property=C03 reason=miri-build-failed"; [ $RC -eq 0 ] && RC=2
fi
if [ "$MIRI_PROGS" = 0 ] && [ $RC -eq 0 ]; then echo "INCONCLUSIVE property=C03 reason=miri-lane-observed-nothing"; RC=2; fi
cat >"$H/target/partials/C03.lane.json" <<EOF
{"lane": "sanitizers", "memcheck": {"shards_clean": $MEM_OK, "shards_with_reports": $MEM_ERR, "programs_through_pipeline_incl_prove_verify": $MEM_PROGS},
 "miri_tree_borrows": {"shards_clean": $MIRI_OK, "ub_reports_in_repo_code": $MIRI_UB_REPO, "ub_reports_dependency_only": $MIRI_UB_DEP, "programs_through_pipeline": $MIRI_PROGS,
  "note": "Merkle-tree programs are excluded under Miri: miden-crypto 0.8.4 MerkleTree::new is rejected by both borrow models (third-party code)"},
 "tier": "$TIER", "seed": $SEED}
EOF
echo "SAN-LANES property=C03 memcheck_programs=$MEM_PROGS memcheck_reports=$MEM_ERR miri_programs=$MIRI_PROGS miri_ub_repo=$MIRI_UB_REPO miri_ub_dep=$MIRI_UB_DEP rc=$RC"
exit $RC
