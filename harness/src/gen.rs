//! Workload generators. They produce *source text and numbers* (a `Case`), never internal structs,
//! so the real parser and assembler are always on the path.
//!
//! The programs generated here are built to execute successfully with high probability: every
//! instruction with a precondition gets operands pushed right before it ("gadgets"), everything
//! else consumes whatever is on the stack. Failing inputs are the business of C05/C06/C07.

use crate::case::{Case, LibSrc};
use crate::util::{biased_felt, biased_u32, Rng8, P};
use rand::seq::SliceRandom;
use rand::Rng;

#[derive(Clone, Debug)]
pub struct GenCfg {
    /// approximate number of gadgets in the main body
    pub size: usize,
    pub flow: bool,
    pub procs: bool,
    pub calls: bool,
    pub kernel: bool,
    pub dynamic: bool,
    pub mem: bool,
    pub crypto: bool,
    pub advice: bool,
    pub decorators: bool,
    pub deep_inputs: bool,
    /// leave results on the stack so that outputs are deeper than 16
    pub deep_outputs: bool,
    pub max_nest: usize,
}

impl GenCfg {
    pub fn small() -> Self {
        GenCfg {
            size: 12,
            flow: true,
            procs: true,
            calls: true,
            kernel: true,
            dynamic: true,
            mem: true,
            crypto: true,
            advice: true,
            decorators: true,
            deep_inputs: true,
            deep_outputs: true,
            max_nest: 3,
        }
    }
    pub fn random(rng: &mut Rng8, size: usize) -> Self {
        GenCfg {
            size,
            flow: rng.gen_bool(0.7),
            procs: rng.gen_bool(0.6),
            calls: rng.gen_bool(0.5),
            kernel: rng.gen_bool(0.35),
            dynamic: rng.gen_bool(0.3),
            mem: rng.gen_bool(0.7),
            crypto: rng.gen_bool(0.5),
            advice: rng.gen_bool(0.5),
            decorators: rng.gen_bool(0.4),
            deep_inputs: rng.gen_bool(0.4),
            deep_outputs: rng.gen_bool(0.4),
            max_nest: rng.gen_range(1..4),
        }
    }
}

/// Addresses used by random memory gadgets (colliding on purpose). Loop counters live elsewhere.
pub const MEM_ADDRS: [u64; 10] =
    [0, 1, 2, 3, 7, (1 << 30) - 1, 1 << 31, (1u64 << 32) - 4, (1u64 << 32) - 3, 1000];
const COUNTER_BASE: u64 = 1 << 20;

pub fn push_form(rng: &mut Rng8, v: u64) -> String {
    // textual forms of a single immediate: decimal, short hex (big-endian value, even #digits)
    match rng.gen_range(0..4) {
        0 => {
            let h = format!("{:x}", v);
            if h.len() % 2 == 1 {
                format!("push.0x0{h}")
            } else {
                format!("push.0x{h}")
            }
        }
        _ => format!("push.{}", v),
    }
}

struct G<'a> {
    rng: &'a mut Rng8,
    cfg: GenCfg,
    /// advice stack values consumed in program order (only by straight-line code executed once)
    advice: Vec<u64>,
    n_loops: u64,
    procs: Vec<ProcDef>,
    kernel_procs: Vec<String>,
    in_kernel_body: bool,
    /// are we generating code that runs exactly once? (advice-consuming gadgets only then)
    once: bool,
    num_locals: usize,
    merkle: Vec<Vec<[u64; 4]>>,
    map: Vec<([u64; 4], Vec<u64>)>,
}

#[derive(Clone)]
struct ProcDef {
    name: String,
    locals: usize,
    body: String,
    /// safe to `call` (cleans up to depth 16 before returning)
    callable: bool,
}

fn u32v(rng: &mut Rng8) -> u64 {
    biased_u32(rng)
}

impl<'a> G<'a> {
    fn felt(&mut self) -> u64 {
        biased_felt(self.rng)
    }
    fn nz(&mut self) -> u64 {
        loop {
            let v = self.felt();
            if v != 0 {
                return v;
            }
        }
    }
    fn pushv(&mut self, v: u64) -> String {
        push_form(self.rng, v)
    }
    fn push_felt(&mut self) -> String {
        let v = self.felt();
        self.pushv(v)
    }
    fn push_u32(&mut self) -> String {
        let v = u32v(self.rng);
        self.pushv(v)
    }
    fn push_u32_nz(&mut self) -> String {
        let mut v = u32v(self.rng);
        if v == 0 {
            v = 1 + self.rng.gen_range(0..5);
        }
        self.pushv(v)
    }
    fn push_bin(&mut self) -> String {
        format!("push.{}", self.rng.gen_range(0..2))
    }

    fn field_gadget(&mut self) -> String {
        let r = self.rng.gen_range(0..34);
        match r {
            0 => "add".into(),
            1 => "sub".into(),
            2 => "mul".into(),
            3 => "neg".into(),
            4 => format!("add.{}", self.felt()),
            5 => format!("sub.{}", self.felt()),
            6 => format!("mul.{}", self.felt()),
            7 => format!("{} div", self.pushv_nz()),
            8 => format!("div.{}", self.nz()),
            9 => format!("{} inv", self.pushv_nz()),
            10 => format!("push.{} pow2", self.rng.gen_range(0..64)),
            11 => {
                let k = self.rng.gen_range(1..=64u32);
                let e = if k == 64 { self.rng.gen::<u64>() % P } else { self.rng.gen::<u64>() & ((1u64 << k) - 1) };
                format!("{} push.{} exp.u{}", self.push_felt(), e, k)
            }
            12 => format!("{} exp.{}", self.push_felt(), self.rng.gen_range(0..300u64)),
            13 => format!("{} {} exp", self.push_felt(), self.push_felt()),
            14 => format!("{} ilog2", self.pushv_nz()),
            15 => format!("{} not", self.push_bin()),
            16 => format!("{} {} and", self.push_bin(), self.push_bin()),
            17 => format!("{} {} or", self.push_bin(), self.push_bin()),
            18 => format!("{} {} xor", self.push_bin(), self.push_bin()),
            19 => "eq".into(),
            20 => "neq".into(),
            21 => format!("eq.{}", self.felt()),
            22 => format!("neq.{}", self.felt()),
            23 => "lt".into(),
            24 => "lte".into(),
            25 => "gt".into(),
            26 => "gte".into(),
            27 => "is_odd".into(),
            28 => "eqw".into(),
            29 => "ext2add".into(),
            30 => "ext2sub".into(),
            31 => "ext2mul".into(),
            32 => "ext2neg".into(),
            _ => {
                if self.rng.gen_bool(0.5) {
                    format!("{} {} ext2inv", self.push_felt(), self.pushv_nz())
                } else {
                    format!("{} {} ext2div", self.push_felt(), self.pushv_nz())
                }
            }
        }
    }

    fn pushv_nz(&mut self) -> String {
        let v = self.nz();
        self.pushv(v)
    }

    fn u32_gadget(&mut self) -> String {
        let r = self.rng.gen_range(0..44);
        let a = self.push_u32();
        let b = self.push_u32();
        let c = self.push_u32();
        let bnz = self.push_u32_nz();
        let sh = self.rng.gen_range(0..32u32);
        match r {
            0 => "u32test".into(),
            1 => "u32testw".into(),
            2 => format!("{a} u32assert"),
            3 => format!("{a} {b} u32assert2"),
            4 => format!("{a} {b} {c} {a} u32assertw"),
            5 => "u32cast".into(),
            6 => "u32split".into(),
            7 => format!("{a} {b} u32overflowing_add"),
            8 => format!("{a} {b} u32wrapping_add"),
            9 => format!("{a} u32wrapping_add.{}", u32v(self.rng)),
            10 => format!("{a} {b} u32overflowing_sub"),
            11 => format!("{a} {b} u32wrapping_sub"),
            12 => format!("{a} u32overflowing_sub.{}", u32v(self.rng)),
            13 => format!("{a} {b} u32overflowing_mul"),
            14 => format!("{a} {b} u32wrapping_mul"),
            15 => format!("{a} u32wrapping_mul.{}", u32v(self.rng)),
            16 => format!("{a} {b} {c} u32overflowing_add3"),
            17 => format!("{a} {b} {c} u32wrapping_add3"),
            18 => format!("{a} {b} {c} u32overflowing_madd"),
            19 => format!("{a} {b} {c} u32wrapping_madd"),
            20 => format!("{a} {bnz} u32div"),
            21 => format!("{a} {bnz} u32mod"),
            22 => format!("{a} {bnz} u32divmod"),
            23 => format!("{a} u32div.{}", u32v(self.rng).max(1)),
            24 => format!("{a} {b} u32and"),
            25 => format!("{a} {b} u32or"),
            26 => format!("{a} {b} u32xor"),
            27 => format!("{a} u32not"),
            28 => format!("{a} push.{sh} u32shl"),
            29 => format!("{a} u32shl.{sh}"),
            30 => format!("{a} push.{sh} u32shr"),
            31 => format!("{a} u32shr.{sh}"),
            32 => format!("{a} push.{sh} u32rotl"),
            33 => format!("{a} u32rotr.{sh}"),
            34 => format!("{a} u32popcnt"),
            35 => format!("{a} u32clz"),
            36 => format!("{a} u32ctz"),
            37 => format!("{a} u32clo"),
            38 => format!("{a} u32cto"),
            39 => format!("{a} {b} u32lt"),
            40 => format!("{a} {b} u32lte"),
            41 => format!("{a} {b} u32gt"),
            42 => format!("{a} {b} u32min"),
            _ => format!("{a} {b} u32max {c} u32gte"),
        }
    }

    fn stack_gadget(&mut self) -> String {
        let r = self.rng.gen_range(0..22);
        match r {
            0 => "drop".into(),
            1 => "dropw".into(),
            2 => "padw".into(),
            3 => format!("dup.{}", self.rng.gen_range(0..16)),
            4 => format!("dupw.{}", self.rng.gen_range(0..4)),
            5 => format!("swap.{}", self.rng.gen_range(1..16)),
            6 => format!("swapw.{}", self.rng.gen_range(1..4)),
            7 => "swapdw".into(),
            8 => format!("movup.{}", self.rng.gen_range(2..16)),
            9 => format!("movupw.{}", self.rng.gen_range(2..4)),
            10 => format!("movdn.{}", self.rng.gen_range(2..16)),
            11 => format!("movdnw.{}", self.rng.gen_range(2..4)),
            12 => format!("{} cswap", self.push_bin()),
            13 => format!("{} cswapw", self.push_bin()),
            14 => format!("{} cdrop", self.push_bin()),
            15 => format!("{} cdropw", self.push_bin()),
            16 => self.push_felt(),
            17 => {
                // multi-value push
                let n = self.rng.gen_range(2..9);
                let vals: Vec<String> = (0..n).map(|_| self.felt().to_string()).collect();
                format!("push.{}", vals.join("."))
            }
            18 => {
                // long hex word push (little-endian per element)
                let mut s = String::from("push.0x");
                for _ in 0..4 {
                    let v = self.felt();
                    for b in v.to_le_bytes() {
                        s.push_str(&format!("{:02x}", b));
                    }
                }
                s
            }
            19 => "sdepth".into(),
            20 => "clk".into(),
            _ => "swap".into(),
        }
    }

    fn mem_gadget(&mut self) -> String {
        let addr = *MEM_ADDRS.choose(self.rng).unwrap();
        let r = self.rng.gen_range(0..14);
        match r {
            0 => format!("mem_load.{addr}"),
            1 => format!("push.{addr} mem_load"),
            2 => format!("padw mem_loadw.{addr}"),
            3 => format!("padw push.{addr} mem_loadw"),
            4 => format!("{} mem_store.{addr}", self.push_felt()),
            5 => format!("{} push.{addr} mem_store", self.push_felt()),
            6 => format!("mem_storew.{addr}"),
            7 => format!("push.{addr} mem_storew"),
            8 => {
                // mem_stream: [C, B, A, a, ...]
                let a = addr.min((1u64 << 32) - 3);
                format!("push.{a} padw padw padw mem_stream")
            }
            9 if self.num_locals > 0 => format!("loc_load.{}", self.rng.gen_range(0..self.num_locals)),
            10 if self.num_locals > 0 => {
                format!("{} loc_store.{}", self.push_felt(), self.rng.gen_range(0..self.num_locals))
            }
            11 if self.num_locals > 0 => format!("loc_storew.{}", self.rng.gen_range(0..self.num_locals)),
            12 if self.num_locals > 0 => format!("padw loc_loadw.{}", self.rng.gen_range(0..self.num_locals)),
            13 if self.num_locals > 0 => format!("locaddr.{}", self.rng.gen_range(0..self.num_locals)),
            _ => format!("mem_load.{addr}"),
        }
    }

    fn crypto_gadget(&mut self) -> String {
        let r = self.rng.gen_range(0..8);
        match r {
            0 => "hperm".into(),
            1 => "hmerge".into(),
            2 => "hash".into(),
            3 | 4 if !self.merkle.is_empty() => {
                // mtree_get on a known tree: [d, i, R, ...] -> [V, R, ...]
                let t = self.rng.gen_range(0..self.merkle.len());
                let (depth, root) = tree_info(&self.merkle[t]);
                let idx = self.rng.gen_range(0..self.merkle[t].len());
                format!("push.{}.{}.{}.{} push.{} push.{} mtree_get", root[0], root[1], root[2], root[3], idx, depth)
            }
            5 if !self.merkle.is_empty() => {
                // mtree_verify: [V, d, i, R, ...]
                let t = self.rng.gen_range(0..self.merkle.len());
                let (depth, root) = tree_info(&self.merkle[t]);
                let idx = self.rng.gen_range(0..self.merkle[t].len());
                let v = self.merkle[t][idx];
                format!(
                    "push.{}.{}.{}.{} push.{} push.{} push.{}.{}.{}.{} mtree_verify",
                    root[0], root[1], root[2], root[3], idx, depth, v[0], v[1], v[2], v[3]
                )
            }
            6 if !self.merkle.is_empty() => {
                // mtree_set: [d, i, R, V', ...] -> [V, R', ...]
                let t = self.rng.gen_range(0..self.merkle.len());
                let (depth, root) = tree_info(&self.merkle[t]);
                let idx = self.rng.gen_range(0..self.merkle[t].len());
                let nv: Vec<u64> = (0..4).map(|_| self.felt()).collect();
                format!(
                    "push.{}.{}.{}.{} push.{}.{}.{}.{} push.{} push.{} mtree_set",
                    nv[0], nv[1], nv[2], nv[3], root[0], root[1], root[2], root[3], idx, depth
                )
            }
            7 => {
                // rcomb_base reads memory at [.., x_addr=s13?]; use zeros region: safe layout from docs:
                // [T7..T0, p1, p0, r1, r0, x_addr, z_addr, a_addr]
                // (addresses 2000.. are used by nothing else: the word holding the randomness must
                // have its last two elements empty, see crypto_ops.md)
                "padw padw padw push.2000 push.2001 push.2002 movdn.14 movdn.14 movdn.14 rcomb_base".into()
            }
            _ => "hperm".into(),
        }
    }

    fn advice_gadget(&mut self) -> String {
        if !self.once {
            // advice-stack consumption is only scripted in code that runs exactly once
            return match self.rng.gen_range(0..3) {
                0 => "adv.insert_hdword".into(),
                1 => "adv.insert_hperm".into(),
                _ => format!("adv.insert_hdword.{}", self.rng.gen_range(0..256)),
            };
        }
        match self.rng.gen_range(0..7) {
            0 => {
                let n = self.rng.gen_range(1..=16);
                for _ in 0..n {
                    let v = self.felt();
                    self.advice.push(v);
                }
                format!("adv_push.{n}")
            }
            1 => {
                for _ in 0..4 {
                    let v = self.felt();
                    self.advice.push(v);
                }
                "padw adv_loadw".into()
            }
            2 => {
                for _ in 0..8 {
                    let v = self.felt();
                    self.advice.push(v);
                }
                let a = (*MEM_ADDRS.choose(self.rng).unwrap()).min((1u64 << 32) - 3);
                format!("push.{a} padw padw padw adv_pipe")
            }
            3 => {
                // u64 division hint followed by popping the 4 hinted limbs
                let a0 = u32v(self.rng);
                let a1 = u32v(self.rng);
                let b0 = u32v(self.rng).max(1);
                let b1 = u32v(self.rng);
                format!("push.{a0} push.{a1} push.{b0} push.{b1} adv.push_u64div adv_push.4")
            }
            4 if !self.map.is_empty() => {
                let (k, vals) = self.map.choose(self.rng).unwrap().clone();
                format!("push.{}.{}.{}.{} adv.push_mapval adv_push.{} dropw", k[0], k[1], k[2], k[3], vals.len())
            }
            5 if !self.map.is_empty() => {
                let (k, vals) = self.map.choose(self.rng).unwrap().clone();
                format!("push.{}.{}.{}.{} adv.push_mapvaln adv_push.1 drop adv_push.{} dropw", k[0], k[1], k[2], k[3], vals.len())
            }
            4 | 5 => "adv.insert_hdword".into(),
            _ => "adv.insert_hperm".into(),
        }
    }

    fn decorator_gadget(&mut self) -> String {
        match self.rng.gen_range(0..6) {
            0 => "debug.stack".into(),
            1 => format!("debug.stack.{}", self.rng.gen_range(1..20)),
            2 => "debug.mem".into(),
            3 => format!("emit.{}", self.rng.gen::<u32>()),
            4 => format!("trace.{}", self.rng.gen::<u32>()),
            _ => "debug.mem.0.3".into(),
        }
    }

    fn simple_gadget(&mut self) -> String {
        loop {
            let k = self.rng.gen_range(0..100);
            let g = match k {
                0..=24 => self.field_gadget(),
                25..=49 => self.u32_gadget(),
                50..=69 => self.stack_gadget(),
                70..=79 if self.cfg.mem => self.mem_gadget(),
                80..=86 if self.cfg.crypto => self.crypto_gadget(),
                87..=93 if self.cfg.advice => self.advice_gadget(),
                94..=99 if self.cfg.decorators => self.decorator_gadget(),
                _ => continue,
            };
            if self.in_kernel_body && self.rng.gen_bool(0.1) {
                return format!("{g} padw caller dropw");
            }
            return g;
        }
    }

    /// A block of `n` gadgets with control flow, at nesting `depth`.
    fn block(&mut self, n: usize, depth: usize) -> String {
        let mut out = String::new();
        let mut i = 0;
        while i < n {
            let flow = self.cfg.flow && depth < self.cfg.max_nest && self.rng.gen_bool(0.18);
            if flow {
                let inner = self.rng.gen_range(1..=(n / 2).max(1).min(6));
                let kind = self.rng.gen_range(0..10);
                match kind {
                    0..=2 => {
                        let c = self.rng.gen_range(0..2);
                        let was_once = self.once;
                        // only the taken branch runs; keep advice scripting simple: no advice inside
                        self.once = false;
                        let t = self.block(inner, depth + 1);
                        let e = self.block(inner, depth + 1);
                        self.once = was_once;
                        if self.rng.gen_bool(0.3) {
                            out.push_str(&format!("push.{c} if.true {t} end\n"));
                        } else {
                            out.push_str(&format!("push.{c} if.true {t} else {e} end\n"));
                        }
                    }
                    3..=5 => {
                        let iters = self.rng.gen_range(0..4u64);
                        let addr = COUNTER_BASE + self.n_loops;
                        self.n_loops += 1;
                        let was_once = self.once;
                        self.once = false;
                        let body = self.block(inner, depth + 1);
                        self.once = was_once;
                        out.push_str(&format!(
                            "push.{iters} mem_store.{addr} mem_load.{addr} neq.0 while.true {body} mem_load.{addr} sub.1 dup.0 mem_store.{addr} neq.0 end\n"
                        ));
                    }
                    6..=7 => {
                        let cnt = self.rng.gen_range(1..5);
                        let was_once = self.once;
                        self.once = false;
                        let body = self.block(inner, depth + 1);
                        self.once = was_once;
                        out.push_str(&format!("repeat.{cnt} {body} end\n"));
                    }
                    _ => {
                        out.push_str(&self.invoke());
                        out.push('\n');
                    }
                }
                i += inner;
            } else {
                if self.rng.gen_bool(0.08) {
                    out.push_str(&self.invoke());
                } else {
                    out.push_str(&self.simple_gadget());
                }
                out.push('\n');
                i += 1;
            }
        }
        out
    }

    fn invoke(&mut self) -> String {
        if self.procs.is_empty() && self.kernel_procs.is_empty() {
            return self.simple_gadget();
        }
        let k = self.rng.gen_range(0..10);
        if k < 2 && !self.kernel_procs.is_empty() && !self.in_kernel_body && self.cfg.kernel {
            let p = self.kernel_procs.choose(self.rng).unwrap().clone();
            return format!("syscall.{p}");
        }
        if self.procs.is_empty() {
            return self.simple_gadget();
        }
        let p = self.procs.choose(self.rng).unwrap().clone();
        if self.in_kernel_body {
            // kernels may only exec their own local procs; we keep kernel bodies invocation-free
            return self.simple_gadget();
        }
        match k {
            2..=4 if p.callable && self.cfg.calls => format!("call.{}", p.name),
            5 if p.callable && self.cfg.dynamic => format!("procref.{} dyncall dropw", p.name),
            6 if self.cfg.dynamic => format!("procref.{} dynexec", p.name),
            _ => format!("exec.{}", p.name),
        }
    }
}

pub fn tree_info(leaves: &[[u64; 4]]) -> (u32, [u64; 4]) {
    use processor::crypto::MerkleTree;
    use vm_core::{Felt, StarkField, Word};
    let l: Vec<Word> =
        leaves.iter().map(|k| [Felt::new(k[0]), Felt::new(k[1]), Felt::new(k[2]), Felt::new(k[3])]).collect();
    let t = MerkleTree::new(l).expect("tree");
    let r: Word = t.root().into();
    (t.depth() as u32, [r[0].as_int(), r[1].as_int(), r[2].as_int(), r[3].as_int()])
}

const CLEANUP: &str = "sdepth push.16 neq while.true drop sdepth push.16 neq end";

/// Generates a random, most likely successfully executing program with inputs.
pub fn gen_case(rng: &mut Rng8, cfg: &GenCfg) -> Case {
    let mut g = G {
        rng,
        cfg: cfg.clone(),
        advice: vec![],
        n_loops: 0,
        procs: vec![],
        kernel_procs: vec![],
        in_kernel_body: false,
        once: false,
        num_locals: 0,
        merkle: vec![],
        map: vec![],
    };
    if cfg.advice {
        for _ in 0..2 {
            let k = [g.felt(), g.felt(), g.felt(), g.felt()];
            let n = g.rng.gen_range(1..9);
            let vals: Vec<u64> = (0..n).map(|_| g.felt()).collect();
            g.map.push((k, vals));
        }
    }
    // Merkle trees
    if cfg.crypto {
        let nt = g.rng.gen_range(1..3);
        for _ in 0..nt {
            let d = g.rng.gen_range(1..5);
            let leaves: Vec<[u64; 4]> =
                (0..1usize << d).map(|_| [g.felt(), g.felt(), g.felt(), g.felt()]).collect();
            g.merkle.push(leaves);
        }
    }
    // kernel
    let mut kernel_src = None;
    if cfg.kernel {
        let nk = g.rng.gen_range(1..4);
        let mut ks = String::new();
        g.in_kernel_body = true;
        for i in 0..nk {
            let name = format!("k{i}");
            let locals = g.rng.gen_range(0..3);
            g.num_locals = locals;
            let n = g.rng.gen_range(1..5);
            let body = g.block(n, g.cfg.max_nest); // no nested flow inside kernel procs
            let decl = if locals > 0 { format!("export.{name}.{locals}") } else { format!("export.{name}") };
            // distinguishing first instruction so kernel procs have distinct roots
            ks.push_str(&format!("{decl}\n push.{} drop {body} {CLEANUP}\nend\n", 7000 + i));
            g.kernel_procs.push(name);
        }
        g.in_kernel_body = false;
        g.num_locals = 0;
        kernel_src = Some(ks);
    }
    // local procedures (each may invoke earlier ones)
    let mut proc_src = String::new();
    if cfg.procs {
        let np = g.rng.gen_range(1..5);
        for i in 0..np {
            let name = format!("f{i}");
            let locals = g.rng.gen_range(0..4);
            g.num_locals = locals;
            let n = g.rng.gen_range(1..6);
            let body = g.block(n, g.cfg.max_nest.saturating_sub(1));
            let callable = g.rng.gen_bool(0.6);
            let body = if callable { format!("push.{} drop {body} {CLEANUP}", 9000 + i) } else { format!("push.{} drop {body}", 9000 + i) };
            let decl = if locals > 0 { format!("proc.{name}.{locals}") } else { format!("proc.{name}") };
            proc_src.push_str(&format!("{decl}\n{body}\nend\n"));
            g.procs.push(ProcDef { name, locals, body: String::new(), callable });
        }
        g.num_locals = 0;
    }
    let _ = g.procs.iter().map(|p| (p.locals, &p.body)).count();
    // main body
    g.once = true;
    let mut body = g.block(cfg.size, 0);
    if !cfg.deep_outputs {
        body.push_str(CLEANUP);
        body.push('\n');
    } else {
        // keep a bounded number of items above 16
        body.push_str("sdepth push.40 gt while.true drop sdepth push.40 gt end\n");
        if g.rng.gen_bool(0.5) {
            body.push_str("push.11 push.12 push.13\n");
        }
    }
    let src = format!("{proc_src}begin\n{body}end\n");
    let depth_in = if cfg.deep_inputs { g.rng.gen_range(0..41) } else { g.rng.gen_range(0..17) };
    let stack: Vec<u64> = (0..depth_in).map(|_| g.felt()).collect();
    Case {
        src,
        kernel: kernel_src,
        libs: vec![],
        stdlib: false,
        debug_mode: false,
        stack,
        advice_stack: g.advice.clone(),
        advice_map: g.map.clone(),
        merkle_trees: g.merkle.clone(),
    }
}

/// A library with one module exporting `n` small procedures (used by C10/C11 and others).
pub fn simple_lib(ns: &str, module: &str, procs: &[(&str, &str)]) -> LibSrc {
    let mut src = String::new();
    for (name, body) in procs {
        src.push_str(&format!("export.{name}\n{body}\nend\n"));
    }
    LibSrc { namespace: ns.to_string(), modules: vec![(format!("{ns}::{module}"), src)] }
}
