//! Ad-hoc debugging command: run one source file through assemble/execute/T-air/(prove).
use crate::case::{AsmOutcome, Case, ExecOutcome};
use crate::report::Report;
use winter_prover::Trace;

pub fn run_src(path: &str, stack: &[u64], prove: bool, kernel: Option<&str>) {
    crate::util::set_verbose_panics(true);
    let src = std::fs::read_to_string(path).expect("read src");
    let mut case = Case::new(src).with_stack(stack);
    case.kernel = kernel.map(|k| std::fs::read_to_string(k).expect("read kernel"));
    case.stdlib = true;
    let prog = match case.assemble() {
        AsmOutcome::Ok(p) => p,
        AsmOutcome::Err(e) => {
            println!("assembly error: {e}");
            return;
        }
        AsmOutcome::Panic(p) => {
            println!("assembly PANIC: {} at {}", p.message, p.location);
            return;
        }
    };
    println!("program hash: {:?}", prog.hash());
    match case.execute(&prog) {
        ExecOutcome::Ok(mut t) => {
            let s = *t.trace_len_summary();
            println!("ok: cycles={} range={} chiplets={:?} len={}", s.main_trace_len(), s.range_trace_len(), s.chiplets_trace_len(), t.length());
            println!("outputs: {:?} overflow_addrs: {:?}", t.stack_outputs().stack(), t.stack_outputs().overflow_addrs());
            let mut rep = Report::new();
            let mut rng = crate::util::rng_for(0, "dbg", 0);
            crate::props::c03::monitor_trace(&case, &mut t, &mut rng, 1, 1, &mut rep);
            for v in &rep.violations {
                println!("T-air: {} :: {}", v.sig, v.what);
            }
            if rep.violations.is_empty() {
                println!("T-air: clean");
            }
        }
        ExecOutcome::Err(e) => println!("execution error: {e:?}"),
        ExecOutcome::Panic(p) => println!("execution PANIC: {} at {}", p.message, p.location),
    }
    if prove {
        let mut rep = Report::new();
        for oi in 0..4 {
            crate::props::c01::run_case(&case, oi, &mut rep);
        }
        for v in &rep.violations {
            println!("C01: {} :: {}", v.sig, v.what);
        }
        println!("C01 verified: {:?}", rep.hist.get("verified"));
    }
}

/// Prints, for every clock, the iterator's view next to the trace row (depth and top elements).
pub fn iter_src(path: &str, stack: &[u64]) {
    use crate::tview::*;
    let src = std::fs::read_to_string(path).expect("read src");
    let case = Case::new(src).with_stack(stack);
    let prog = match case.assemble() {
        AsmOutcome::Ok(p) => p,
        _ => {
            println!("assembly failed");
            return;
        }
    };
    let trace = match case.execute(&prog) {
        ExecOutcome::Ok(t) => t,
        _ => {
            println!("exec failed");
            return;
        }
    };
    let tv = TV::new(&trace);
    let it = processor::execute_iter(&prog, case.stack_inputs(), case.host());
    for st in it {
        let st = st.unwrap();
        let t = st.clk as usize;
        let s: Vec<u64> = st.stack.iter().map(|x| vm_core::StarkField::as_int(x)).collect();
        println!(
            "clk {:3} op {:>10} | iter len {:2} top3 {:?} deep {:?} | trace b0 {:2} top3 {:?} next-op {}",
            t,
            st.op.map(|o| format!("{o}")).unwrap_or_default(),
            s.len(),
            &s[..3],
            &s[16.min(s.len())..],
            tv.get(B0, t),
            &tv.stack_top(t)[..3],
            crate::tair::op_name(tv.op(t))
        );
    }
}

/// Scans one region of an honest proof: flips every bit and lists the offsets whose flip is accepted.
pub fn c02_scan(replay: &str, region: &str) {
    use crate::props::c02::make_honest;
    use crate::pv::{self, VerifyOutcome, OPTION_NAMES};
    let v: serde_json::Value = serde_json::from_str(&std::fs::read_to_string(replay).expect("read")).expect("json");
    let case = Case::from_json(&v["case"]).expect("case");
    let oi = v["option_set"].as_str().and_then(|o| OPTION_NAMES.iter().position(|n| *n == o)).unwrap_or(0);
    let mut rep = Report::new();
    let h = make_honest(&case, oi, &mut rep).expect("honest proof");
    println!("proof bytes {} regions {:?}", h.proof_bytes.len(), h.regions);
    let (start, end) = h.regions.iter().find(|r| r.0 == region).map(|r| (r.1, r.2)).expect("region");
    let offsets: Vec<usize> = (start..end).collect();
    let res = crate::util::par_map(offsets.len(), |i| {
        let off = offsets[i];
        let mut acc = vec![];
        for bit in 0..8 {
            let mut m = h.proof_bytes.clone();
            m[off] ^= 1 << bit;
            if let Ok(Ok(p)) = crate::util::catch(|| miden::ExecutionProof::from_bytes(&m)) {
                if p.to_bytes() == h.proof_bytes {
                    continue;
                }
                if let VerifyOutcome::Ok(_) = pv::verify(h.info.clone(), h.si.clone(), h.so.clone(), p) {
                    acc.push(bit);
                }
            }
        }
        (off, acc)
    });
    for (off, acc) in res {
        if !acc.is_empty() {
            println!("ACCEPTED offset {off} (region-relative {}, from-end {}) bits {:?} byte {:#04x}", off - start, end - off, acc, h.proof_bytes[off]);
        }
    }
}
