//! Verdict accumulation, known-finding matching and evidence writing.

use serde_json::{json, Map, Value};
use std::collections::{BTreeMap, HashSet};
use std::path::PathBuf;
use std::time::Instant;

#[derive(Clone, Copy, Debug, PartialEq, Eq)]
pub enum Tier {
    Quick,
    Thorough,
}

impl Tier {
    pub fn as_str(&self) -> &'static str {
        match self {
            Tier::Quick => "quick",
            Tier::Thorough => "thorough",
        }
    }
    /// pick a budget by tier
    pub fn pick<T>(&self, q: T, t: T) -> T {
        match self {
            Tier::Quick => q,
            Tier::Thorough => t,
        }
    }
}

#[derive(Clone, Debug)]
pub struct Cfg {
    pub id: String,
    pub tier: Tier,
    pub seed: u64,
    /// "rel" or "dbg" (debug-assertions + overflow-checks build of the same code)
    pub lane: String,
    /// optional: write a partial lane summary here instead of the evidence file
    pub partial_out: Option<PathBuf>,
    /// optional: partial lane summaries to merge into this run's evidence
    pub merge_in: Vec<PathBuf>,
    /// work scale multiplier (VERIF_SCALE, default 1.0) – used by sanitizer lanes to shrink loads
    pub scale: f64,
}

impl Cfg {
    pub fn is_dbg(&self) -> bool {
        cfg!(debug_assertions)
    }
    pub fn n(&self, quick: usize, thorough: usize) -> usize {
        let base = self.tier.pick(quick, thorough) as f64;
        ((base * self.scale).ceil() as usize).max(1)
    }
}

pub fn verif_root() -> PathBuf {
    std::env::var("VERIF_ROOT").map(PathBuf::from).unwrap_or_else(|_| PathBuf::from("/verif"))
}

#[derive(Clone, Debug)]
pub struct Violation {
    /// stable, specific signature, e.g. `C12/b_chip/respan`
    pub sig: String,
    pub what: String,
    /// the generated artefact itself (source, inputs, …) so the case can be re-run
    pub replay: Value,
}

#[derive(Default)]
pub struct Report {
    pub evaluations: u64,
    pub distinct: HashSet<u64>,
    pub samples: Vec<Value>,
    pub hist: BTreeMap<String, BTreeMap<String, u64>>,
    pub violations: Vec<Violation>,
    pub violation_counts: BTreeMap<String, u64>,
    pub inconclusive: Vec<String>,
    pub notes: BTreeMap<String, Value>,
}

fn h64(s: &str) -> u64 {
    let mut h: u64 = 0xcbf29ce484222325;
    for b in s.bytes() {
        h ^= b as u64;
        h = h.wrapping_mul(0x100000001b3);
    }
    h
}

impl Report {
    pub fn new() -> Self {
        Self::default()
    }

    /// One oracle evaluation; `key` is the property's coverage key for distinctness.
    pub fn eval(&mut self, key: &str) {
        self.evaluations += 1;
        self.distinct.insert(h64(key));
    }

    pub fn evals(&mut self, n: u64) {
        self.evaluations += n;
    }

    pub fn distinct_key(&mut self, key: &str) {
        self.distinct.insert(h64(key));
    }

    pub fn count(&mut self, hist: &str, key: &str) {
        self.count_n(hist, key, 1);
    }

    pub fn count_n(&mut self, hist: &str, key: &str, n: u64) {
        *self.hist.entry(hist.to_string()).or_default().entry(key.to_string()).or_default() += n;
    }

    pub fn get_count(&self, hist: &str, key: &str) -> u64 {
        self.hist.get(hist).and_then(|h| h.get(key)).copied().unwrap_or(0)
    }

    pub fn hist_len(&self, hist: &str) -> usize {
        self.hist.get(hist).map(|h| h.len()).unwrap_or(0)
    }

    pub fn sample(&mut self, v: Value) {
        if self.samples.len() < 6 {
            self.samples.push(v);
        }
    }

    pub fn violation(&mut self, sig: impl Into<String>, what: impl Into<String>, replay: Value) {
        let sig = sig.into();
        let c = self.violation_counts.entry(sig.clone()).or_default();
        *c += 1;
        if *c == 1 {
            self.violations.push(Violation { sig, what: what.into(), replay });
        } else if let Some(v) = self.violations.iter_mut().find(|v| v.sig == sig) {
            // keep the smallest witness
            let new_len = replay.to_string().len();
            if new_len < v.replay.to_string().len() {
                v.replay = replay;
                v.what = what.into();
            }
        }
    }

    pub fn inconclusive(&mut self, reason: impl Into<String>) {
        let r = reason.into();
        if !self.inconclusive.contains(&r) {
            self.inconclusive.push(r);
        }
    }

    /// coverage floor: if not met the run is inconclusive
    pub fn floor(&mut self, ok: bool, what: &str) {
        if !ok {
            self.inconclusive(format!("coverage-floor:{what}"));
        }
    }

    pub fn note(&mut self, k: &str, v: Value) {
        self.notes.insert(k.to_string(), v);
    }

    pub fn merge(&mut self, o: Report) {
        self.evaluations += o.evaluations;
        self.distinct.extend(o.distinct);
        for s in o.samples {
            self.sample(s);
        }
        for (h, m) in o.hist {
            let e = self.hist.entry(h).or_default();
            for (k, v) in m {
                *e.entry(k).or_default() += v;
            }
        }
        for v in o.violations {
            let n = o.violation_counts.get(&v.sig).copied().unwrap_or(1);
            let c = self.violation_counts.entry(v.sig.clone()).or_default();
            if *c == 0 {
                self.violations.push(v);
            } else if let Some(mine) = self.violations.iter_mut().find(|m| m.sig == v.sig) {
                if v.replay.to_string().len() < mine.replay.to_string().len() {
                    *mine = v;
                }
            }
            *c += n;
        }
        for r in o.inconclusive {
            self.inconclusive(r);
        }
        for (k, v) in o.notes {
            self.notes.entry(k).or_insert(v);
        }
    }
}

pub fn merge_all(reports: Vec<Report>) -> Report {
    let mut r = Report::new();
    for x in reports {
        r.merge(x);
    }
    r
}

// KNOWN FINDINGS
// ================================================================================================

pub struct Known {
    pub entries: Vec<(String, String, String, String)>, // property, signature, status, what
}

impl Known {
    pub fn load() -> Self {
        let p = verif_root().join("known_findings.json");
        let mut entries = vec![];
        if let Ok(s) = std::fs::read_to_string(&p) {
            if let Ok(v) = serde_json::from_str::<Value>(&s) {
                if let Some(a) = v.get("findings").and_then(|f| f.as_array()) {
                    for e in a {
                        let g = |k: &str| e.get(k).and_then(|x| x.as_str()).unwrap_or("").to_string();
                        entries.push((g("property"), g("signature"), g("status"), g("what")));
                    }
                }
            }
        }
        Known { entries }
    }
    /// Some(what) if (property, sig) is listed with status "known"
    pub fn lookup(&self, prop: &str, sig: &str) -> Option<String> {
        self.entries
            .iter()
            .find(|(p, s, st, _)| p == prop && s == sig && st == "known")
            .map(|e| e.3.clone())
    }
}

fn slug(s: &str) -> String {
    s.chars()
        .map(|c| if c.is_ascii_alphanumeric() || c == '-' || c == '_' || c == '.' { c } else { '_' })
        .take(100)
        .collect()
}

// FINISH
// ================================================================================================

pub struct Meta {
    pub level: &'static str,
    pub rule: String,
    pub assumptions: Vec<String>,
}

/// Writes evidence, prints verdict lines, returns the exit code (0 held, 1 violation, 2 inconclusive).
pub fn finish(cfg: &Cfg, meta: Meta, mut rep: Report, t0: Instant) -> i32 {
    let root = verif_root();
    let known = Known::load();
    let mut n_viol = 0;
    let mut known_hits = vec![];
    let mut viol_list = vec![];
    let _ = std::fs::create_dir_all(root.join("replays"));
    for v in &rep.violations {
        let n = rep.violation_counts.get(&v.sig).copied().unwrap_or(1);
        if let Some(what) = known.lookup(&cfg.id, &v.sig) {
            println!("KNOWN-FINDING: property={} {} [{}] (seen {}x this run)", cfg.id, what, v.sig, n);
            known_hits.push(json!({"signature": v.sig, "count": n}));
        } else {
            n_viol += 1;
            let name = format!("{}-{}-{}.json", cfg.id, cfg.lane, slug(&v.sig));
            let path = root.join("replays").join(&name);
            let mut replay = v.replay.clone();
            if let Some(o) = replay.as_object_mut() {
                o.insert("property".into(), json!(cfg.id));
                o.insert("signature".into(), json!(v.sig));
                o.insert("what".into(), json!(v.what));
                o.insert("lane".into(), json!(cfg.lane));
                o.insert("seed".into(), json!(cfg.seed));
            }
            let _ = std::fs::write(&path, serde_json::to_string_pretty(&replay).unwrap());
            println!("VIOLATION property={} replay={}", cfg.id, path.display());
            println!("  signature={} count={} :: {}", v.sig, n, truncate(&v.what, 600));
            viol_list.push(json!({"signature": v.sig, "count": n, "what": truncate(&v.what, 400), "replay": path.display().to_string()}));
        }
    }
    for r in &rep.inconclusive {
        println!("INCONCLUSIVE property={} reason={}", cfg.id, r);
    }

    // lane summaries merged from earlier partial runs of the same check
    let mut lanes = Map::new();
    for p in &cfg.merge_in {
        if let Ok(s) = std::fs::read_to_string(p) {
            if let Ok(v) = serde_json::from_str::<Value>(&s) {
                let lane = v.get("lane").and_then(|l| l.as_str()).unwrap_or("?").to_string();
                lanes.insert(lane, v);
            }
        }
    }

    let mut hist = Map::new();
    for (h, m) in &rep.hist {
        let mut mm = Map::new();
        for (k, v) in m {
            mm.insert(k.clone(), json!(v));
        }
        hist.insert(h.clone(), Value::Object(mm));
    }
    if rep.samples.is_empty() {
        rep.samples.push(json!("no sample recorded"));
    }
    let wall = t0.elapsed().as_secs_f64();
    let mut coverage = Map::new();
    coverage.insert("evaluations".into(), json!(rep.evaluations));
    coverage.insert("distinct_nontrivial".into(), json!(rep.distinct.len()));
    coverage.insert("rule".into(), json!(meta.rule));
    coverage.insert("samples".into(), json!(rep.samples));
    coverage.insert("histograms".into(), Value::Object(hist));
    coverage.insert("known_findings_observed".into(), json!(known_hits));
    coverage.insert("violations_observed".into(), json!(viol_list));
    coverage.insert("inconclusive".into(), json!(rep.inconclusive));
    coverage.insert("lane".into(), json!(cfg.lane));
    coverage.insert("debug_assertions".into(), json!(cfg!(debug_assertions)));
    if !lanes.is_empty() {
        coverage.insert("other_lanes".into(), Value::Object(lanes));
    }
    for (k, v) in &rep.notes {
        coverage.insert(k.clone(), v.clone());
    }
    let ev = json!({
        "property_id": cfg.id,
        "tier": cfg.tier.as_str(),
        "seed": cfg.seed,
        "level": meta.level,
        "coverage": Value::Object(coverage),
        "assumptions": meta.assumptions,
        "wall_s": wall,
        "violations": n_viol,
    });
    if let Some(p) = &cfg.partial_out {
        // partial lane summary: compact
        let small = json!({
            "lane": cfg.lane,
            "evaluations": rep.evaluations,
            "distinct_nontrivial": rep.distinct.len(),
            "violations": n_viol,
            "known_findings_observed": ev["coverage"]["known_findings_observed"],
            "inconclusive": rep.inconclusive,
            "wall_s": wall,
            "debug_assertions": cfg!(debug_assertions),
        });
        let _ = std::fs::write(p, serde_json::to_string_pretty(&small).unwrap());
    } else {
        let _ = std::fs::create_dir_all(root.join("evidence"));
        let path = root.join("evidence").join(format!("{}.json", cfg.id));
        std::fs::write(&path, serde_json::to_string_pretty(&ev).unwrap()).expect("write evidence");
    }
    println!(
        "SUMMARY property={} lane={} tier={} seed={} evaluations={} distinct={} violations={} known={} inconclusive={} wall_s={:.1}",
        cfg.id,
        cfg.lane,
        cfg.tier.as_str(),
        cfg.seed,
        rep.evaluations,
        rep.distinct.len(),
        n_viol,
        known_hits.len(),
        rep.inconclusive.len(),
        wall
    );
    if n_viol > 0 {
        1
    } else if !rep.inconclusive.is_empty() {
        2
    } else {
        0
    }
}

pub fn truncate(s: &str, n: usize) -> String {
    if s.len() <= n {
        s.to_string()
    } else {
        let mut end = n;
        while !s.is_char_boundary(end) {
            end -= 1;
        }
        format!("{}…", &s[..end])
    }
}
