//! T-aux: the real auxiliary columns (built by the real `build_aux_segment`) are checked *row by
//! row* so that a deviation is attributed to the operation / table event that caused it:
//!
//! * `b_chip`: the factor col[i+1]/col[i] of every row must equal
//!   Π responses(i) / Π requests(i), with the messages seen by T-bus on that row encoded with the
//!   challenges as the docs specify (chiplets/{hasher,bitwise,memory,kernel_rom}.md, stack/io_ops.md).
//! * decoder virtual tables (`dec_p1` block stack, `dec_p2` block hash, `dec_p3` op groups) and the
//!   chiplets virtual table `vt_chip`: encoding-free *chain* checks: the factors of the rows that add
//!   and remove the entries belonging to one block / batch / Merkle update must multiply to one,
//!   every other row must have factor one.
//!
//! Signatures name the event (`b_chip/request-wrong@RESPAN`, `dec_p1/block-unbalanced/CALL`, …).

use crate::props::c03::Quad;
use crate::tair::op_name;
use crate::tbus::Msg;
use crate::tview::*;
use std::collections::BTreeMap;
use vm_core::{ExtensionOf, Felt, FieldElement};
use winter_prover::matrix::ColMatrix;

pub struct AuxFinding {
    pub sig: String,
    pub what: String,
    pub row: usize,
}

fn e(a: &[Quad], i: usize, v: u64) -> Quad {
    a[i].mul_base(Felt::new(v))
}

/// Encodes a T-bus message for the chiplets bus. Bitwise messages are unordered pairs in T-bus, so
/// both operand orders are returned.
fn encode(m: &Msg, a: &[Quad]) -> Vec<Quad> {
    let t = &m.tuple;
    match m.family {
        "memory" => vec![a[0] + e(a, 1, t[0]) + e(a, 2, t[1]) + e(a, 3, t[2]) + e(a, 4, t[3]) + e(a, 5, t[4]) + e(a, 6, t[5]) + e(a, 7, t[6]) + e(a, 8, t[7])],
        "bitwise" => vec![
            a[0] + e(a, 1, t[0]) + e(a, 2, t[1]) + e(a, 3, t[2]) + e(a, 4, t[3]),
            a[0] + e(a, 1, t[0]) + e(a, 2, t[2]) + e(a, 3, t[1]) + e(a, 4, t[3]),
        ],
        "kernel-rom" => vec![a[0] + e(a, 1, t[0]) + e(a, 2, t[1]) + e(a, 3, t[2]) + e(a, 4, t[3]) + e(a, 5, t[4])],
        "hasher" => {
            let header = a[0] + e(a, 1, t[0]) + e(a, 2, t[1]) + e(a, 3, t[2]);
            let body = &t[3..];
            let mut v = header;
            match body.len() {
                12 => {
                    for (j, x) in body.iter().enumerate() {
                        v += e(a, j + 4, *x);
                    }
                }
                4 => {
                    // leaf / digest words use the alphas of the second state word
                    for (j, x) in body.iter().enumerate() {
                        v += e(a, j + 8, *x);
                    }
                }
                8 => {
                    // absorbed batch: rate positions
                    for (j, x) in body.iter().enumerate() {
                        v += e(a, j + 8, *x);
                    }
                }
                _ => {}
            }
            vec![v]
        }
        _ => vec![],
    }
}

fn ratio(col: &ColMatrix<Quad>, c: usize, i: usize) -> Quad {
    col.get(c, i + 1) * col.get(c, i).inv()
}

/// b_chip (aux column 6): per-row factor against the T-bus messages of that row.
/// Returns true if some row carrying an absorb message could not be analysed in isolation.
pub fn check_b_chip(tv: &TV, aux: &ColMatrix<Quad>, a: &[Quad], msgs: &[Msg], out: &mut Vec<AuxFinding>) -> bool {
    let mut absorb_skipped = false;
    let mut by_row: BTreeMap<usize, Vec<&Msg>> = BTreeMap::new();
    for m in msgs {
        by_row.entry(m.row).or_default().push(m);
    }
    let last = tv.len - 2;
    // absorb tuple -> (product of the isolated factors of its request and response rows, a row)
    let mut absorb: BTreeMap<Vec<u64>, (Quad, usize)> = BTreeMap::new();
    let mut unknown: Vec<Vec<u64>> = vec![];
    for i in 0..last {
        let real = ratio(aux, 6, i);
        let empty = vec![];
        let ms = by_row.get(&i).unwrap_or(&empty);
        let kernel_row = tv.chiplet_kind(i) == "kernel";
        if ms.is_empty() {
            if real != Quad::ONE {
                if kernel_row {
                    out.push(AuxFinding { sig: "b_chip/kernel-rom-row-factor".into(), what: format!("row {i} is a kernel ROM row that is not a procedure access, yet b_chip changes"), row: i });
                    continue;
                }
                let who = if i < tv.cycles { op_name(tv.op(i)) } else { tv.chiplet_kind(i).to_string() };
                out.push(AuxFinding { sig: format!("b_chip/unexpected-factor@{who}"), what: format!("row {i} carries no bus message but b_chip changes"), row: i });
            }
            continue;
        }
        // the absorb message of the hasher is specified in two incompatible ways in the docs
        // (request: absorbed values; response: delta of the rate); it is only required that the
        // request factor of the RESPAN row and the response factor of the hasher row cancel, which
        // the terminal value / chain check covers. Rows carrying it are skipped here.
        if ms.iter().any(|m| m.kind.starts_with("hasher-absorb")) {
            // isolate the factor contributed by the absorb message(s) of this row
            let mut other = Quad::ONE; // expected factor of the non-absorb messages
            let mut determinate = true;
            for m in ms.iter().filter(|m| !m.kind.starts_with("hasher-absorb")) {
                let enc = encode(m, a);
                if enc.len() != 1 {
                    determinate = false;
                    break;
                }
                if m.is_request {
                    other *= enc[0].inv();
                } else {
                    other *= enc[0];
                }
            }
            if determinate && ms.iter().filter(|m| m.kind.starts_with("hasher-absorb")).count() == 1 {
                let f = real * other.inv();
                for m in ms.iter().filter(|m| m.kind.starts_with("hasher-absorb")) {
                    absorb.entry(m.tuple.clone()).or_insert((Quad::ONE, 0)).0 *= f;
                    absorb.get_mut(&m.tuple).unwrap().1 = i;
                }
            } else {
                absorb_skipped = true;
                for m in ms.iter().filter(|m| m.kind.starts_with("hasher-absorb")) {
                    unknown.push(m.tuple.clone());
                }
            }
            continue;
        }
        // try all encodings (bitwise operand order)
        let reqs: Vec<&&Msg> = ms.iter().filter(|m| m.is_request).collect();
        let resps: Vec<&&Msg> = ms.iter().filter(|m| !m.is_request).collect();
        let prod = |set: &[&&Msg], pick: usize| -> Quad {
            let mut p = Quad::ONE;
            for m in set {
                let enc = encode(m, a);
                p *= enc[pick.min(enc.len() - 1)];
            }
            p
        };
        let e_reqs = [prod(&reqs, 0), prod(&reqs, 1)];
        let e_resps = [prod(&resps, 0), prod(&resps, 1)];
        if e_reqs.iter().any(|q| e_resps.iter().any(|p| real * *q == *p)) {
            continue;
        }
        // for the classification below: does the factor look like "requests left out" / "responses left out"?
        let requests_missing = e_resps.iter().any(|p| real == *p);
        let responses_missing = e_reqs.iter().any(|q| real * *q == Quad::ONE);
        if kernel_row && !ms.iter().any(|m| m.kind.starts_with("kernel-proc-call@chiplet")) {
            // a kernel ROM row that is not an access contributes an unexpected factor; whatever
            // request happens to share the row index is not the cause
            out.push(AuxFinding { sig: "b_chip/kernel-rom-row-factor".into(), what: format!("row {i} is a kernel ROM row that is not a procedure access, yet it contributes a factor to b_chip"), row: i });
            continue;
        }
        let req_kinds: Vec<String> = reqs.iter().map(|m| m.kind.clone()).collect();
        let resp_kinds: Vec<String> = resps.iter().map(|m| m.kind.clone()).collect();
        let sig = if resp_kinds.iter().any(|k| k == "kernel-proc-call@chiplet") {
            "b_chip/response-wrong@kernel-proc-call@chiplet".to_string()
        } else if !reqs.is_empty() && requests_missing {
            format!("b_chip/request-missing@{}", req_kinds.join("+"))
        } else if !resps.is_empty() && responses_missing {
            format!("b_chip/response-missing@{}", resp_kinds.join("+"))
        } else if resps.is_empty() {
            format!("b_chip/request-wrong@{}", req_kinds.join("+"))
        } else if reqs.is_empty() {
            format!("b_chip/response-wrong@{}", resp_kinds.join("+"))
        } else {
            format!("b_chip/factor-wrong@{}|{}", req_kinds.join("+"), resp_kinds.join("+"))
        };
        out.push(AuxFinding { sig, what: format!("row {i}: b_chip factor differs from the messages on this row (requests {req_kinds:?}, responses {resp_kinds:?})"), row: i });
    }
    // the request factor at a RESPAN row and the response factor of the hasher row absorbing the
    // same batch must cancel
    for (t, (f, row)) in absorb {
        if f != Quad::ONE && !unknown.contains(&t) {
            out.push(AuxFinding { sig: "b_chip/absorb-pair-unbalanced@RESPAN".into(), what: format!("the b_chip factors of a RESPAN row and of the hasher row absorbing its batch do not cancel (one of them is row {row})"), row });
        }
    }
    absorb_skipped
}

/// Block structure read from the operation stream.
pub struct Block {
    pub op: String,
    pub start: usize,
    pub end: usize,
    pub respans: Vec<usize>,
    pub repeats: Vec<usize>,
    /// indices (into the block list) of directly nested blocks
    pub children: Vec<usize>,
}

pub fn blocks(tv: &TV) -> Vec<Block> {
    let mut out: Vec<Block> = vec![];
    let mut open: Vec<usize> = vec![];
    for r in 0..tv.cycles {
        let op = op_name(tv.op(r));
        match op.as_str() {
            "JOIN" | "SPLIT" | "LOOP" | "SPAN" | "CALL" | "SYSCALL" | "DYN" => {
                let idx = out.len();
                if let Some(&p) = open.last() {
                    out[p].children.push(idx);
                }
                out.push(Block { op, start: r, end: usize::MAX, respans: vec![], repeats: vec![], children: vec![] });
                open.push(idx);
            }
            "RESPAN" => {
                if let Some(&p) = open.last() {
                    out[p].respans.push(r);
                }
            }
            "REPEAT" => {
                if let Some(&p) = open.last() {
                    out[p].repeats.push(r);
                }
            }
            "END" => {
                if let Some(p) = open.pop() {
                    out[p].end = r;
                }
            }
            _ => {}
        }
    }
    out
}

/// Chain checks for the decoder's virtual tables (aux columns 0, 1, 2).
pub fn check_decoder_tables(tv: &TV, aux: &ColMatrix<Quad>, out: &mut Vec<AuxFinding>) {
    let bl = blocks(tv);
    let last = tv.len - 2;
    let mut p1_rows = vec![false; last + 1];
    let mut p2_rows = vec![false; last + 1];
    let mut p3_rows = vec![false; last + 1];
    for b in &bl {
        if b.end == usize::MAX {
            continue;
        }
        // ---- p1 block stack: start pushes, RESPAN replaces, END pops
        let mut p = ratio(aux, 0, b.start) * ratio(aux, 0, b.end);
        p1_rows[b.start] = true;
        p1_rows[b.end] = true;
        for r in &b.respans {
            p *= ratio(aux, 0, *r);
            p1_rows[*r] = true;
        }
        if p != Quad::ONE {
            let tag = if b.respans.is_empty() { b.op.clone() } else { format!("{}-with-respan", b.op) };
            out.push(AuxFinding { sig: format!("dec_p1/block-unbalanced/{tag}"), what: format!("block stack table: entries added at row {} ({}) and removed at row {} do not cancel", b.start, b.op, b.end), row: b.start });
        }
        // ---- p2 block hash: the parent adds its children at its start (and at every REPEAT),
        // each child's END removes its entry
        p2_rows[b.start] = true;
        p2_rows[b.end] = true;
        let mut q = ratio(aux, 1, b.start);
        for r in &b.repeats {
            q *= ratio(aux, 1, *r);
            p2_rows[*r] = true;
        }
        for c in &b.children {
            if bl[*c].end != usize::MAX {
                q *= ratio(aux, 1, bl[*c].end);
            }
        }
        if q != Quad::ONE {
            out.push(AuxFinding { sig: format!("dec_p2/children-unbalanced/{}", b.op), what: format!("block hash table: children added by the {} at row {} and removed by their ENDs do not cancel", b.op, b.start), row: b.start });
        }
        // ---- p3 op group table: per batch, groups added at SPAN / RESPAN are all consumed
        // before the next RESPAN / END
        if b.op == "SPAN" {
            let mut bounds = vec![b.start];
            bounds.extend(b.respans.iter().cloned());
            bounds.push(b.end);
            for w in bounds.windows(2) {
                let mut p3 = Quad::ONE;
                for r in w[0]..w[1] {
                    p3 *= ratio(aux, 2, r);
                    p3_rows[r] = true;
                }
                if p3 != Quad::ONE {
                    out.push(AuxFinding { sig: "dec_p3/batch-unbalanced".into(), what: format!("op group table: groups added at row {} are not all removed before row {}", w[0], w[1]), row: w[0] });
                }
            }
        }
    }
    // root block: the initial entry of the block hash table is removed by the root's END
    if let Some(root) = bl.first() {
        if root.end != usize::MAX && aux.get(1, 0) * ratio(aux, 1, root.end) != Quad::ONE && root.children.is_empty() {
            out.push(AuxFinding { sig: "dec_p2/root-entry-unbalanced".into(), what: "block hash table: the program's root entry is not removed by the root END".into(), row: root.end });
        }
    }
    for (c, rows, name) in [(0usize, &p1_rows, "dec_p1"), (1, &p2_rows, "dec_p2"), (2, &p3_rows, "dec_p3")] {
        for i in 0..last {
            if !rows[i] && ratio(aux, c, i) != Quad::ONE {
                let who = if i < tv.cycles { op_name(tv.op(i)) } else { "padding".to_string() };
                out.push(AuxFinding { sig: format!("{name}/unexpected-factor@{who}"), what: format!("row {i}: {name} changes on a row that neither adds nor removes an entry"), row: i });
            }
        }
    }
}

/// vt_chip (aux column 5): sibling table entries cancel within each Merkle root update; the kernel
/// ROM section contributes exactly the kernel procedure table; nothing else touches the column.
pub fn check_vt_chip(tv: &TV, aux: &ColMatrix<Quad>, a: &[Quad], kernel: &[[u64; 4]], out: &mut Vec<AuxFinding>) {
    let last = tv.len - 2;
    let mut hasher_prod = Quad::ONE;
    let mut kernel_prod = Quad::ONE;
    for i in 0..last {
        let r = ratio(aux, 5, i);
        if r == Quad::ONE {
            continue;
        }
        let kind = tv.chiplet_kind(i);
        let kind_next = tv.chiplet_kind(i + 1);
        if kind == "kernel" || kind_next == "kernel" {
            kernel_prod *= r;
        } else if kind == "hasher" {
            hasher_prod *= r;
        } else {
            out.push(AuxFinding { sig: format!("vt_chip/unexpected-factor@{kind}"), what: format!("row {i} ({kind}) changes vt_chip"), row: i });
        }
    }
    if hasher_prod != Quad::ONE {
        out.push(AuxFinding { sig: "vt_chip/sibling-table-unbalanced".into(), what: "sibling entries added while computing old Merkle roots are not all removed by the new-root computations".into(), row: 0 });
    }
    let mut expect = Quad::ONE;
    for (i, k) in kernel.iter().enumerate() {
        expect *= a[0] + e(a, 1, i as u64) + e(a, 2, k[0]) + e(a, 3, k[1]) + e(a, 4, k[2]) + e(a, 5, k[3]);
    }
    if kernel_prod != expect {
        out.push(AuxFinding {
            sig: format!("vt_chip/kernel-procedure-table/{}", if kernel.len() >= 2 { "kernel>=2" } else if kernel.len() == 1 { "kernel=1" } else { "no-kernel" }),
            what: "the kernel ROM section does not contribute exactly one entry per kernel procedure to vt_chip".into(),
            row: 0,
        });
    }
}
