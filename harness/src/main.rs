use mvmon::props;
use mvmon::report::{finish, Cfg, Report, Tier};
use std::path::PathBuf;
use std::time::Instant;

fn usage() -> ! {
    eprintln!("usage: mvmon check <ID> <quick|thorough> [--seed N] [--lane NAME] [--partial-out F] [--merge F]...");
    eprintln!("       mvmon replay <file>");
    std::process::exit(2);
}

fn main() {
    mvmon::util::tune_allocator();
    mvmon::util::install_panic_hook();
    let args: Vec<String> = std::env::args().collect();
    if args.len() < 2 {
        usage();
    }
    match args[1].as_str() {
        "check" => {
            if args.len() < 4 {
                usage();
            }
            let id = args[2].clone();
            let tier = match args[3].as_str() {
                "quick" => Tier::Quick,
                "thorough" => Tier::Thorough,
                _ => usage(),
            };
            let mut seed: u64 = std::env::var("VERIF_SEED").ok().and_then(|s| s.parse().ok()).unwrap_or(1);
            let mut lane = if cfg!(debug_assertions) { "dbg".to_string() } else { "rel".to_string() };
            let mut partial_out = None;
            let mut merge_in = vec![];
            let mut i = 4;
            while i < args.len() {
                match args[i].as_str() {
                    "--seed" => {
                        seed = args[i + 1].parse().unwrap_or(1);
                        i += 2;
                    }
                    "--lane" => {
                        lane = args[i + 1].clone();
                        i += 2;
                    }
                    "--partial-out" => {
                        partial_out = Some(PathBuf::from(&args[i + 1]));
                        i += 2;
                    }
                    "--merge" => {
                        merge_in.push(PathBuf::from(&args[i + 1]));
                        i += 2;
                    }
                    _ => usage(),
                }
            }
            let scale = std::env::var("VERIF_SCALE").ok().and_then(|s| s.parse().ok()).unwrap_or(1.0);
            let cfg = Cfg { id: id.clone(), tier, seed, lane, partial_out, merge_in, scale };
            let t0 = Instant::now();
            let (meta, rep) = match props::dispatch(&cfg) {
                Some(x) => x,
                None => {
                    eprintln!("unknown property {id}");
                    std::process::exit(2);
                }
            };
            let code = finish(&cfg, meta, rep, t0);
            std::process::exit(code);
        }
        "replay" => {
            if args.len() < 3 {
                usage();
            }
            mvmon::util::set_verbose_panics(true);
            let s = std::fs::read_to_string(&args[2]).expect("read replay file");
            let v: serde_json::Value = serde_json::from_str(&s).expect("parse replay file");
            let id = v.get("property").and_then(|p| p.as_str()).unwrap_or("").to_string();
            let mut rep = Report::new();
            if !props::replay(&id, &v, &mut rep) {
                eprintln!("no replay support for property {id}");
                std::process::exit(2);
            }
            let mut bad = false;
            for viol in &rep.violations {
                bad = true;
                println!("REPLAY-VIOLATION property={} signature={} :: {}", id, viol.sig, viol.what);
            }
            if !bad {
                println!("REPLAY-OK property={} (no violation reproduced; evaluations={})", id, rep.evaluations);
            }
            std::process::exit(if bad { 1 } else { 0 });
        }
        "san-workload" => {
            // mvmon san-workload <seed> <shard> <n> [--prove]
            let seed: u64 = args.get(2).and_then(|s| s.parse().ok()).unwrap_or(1);
            let shard: u64 = args.get(3).and_then(|s| s.parse().ok()).unwrap_or(0);
            let n: usize = args.get(4).and_then(|s| s.parse().ok()).unwrap_or(1);
            let prove = args.iter().any(|a| a == "--prove");
            let (done, findings) = mvmon::san::san_workload(seed, shard, n, prove);
            println!("SAN-SUMMARY seed={seed} shard={shard} programs={done} findings={findings}");
            std::process::exit(if findings > 0 { 1 } else if done == 0 { 2 } else { 0 });
        }
        "c02-scan" => {
            mvmon::debugcmd::c02_scan(&args[2], args.get(3).map(|s| s.as_str()).unwrap_or("fri-proof"));
        }
        "iter-src" => {
            let stack: Vec<u64> = args[3..].iter().map(|s| s.parse().expect("stack value")).collect();
            mvmon::debugcmd::iter_src(&args[2], &stack);
        }
        "run-src" => {
            // mvmon run-src <file.masm> [--prove] [--kernel k.masm] [stack values top-first...]
            let mut prove = false;
            let mut kernel = None;
            let mut stack = vec![];
            let mut i = 3;
            while i < args.len() {
                match args[i].as_str() {
                    "--prove" => prove = true,
                    "--kernel" => {
                        kernel = Some(args[i + 1].clone());
                        i += 1;
                    }
                    s => stack.push(s.parse::<u64>().expect("stack value")),
                }
                i += 1;
            }
            mvmon::debugcmd::run_src(&args[2], &stack, prove, kernel.as_deref());
        }
        _ => usage(),
    }
}
