//! Hosts used by the monitors: a quiet/counting host (records every callback with its clock instead of
//! printing) wrapping the real `DefaultHost<MemAdviceProvider>`.

use processor::{
    AdviceExtractor, AdviceInjector, DefaultHost, ExecutionError, Host, HostResponse,
    MemAdviceProvider, ProcessState,
};
use vm_core::DebugOptions;

#[derive(Clone, Debug, PartialEq, Eq)]
pub struct HostEvent {
    /// "event" | "trace" | "debug" | "get" | "set"
    pub kind: &'static str,
    pub id: u32,
    pub clk: u32,
    pub ctx: u32,
}

pub struct QuietHost {
    pub inner: DefaultHost<MemAdviceProvider>,
    pub events: Vec<HostEvent>,
    pub record_advice: bool,
}

impl QuietHost {
    pub fn new(inner: DefaultHost<MemAdviceProvider>) -> Self {
        QuietHost { inner, events: vec![], record_advice: false }
    }
    pub fn recording(mut self) -> Self {
        self.record_advice = true;
        self
    }
}

impl Host for QuietHost {
    fn get_advice<S: ProcessState>(
        &mut self,
        process: &S,
        extractor: AdviceExtractor,
    ) -> Result<HostResponse, ExecutionError> {
        if self.record_advice {
            self.events.push(HostEvent { kind: "get", id: 0, clk: process.clk(), ctx: process.ctx().into() });
        }
        self.inner.get_advice(process, extractor)
    }

    fn set_advice<S: ProcessState>(
        &mut self,
        process: &S,
        injector: AdviceInjector,
    ) -> Result<HostResponse, ExecutionError> {
        if self.record_advice {
            self.events.push(HostEvent { kind: "set", id: 0, clk: process.clk(), ctx: process.ctx().into() });
        }
        self.inner.set_advice(process, injector)
    }

    fn on_event<S: ProcessState>(&mut self, process: &S, event_id: u32) -> Result<HostResponse, ExecutionError> {
        self.events.push(HostEvent { kind: "event", id: event_id, clk: process.clk(), ctx: process.ctx().into() });
        Ok(HostResponse::None)
    }

    fn on_debug<S: ProcessState>(&mut self, process: &S, _options: &DebugOptions) -> Result<HostResponse, ExecutionError> {
        self.events.push(HostEvent { kind: "debug", id: 0, clk: process.clk(), ctx: process.ctx().into() });
        Ok(HostResponse::None)
    }

    fn on_trace<S: ProcessState>(&mut self, process: &S, trace_id: u32) -> Result<HostResponse, ExecutionError> {
        self.events.push(HostEvent { kind: "trace", id: trace_id, clk: process.clk(), ctx: process.ctx().into() });
        Ok(HostResponse::None)
    }
}
