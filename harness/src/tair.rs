//! T-air / T-shape: evaluates every AIR transition constraint on every non-exempt row and every
//! boundary assertion of a finished execution trace, recording (instead of panicking on) failures.

use air::{ProcessorAir, ProvingOptions, PublicInputs};
use processor::{ExecutionTrace, StackInputs};
use vm_core::{Felt, FieldElement};
use winter_air::{Air, AuxTraceRandElements, EvaluationFrame};
use winter_math::{polynom, ExtensionOf};
use winter_prover::{matrix::ColMatrix, Trace};

pub const OP_BITS_OFFSET: usize = 9; // decoder offset 8 + 1
pub const TRACE_WIDTH: usize = 70;
pub const AUX_WIDTH: usize = 7;
pub const NUM_RANDS: usize = 16;

#[derive(Clone, Debug)]
pub struct AirFail {
    /// "main" | "aux" | "assert-main" | "assert-aux" | "shape"
    pub kind: &'static str,
    pub idx: usize,
    pub row: usize,
    pub op: u8,
    pub detail: String,
}

impl AirFail {
    pub fn sig(&self) -> String {
        match self.kind {
            "main" | "aux" => format!("{}#{}@{}", self.kind, self.idx, op_name(self.op)),
            "shape" => format!("shape:{}", self.detail),
            "panic" => format!("panic:{}", self.detail),
            _ => format!("{}#col{}", self.kind, self.idx),
        }
    }
}

pub fn opcode_at(main: &ColMatrix<Felt>, row: usize) -> u8 {
    let mut op = 0u8;
    for i in 0..7 {
        let b = main.get(OP_BITS_OFFSET + i, row).as_int();
        op |= ((b & 1) as u8) << i;
    }
    op
}

pub fn op_name(code: u8) -> String {
    OP_NAMES.iter().find(|(c, _)| *c == code).map(|(_, n)| n.to_string()).unwrap_or(format!("op{code}"))
}

pub fn make_air(trace: &ExecutionTrace, stack_inputs: &StackInputs) -> ProcessorAir {
    let pi = PublicInputs::new(
        trace.program_info().clone(),
        stack_inputs.clone(),
        trace.stack_outputs().clone(),
    );
    ProcessorAir::new(trace.get_info(), pi, ProvingOptions::default().into())
}

pub struct PeriodicCtx {
    polys: Vec<Vec<Felt>>,
    g: Felt,
    trace_len: usize,
}

impl PeriodicCtx {
    pub fn new(air: &ProcessorAir) -> Self {
        PeriodicCtx {
            polys: air.get_periodic_column_polys(),
            g: air.trace_domain_generator(),
            trace_len: air.trace_length(),
        }
    }
    pub fn values_at(&self, row: usize) -> Vec<Felt> {
        let x = self.g.exp((row as u64).into());
        self.polys
            .iter()
            .map(|p| {
                let num_cycles = self.trace_len / p.len();
                let xp = x.exp((num_cycles as u64).into());
                polynom::eval(p, xp)
            })
            .collect()
    }
}

/// Shape checks (T-shape). Returns failures.
pub fn check_shape(trace: &ExecutionTrace) -> Vec<AirFail> {
    let mut out = vec![];
    let len = trace.length();
    let s = trace.trace_len_summary();
    let mut shape = |d: String| out.push(AirFail { kind: "shape", idx: 0, row: 0, op: 0, detail: d });
    if !len.is_power_of_two() {
        shape("len-not-pow2".into());
    }
    if len < 64 {
        shape("len-below-min".into());
    }
    let c = s.chiplets_trace_len();
    let chip_rows =
        c.hash_chiplet_len() + c.bitwise_chiplet_len() + c.memory_chiplet_len() + c.kernel_rom_len();
    let need = s.main_trace_len().max(s.range_trace_len()).max(chip_rows);
    if len < need + 1 {
        shape("len-too-short".into());
    }
    // not grossly over-allocated: at most one doubling above the minimal power of two
    let minimal = (need + 1).next_power_of_two().max(64);
    if len > 2 * minimal {
        shape("len-over-allocated".into());
    }
    if s.padded_trace_len() != len {
        shape("summary-padded-len-mismatch".into());
    }
    let main = trace.main_segment();
    if main.num_cols() != TRACE_WIDTH {
        shape("width".into());
    }
    out
}

/// Evaluates all transition constraints and boundary assertions with the aux segment built by the
/// real `build_aux_segment` for the given challenges. At most `max_fails` failures are returned.
pub fn check_trace<E>(
    trace: &mut ExecutionTrace,
    stack_inputs: &StackInputs,
    rands: &[E],
    max_fails: usize,
) -> (Vec<AirFail>, Option<ColMatrix<E>>)
where
    E: FieldElement<BaseField = Felt> + ExtensionOf<Felt>,
{
    let mut fails = vec![];
    let aux = match trace.build_aux_segment::<E>(&[], rands) {
        Some(a) => a,
        None => {
            fails.push(AirFail { kind: "shape", idx: 0, row: 0, op: 0, detail: "no-aux-segment".into() });
            return (fails, None);
        }
    };
    if aux.num_cols() != AUX_WIDTH || aux.num_rows() != trace.length() {
        fails.push(AirFail { kind: "shape", idx: 0, row: 0, op: 0, detail: "aux-dims".into() });
        return (fails, Some(aux));
    }
    let air = make_air(trace, stack_inputs);
    let main = trace.main_segment();
    let len = trace.length();
    let mut are = AuxTraceRandElements::new();
    are.add_segment_elements(rands.to_vec());

    // boundary assertions
    for a in air.get_assertions() {
        a.apply(len, |step, value| {
            if main.get(a.column(), step) != value && fails.len() < max_fails {
                fails.push(AirFail {
                    kind: "assert-main",
                    idx: a.column(),
                    row: step,
                    op: 0,
                    detail: format!("expected {} got {}", value, main.get(a.column(), step)),
                });
            }
        });
    }
    for a in air.get_aux_assertions(&are) {
        a.apply(len, |step, value| {
            if aux.get(a.column(), step) != value && fails.len() < max_fails {
                fails.push(AirFail {
                    kind: "assert-aux",
                    idx: a.column(),
                    row: step,
                    op: 0,
                    detail: "aux boundary value mismatch".into(),
                });
            }
        });
    }

    // transition constraints
    let pc = PeriodicCtx::new(&air);
    let n_main = air.context().num_main_transition_constraints();
    let n_aux = air.context().num_aux_transition_constraints();
    let exempt = air.context().num_transition_exemptions();
    let mut main_frame = EvaluationFrame::<Felt>::new(TRACE_WIDTH);
    let mut aux_frame = EvaluationFrame::<E>::new(AUX_WIDTH);
    let mut ev = vec![Felt::ZERO; n_main];
    let mut aev = vec![E::ZERO; n_aux];
    let mut x = Felt::ONE;
    let g = pc.g;
    for step in 0..len - exempt {
        // periodic values, exactly as the prover computes them
        let periodic: Vec<Felt> = pc
            .polys
            .iter()
            .map(|p| {
                let num_cycles = len / p.len();
                let xp = x.exp((num_cycles as u64).into());
                polynom::eval(p, xp)
            })
            .collect();
        trace.read_main_frame(step, &mut main_frame);
        ev.iter_mut().for_each(|e| *e = Felt::ZERO);
        air.evaluate_transition(&main_frame, &periodic, &mut ev);
        let op = opcode_at(main, step);
        for (i, e) in ev.iter().enumerate() {
            if *e != Felt::ZERO && fails.len() < max_fails {
                fails.push(AirFail { kind: "main", idx: i, row: step, op, detail: String::new() });
            }
        }
        for c in 0..AUX_WIDTH {
            aux_frame.current_mut()[c] = aux.get(c, step);
            aux_frame.next_mut()[c] = aux.get(c, (step + 1) % len);
        }
        aev.iter_mut().for_each(|e| *e = E::ZERO);
        air.evaluate_aux_transition(&main_frame, &aux_frame, &periodic, &are, &mut aev);
        for (i, e) in aev.iter().enumerate() {
            if *e != E::ZERO && fails.len() < max_fails {
                fails.push(AirFail { kind: "aux", idx: i, row: step, op, detail: String::new() });
            }
        }
        x *= g;
    }
    (fails, Some(aux))
}

pub const OP_NAMES: &[(u8, &str)] = &[
    (0b0000_0000, "NOOP"),
    (0b0000_0001, "EQZ"),
    (0b0000_0010, "NEG"),
    (0b0000_0011, "INV"),
    (0b0000_0100, "INCR"),
    (0b0000_0101, "NOT"),
    (0b0000_0110, "FMPADD"),
    (0b0000_0111, "MLOAD"),
    (0b0000_1000, "SWAP"),
    (0b0000_1001, "CALLER"),
    (0b0000_1010, "MOVUP2"),
    (0b0000_1011, "MOVDN2"),
    (0b0000_1100, "MOVUP3"),
    (0b0000_1101, "MOVDN3"),
    (0b0000_1110, "ADVPOPW"),
    (0b0000_1111, "EXPACC"),
    (0b0001_0000, "MOVUP4"),
    (0b0001_0001, "MOVDN4"),
    (0b0001_0010, "MOVUP5"),
    (0b0001_0011, "MOVDN5"),
    (0b0001_0100, "MOVUP6"),
    (0b0001_0101, "MOVDN6"),
    (0b0001_0110, "MOVUP7"),
    (0b0001_0111, "MOVDN7"),
    (0b0001_1000, "SWAPW"),
    (0b0001_1001, "EXT2MUL"),
    (0b0001_1010, "MOVUP8"),
    (0b0001_1011, "MOVDN8"),
    (0b0001_1100, "SWAPW2"),
    (0b0001_1101, "SWAPW3"),
    (0b0001_1110, "SWAPDW"),
    (0b0010_0000, "ASSERT"),
    (0b0010_0001, "EQ"),
    (0b0010_0010, "ADD"),
    (0b0010_0011, "MUL"),
    (0b0010_0100, "AND"),
    (0b0010_0101, "OR"),
    (0b0010_0110, "U32AND"),
    (0b0010_0111, "U32XOR"),
    (0b0010_1000, "FRIE2F4"),
    (0b0010_1001, "DROP"),
    (0b0010_1010, "CSWAP"),
    (0b0010_1011, "CSWAPW"),
    (0b0010_1100, "MLOADW"),
    (0b0010_1101, "MSTORE"),
    (0b0010_1110, "MSTOREW"),
    (0b0010_1111, "FMPUPDATE"),
    (0b0011_0000, "PAD"),
    (0b0011_0001, "DUP0"),
    (0b0011_0010, "DUP1"),
    (0b0011_0011, "DUP2"),
    (0b0011_0100, "DUP3"),
    (0b0011_0101, "DUP4"),
    (0b0011_0110, "DUP5"),
    (0b0011_0111, "DUP6"),
    (0b0011_1000, "DUP7"),
    (0b0011_1001, "DUP9"),
    (0b0011_1010, "DUP11"),
    (0b0011_1011, "DUP13"),
    (0b0011_1100, "DUP15"),
    (0b0011_1101, "ADVPOP"),
    (0b0011_1110, "SDEPTH"),
    (0b0011_1111, "CLK"),
    (0b0100_0000, "U32ADD"),
    (0b0100_0010, "U32SUB"),
    (0b0100_0100, "U32MUL"),
    (0b0100_0110, "U32DIV"),
    (0b0100_1000, "U32SPLIT"),
    (0b0100_1010, "U32ASSERT2"),
    (0b0100_1100, "U32ADD3"),
    (0b0100_1110, "U32MADD"),
    (0b0101_0000, "HPERM"),
    (0b0101_0001, "MPVERIFY"),
    (0b0101_0010, "PIPE"),
    (0b0101_0011, "MSTREAM"),
    (0b0101_0100, "SPLIT"),
    (0b0101_0101, "LOOP"),
    (0b0101_0110, "SPAN"),
    (0b0101_0111, "JOIN"),
    (0b0101_1000, "DYN"),
    (0b0101_1001, "RCOMBBASE"),
    (0b0110_0000, "MRUPDATE"),
    (0b0110_0100, "PUSH"),
    (0b0110_1000, "SYSCALL"),
    (0b0110_1100, "CALL"),
    (0b0111_0000, "END"),
    (0b0111_0100, "REPEAT"),
    (0b0111_1000, "RESPAN"),
    (0b0111_1100, "HALT"),
];

/// Panic-safe variant: a panic inside aux-segment construction / constraint evaluation is
/// reported as an `AirFail` of kind "panic" (the detail carries site + message key).
pub fn check_trace_safe<E>(
    trace: &mut ExecutionTrace,
    stack_inputs: &StackInputs,
    rands: &[E],
    max_fails: usize,
) -> Vec<AirFail>
where
    E: FieldElement<BaseField = Felt> + ExtensionOf<Felt>,
{
    match crate::util::catch(|| check_trace::<E>(trace, stack_inputs, rands, max_fails).0) {
        Ok(f) => f,
        Err(p) => vec![AirFail {
            kind: "panic",
            idx: 0,
            row: 0,
            op: 0,
            detail: format!("{}:{}", p.site(), p.msg_key()),
        }],
    }
}
