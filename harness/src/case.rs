//! A `Case` is a fully self-contained, serialisable test artefact: source text (+kernel, +libraries),
//! stack inputs and advice inputs. Everything a monitor runs goes through the real parser/assembler.

use crate::util::{catch, felts, PanicInfo};
use assembly::{
    ast::{ModuleAst, ProgramAst},
    Assembler, LibraryNamespace, LibraryPath, MaslLibrary, Module, Version,
};
use processor::{
    crypto::{MerkleStore, MerkleTree},
    AdviceInputs, DefaultHost, ExecutionError, ExecutionOptions, ExecutionTrace, Host,
    MemAdviceProvider, Program, StackInputs,
};
use serde_json::{json, Value};
use vm_core::{Felt, Word};

#[derive(Clone, Debug, Default)]
pub struct LibSrc {
    pub namespace: String,
    /// (module path e.g. "lib::m", source)
    pub modules: Vec<(String, String)>,
}

#[derive(Clone, Debug, Default)]
pub struct Case {
    pub src: String,
    pub kernel: Option<String>,
    pub libs: Vec<LibSrc>,
    pub stdlib: bool,
    pub debug_mode: bool,
    /// stack inputs, top of the stack FIRST
    pub stack: Vec<u64>,
    /// advice stack, first popped FIRST
    pub advice_stack: Vec<u64>,
    /// advice map: key word -> values
    pub advice_map: Vec<([u64; 4], Vec<u64>)>,
    /// Merkle trees (as full leaf lists, power-of-two many) put into the Merkle store
    pub merkle_trees: Vec<Vec<[u64; 4]>>,
}

impl Case {
    pub fn new(src: impl Into<String>) -> Self {
        Case { src: src.into(), ..Default::default() }
    }
    pub fn with_stack(mut self, top_first: &[u64]) -> Self {
        self.stack = top_first.to_vec();
        self
    }
    pub fn with_advice(mut self, adv: &[u64]) -> Self {
        self.advice_stack = adv.to_vec();
        self
    }

    pub fn to_json(&self) -> Value {
        json!({
            "src": self.src,
            "kernel": self.kernel,
            "libs": self.libs.iter().map(|l| json!({"namespace": l.namespace, "modules": l.modules})).collect::<Vec<_>>(),
            "stdlib": self.stdlib,
            "debug_mode": self.debug_mode,
            "stack_top_first": self.stack.iter().map(|v| v.to_string()).collect::<Vec<_>>(),
            "advice_stack": self.advice_stack.iter().map(|v| v.to_string()).collect::<Vec<_>>(),
            "advice_map": self.advice_map.iter().map(|(k, v)| json!({"key": k.iter().map(|x| x.to_string()).collect::<Vec<_>>(), "values": v.iter().map(|x| x.to_string()).collect::<Vec<_>>()})).collect::<Vec<_>>(),
            "merkle_trees": self.merkle_trees.iter().map(|t| t.iter().map(|w| w.iter().map(|x| x.to_string()).collect::<Vec<_>>()).collect::<Vec<_>>()).collect::<Vec<_>>(),
        })
    }

    pub fn from_json(v: &Value) -> Option<Case> {
        let nums = |x: &Value| -> Vec<u64> {
            x.as_array()
                .map(|a| {
                    a.iter()
                        .filter_map(|e| {
                            e.as_str().and_then(|s| s.parse().ok()).or_else(|| e.as_u64())
                        })
                        .collect()
                })
                .unwrap_or_default()
        };
        let word = |x: &Value| -> [u64; 4] {
            let n = nums(x);
            [n.first().copied().unwrap_or(0), n.get(1).copied().unwrap_or(0), n.get(2).copied().unwrap_or(0), n.get(3).copied().unwrap_or(0)]
        };
        Some(Case {
            src: v.get("src")?.as_str()?.to_string(),
            kernel: v.get("kernel").and_then(|k| k.as_str()).map(|s| s.to_string()),
            libs: v
                .get("libs")
                .and_then(|l| l.as_array())
                .map(|a| {
                    a.iter()
                        .map(|l| LibSrc {
                            namespace: l["namespace"].as_str().unwrap_or("lib").to_string(),
                            modules: l["modules"]
                                .as_array()
                                .map(|m| {
                                    m.iter()
                                        .map(|p| {
                                            (
                                                p[0].as_str().unwrap_or("").to_string(),
                                                p[1].as_str().unwrap_or("").to_string(),
                                            )
                                        })
                                        .collect()
                                })
                                .unwrap_or_default(),
                        })
                        .collect()
                })
                .unwrap_or_default(),
            stdlib: v.get("stdlib").and_then(|b| b.as_bool()).unwrap_or(false),
            debug_mode: v.get("debug_mode").and_then(|b| b.as_bool()).unwrap_or(false),
            stack: v.get("stack_top_first").map(nums).unwrap_or_default(),
            advice_stack: v.get("advice_stack").map(nums).unwrap_or_default(),
            advice_map: v
                .get("advice_map")
                .and_then(|m| m.as_array())
                .map(|a| a.iter().map(|e| (word(&e["key"]), nums(&e["values"]))).collect())
                .unwrap_or_default(),
            merkle_trees: v
                .get("merkle_trees")
                .and_then(|m| m.as_array())
                .map(|a| {
                    a.iter()
                        .map(|t| t.as_array().map(|l| l.iter().map(word).collect()).unwrap_or_default())
                        .collect()
                })
                .unwrap_or_default(),
        })
    }

    pub fn stack_inputs(&self) -> StackInputs {
        let mut v = felts(&self.stack);
        v.reverse();
        StackInputs::new(v)
    }

    pub fn advice_inputs(&self) -> AdviceInputs {
        let mut adv = AdviceInputs::default().with_stack(felts(&self.advice_stack));
        if !self.advice_map.is_empty() {
            adv = adv.with_map(self.advice_map.iter().map(|(k, v)| {
                let w: Word = [Felt::new(k[0]), Felt::new(k[1]), Felt::new(k[2]), Felt::new(k[3])];
                (w.into(), felts(v))
            }));
        }
        if !self.merkle_trees.is_empty() {
            let mut store = MerkleStore::default();
            for t in &self.merkle_trees {
                let leaves: Vec<Word> = t
                    .iter()
                    .map(|k| [Felt::new(k[0]), Felt::new(k[1]), Felt::new(k[2]), Felt::new(k[3])])
                    .collect();
                if let Ok(tree) = MerkleTree::new(leaves) {
                    store.extend(tree.inner_nodes());
                }
            }
            adv = adv.with_merkle_store(store);
        }
        adv
    }

    pub fn default_host(&self) -> DefaultHost<MemAdviceProvider> {
        DefaultHost::new(MemAdviceProvider::from(self.advice_inputs()))
    }

    /// quiet, event-recording host around the real default host
    pub fn host(&self) -> crate::host::QuietHost {
        crate::host::QuietHost::new(self.default_host())
    }

    /// Builds the assembler (kernel, libraries) for this case.
    pub fn assembler(&self) -> Result<Assembler, String> {
        let mut asm = Assembler::default().with_debug_mode(self.debug_mode);
        if self.stdlib {
            asm = asm.with_library(&stdlib::StdLibrary::default()).map_err(|e| e.to_string())?;
        }
        for l in &self.libs {
            let lib = build_lib(l)?;
            asm = asm.with_library(&lib).map_err(|e| e.to_string())?;
        }
        if let Some(k) = &self.kernel {
            asm = asm.with_kernel(k).map_err(|e| e.to_string())?;
        }
        Ok(asm)
    }

    pub fn assemble(&self) -> AsmOutcome {
        match catch(|| -> Result<Program, String> {
            let asm = self.assembler()?;
            let ast = ProgramAst::parse(&self.src).map_err(|e| e.to_string())?;
            asm.compile_ast(&ast).map_err(|e| e.to_string())
        }) {
            Ok(Ok(p)) => AsmOutcome::Ok(Box::new(p)),
            Ok(Err(e)) => AsmOutcome::Err(e),
            Err(p) => AsmOutcome::Panic(p),
        }
    }

    pub fn execute(&self, program: &Program) -> ExecOutcome {
        // safety net against runaway generated loops: 2^20 cycles (a trace of that length already
        // takes ~600 MB); a program exceeding it just counts as "execution failed"
        self.execute_with(program, ExecutionOptions::new(Some(1 << 20), 64, false).expect("options"))
    }

    pub fn execute_with(&self, program: &Program, opts: ExecutionOptions) -> ExecOutcome {
        let host = self.host();
        exec_host(program, self.stack_inputs(), host, opts)
    }
}

/// Execution options with a cycle bound (2^20): a code change that makes a generated program run
/// away must end in an error the oracle can judge, not in memory exhaustion of the monitor.
pub fn bounded_opts() -> ExecutionOptions {
    ExecutionOptions::new(Some(1 << 20), 64, false).expect("options")
}

pub fn build_lib(l: &LibSrc) -> Result<MaslLibrary, String> {
    let ns = LibraryNamespace::new(&l.namespace).map_err(|e| e.to_string())?;
    let mut modules = vec![];
    for (path, src) in &l.modules {
        let ast = ModuleAst::parse(src).map_err(|e| e.to_string())?;
        modules.push(Module::new(LibraryPath::new(path).map_err(|e| e.to_string())?, ast));
    }
    MaslLibrary::new(ns, Version::default(), false, modules, vec![]).map_err(|e| e.to_string())
}

pub enum AsmOutcome {
    Ok(Box<Program>),
    Err(String),
    Panic(PanicInfo),
}

pub enum ExecOutcome {
    Ok(Box<ExecutionTrace>),
    Err(ExecutionError),
    Panic(PanicInfo),
}

impl ExecOutcome {
    pub fn class(&self) -> String {
        match self {
            ExecOutcome::Ok(_) => "ok".into(),
            ExecOutcome::Err(e) => format!("err:{}", err_kind(e)),
            ExecOutcome::Panic(p) => format!("panic:{}", p.site()),
        }
    }
}

pub fn exec_host<H: Host>(
    program: &Program,
    stack: StackInputs,
    host: H,
    opts: ExecutionOptions,
) -> ExecOutcome {
    match catch(|| processor::execute(program, stack, host, opts)) {
        Ok(Ok(t)) => ExecOutcome::Ok(Box::new(t)),
        Ok(Err(e)) => ExecOutcome::Err(e),
        Err(p) => ExecOutcome::Panic(p),
    }
}

/// Variant name of an execution error (stable classification, no payload).
pub fn err_kind(e: &ExecutionError) -> String {
    let d = format!("{:?}", e);
    d.split(|c: char| c == '(' || c == ' ' || c == '{').next().unwrap_or("").to_string()
}
