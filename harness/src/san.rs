//! Sanitizer workload: a small deterministic slice of the generated workloads, sized for 64-256
//! row traces, run through assemble -> execute -> aux segment (real builders: the `uninit_vector`
//! users) -> T-air -> T-bus (and optionally prove + verify) with the monitors on. The lanes run it
//! under Miri (tree borrows), valgrind memcheck and ASan; the tool reports memory errors, this
//! function reports behavioural ones.

use crate::case::{AsmOutcome, Case, ExecOutcome};
use crate::gen::{gen_case, GenCfg};
use crate::props::c03::{rand_quad, Quad};
use crate::props::c12::feature_case;
use crate::tbus::check_buses;
use crate::tview::TV;
use crate::util::rng_for;
use rand::Rng;

/// Returns the number of programs that went through the whole pipeline; prints SAN-FINDING lines.
pub fn san_workload(seed: u64, shard: u64, n: usize, prove: bool) -> (usize, usize) {
    let mut rng = rng_for(seed, "SAN", shard);
    let mut done = 0;
    let mut findings = 0;
    let mut tried = 0;
    while done < n && tried < n * 6 {
        tried += 1;
        // Under Miri, Merkle trees are left out: miden-crypto 0.8.4's MerkleTree::new
        // (merkle_tree.rs:55, a slice re-cast of the node vector while it is being written) is
        // rejected by both borrow models. That is third-party code outside cf/miden-vm; it is
        // recorded in DESIGN.md as a dependency report and would otherwise stop every Miri run
        // before it reaches the repository's own unsafe code.
        let case: Case = if tried % 2 == 0 {
            let (name, c) = feature_case(&mut rng, (shard as usize) * 7 + tried);
            if cfg!(miri) && name == "mtree" {
                continue;
            }
            c
        } else {
            let size = rng.gen_range(2..7);
            let mut gc = GenCfg::random(&mut rng, size);
            gc.max_nest = 2;
            if cfg!(miri) {
                gc.crypto = false;
            }
            gen_case(&mut rng, &gc)
        };
        let prog = match case.assemble() {
            AsmOutcome::Ok(p) => p,
            _ => continue,
        };
        let mut trace = match case.execute(&prog) {
            ExecOutcome::Ok(t) => t,
            _ => continue,
        };
        use winter_prover::Trace;
        if trace.length() > 256 {
            continue;
        }
        let si = case.stack_inputs();
        let rands: Vec<Quad> = rand_quad(&mut rng);
        let fails = crate::tair::check_trace_safe::<Quad>(&mut trace, &si, &rands, 4);
        for f in &fails {
            println!("SAN-FINDING t-air {} :: {}", f.sig(), case.src.replace('\n', " "));
            findings += 1;
        }
        {
            let tv = TV::new(&trace);
            let (unmatched, _) = check_buses(&tv);
            for u in unmatched.iter().filter(|u| !u.kind.contains("DYN")).take(3) {
                println!("SAN-FINDING t-bus {} :: {}", u.sig(), case.src.replace('\n', " "));
                findings += 1;
            }
        }
        if prove {
            let mut rep = crate::report::Report::new();
            crate::props::c01::run_case(&case, (done + shard as usize) % 4, &mut rep);
            for v in &rep.violations {
                println!("SAN-FINDING prove {} :: {}", v.sig, v.what);
                findings += 1;
            }
        }
        done += 1;
        println!("SAN-OK program {} rows {} ops-src-len {}", done, trace.length(), case.src.len());
    }
    (done, findings)
}
