//! Shared utilities: seeded RNG, panic capture, parallel sharding, field helpers.

use rand::{Rng, SeedableRng};
use rand_chacha::ChaCha8Rng;
use std::cell::RefCell;
use std::panic::{self, AssertUnwindSafe};
use std::sync::atomic::{AtomicBool, Ordering};
use std::sync::Once;

pub use vm_core::{Felt, FieldElement, StarkField};

pub const P: u64 = 0xFFFF_FFFF_0000_0001;

pub type Rng8 = ChaCha8Rng;

/// Deterministic RNG for (seed, property tag, shard).
pub fn rng_for(seed: u64, tag: &str, shard: u64) -> Rng8 {
    let mut h: u64 = 0xcbf29ce484222325;
    for b in tag.bytes() {
        h ^= b as u64;
        h = h.wrapping_mul(0x100000001b3);
    }
    let s = seed
        .wrapping_mul(0x9E3779B97F4A7C15)
        .wrapping_add(h)
        .wrapping_add(shard.wrapping_mul(0xD1B54A32D192ED03));
    ChaCha8Rng::seed_from_u64(s)
}

/// Boundary-biased field element (as canonical u64 < P).
pub fn biased_felt(rng: &mut Rng8) -> u64 {
    const B: [u64; 22] = [
        0,
        1,
        2,
        3,
        (1 << 16) - 1,
        1 << 16,
        (1 << 31) - 1,
        1 << 31,
        (1u64 << 32) - 2,
        (1u64 << 32) - 1,
        1u64 << 32,
        (1u64 << 32) + 1,
        1u64 << 33,
        (1u64 << 48) + 5,
        1u64 << 63,
        (1u64 << 63) + 1,
        P - (1u64 << 32),
        P - 3,
        P - 2,
        P - 1,
        0xFFFF_FFFF,
        0x8000_0000_0000_0000 - 1,
    ];
    match rng.gen_range(0..10) {
        0..=3 => B[rng.gen_range(0..B.len())],
        4..=5 => rng.gen::<u32>() as u64,
        6 => rng.gen_range(0..64),
        7 => rng.gen_range(0..1u64 << 16),
        _ => rng.gen_range(0..P),
    }
}

pub fn biased_u32(rng: &mut Rng8) -> u64 {
    const B: [u64; 12] = [
        0,
        1,
        2,
        31,
        32,
        (1 << 16) - 1,
        1 << 16,
        (1 << 31) - 1,
        1 << 31,
        (1u64 << 32) - 2,
        (1u64 << 32) - 1,
        0xAAAA_AAAA,
    ];
    match rng.gen_range(0..10) {
        0..=4 => B[rng.gen_range(0..B.len())],
        _ => rng.gen::<u32>() as u64,
    }
}

pub fn felt(v: u64) -> Felt {
    Felt::new(v)
}

pub fn felts(v: &[u64]) -> Vec<Felt> {
    v.iter().map(|&x| Felt::new(x)).collect()
}

pub fn ints(v: &[Felt]) -> Vec<u64> {
    v.iter().map(|x| x.as_int()).collect()
}

// PANIC CAPTURE
// ================================================================================================

#[derive(Debug, Clone)]
pub struct PanicInfo {
    pub message: String,
    pub location: String,
}

impl PanicInfo {
    /// In-repo location (path relative to /repo) or the dependency crate + file.
    pub fn site(&self) -> String {
        let loc = &self.location;
        if let Some(i) = loc.find("/repo/") {
            return loc[i + 6..].to_string();
        }
        // a scratch worktree of /repo (bin/try_seeded_wt.sh): same relative path
        if let Ok(root) = std::env::var("VERIF_REPO_ROOT") {
            if let Some(i) = loc.find(&root) {
                return loc[i + root.len()..].trim_start_matches('/').to_string();
            }
        }
        if let Some(i) = loc.find("/registry/src/") {
            let rest = &loc[i + 14..];
            if let Some(j) = rest.find('/') {
                return format!("dep:{}", &rest[j + 1..]);
            }
        }
        loc.clone()
    }
    pub fn in_repo(&self) -> bool {
        self.location.contains("/repo/")
            || (!self.location.contains("/registry/")
                && !self.location.contains("/rustc/")
                && !self.location.contains("/verif/"))
    }
    /// message with digits collapsed, for stable signatures
    pub fn msg_key(&self) -> String {
        let mut out = String::new();
        let mut last_digit = false;
        for c in self.message.chars().take(80) {
            if c.is_ascii_digit() {
                if !last_digit {
                    out.push('#');
                }
                last_digit = true;
            } else {
                last_digit = false;
                out.push(if c.is_whitespace() { '_' } else { c });
            }
        }
        out
    }
}

thread_local! {
    static LAST_PANIC: RefCell<Option<PanicInfo>> = const { RefCell::new(None) };
    static CAPTURING: RefCell<u32> = const { RefCell::new(0) };
}

static HOOK: Once = Once::new();
static VERBOSE_PANICS: AtomicBool = AtomicBool::new(false);

pub fn set_verbose_panics(v: bool) {
    VERBOSE_PANICS.store(v, Ordering::Relaxed);
}

pub fn install_panic_hook() {
    HOOK.call_once(|| {
        let default = panic::take_hook();
        panic::set_hook(Box::new(move |info| {
            let capturing = CAPTURING.with(|c| *c.borrow() > 0);
            let msg = if let Some(s) = info.payload().downcast_ref::<&str>() {
                s.to_string()
            } else if let Some(s) = info.payload().downcast_ref::<String>() {
                s.clone()
            } else {
                "<non-string panic>".to_string()
            };
            let loc = info
                .location()
                .map(|l| format!("{}:{}", l.file(), l.line()))
                .unwrap_or_else(|| "<unknown>".into());
            if capturing {
                LAST_PANIC.with(|p| {
                    *p.borrow_mut() = Some(PanicInfo { message: msg, location: loc })
                });
                if VERBOSE_PANICS.load(Ordering::Relaxed) {
                    default(info);
                }
            } else {
                default(info);
            }
        }));
    });
}

/// Runs `f`, catching panics and returning where/what panicked.
pub fn catch<T>(f: impl FnOnce() -> T) -> Result<T, PanicInfo> {
    install_panic_hook();
    CAPTURING.with(|c| *c.borrow_mut() += 1);
    let r = panic::catch_unwind(AssertUnwindSafe(f));
    CAPTURING.with(|c| *c.borrow_mut() -= 1);
    match r {
        Ok(v) => Ok(v),
        Err(_) => Err(LAST_PANIC.with(|p| p.borrow_mut().take()).unwrap_or(PanicInfo {
            message: "<unknown>".into(),
            location: "<unknown>".into(),
        })),
    }
}

// PARALLEL SHARDS
// ================================================================================================

pub fn num_threads() -> usize {
    std::env::var("VERIF_THREADS")
        .ok()
        .and_then(|s| s.parse().ok())
        .unwrap_or_else(|| std::thread::available_parallelism().map(|n| n.get()).unwrap_or(8))
        .max(1)
}

/// Runs `job(i)` for i in 0..n on a pool of worker threads; results returned in index order.
pub fn par_map<T: Send>(n: usize, job: impl Fn(usize) -> T + Sync) -> Vec<T> {
    use std::sync::atomic::AtomicUsize;
    use std::sync::Mutex;
    let next = AtomicUsize::new(0);
    let out: Mutex<Vec<Option<T>>> = Mutex::new((0..n).map(|_| None).collect());
    let threads = num_threads().min(n.max(1));
    std::thread::scope(|s| {
        for _ in 0..threads {
            std::thread::Builder::new()
                .stack_size(128 << 20)
                .spawn_scoped(s, || loop {
                    let i = next.fetch_add(1, Ordering::Relaxed);
                    if i >= n {
                        break;
                    }
                    let r = job(i);
                    out.lock().unwrap()[i] = Some(r);
                })
                .unwrap();
        }
    });
    out.into_inner().unwrap().into_iter().map(|x| x.expect("job result")).collect()
}

/// Big stack thread runner (deeply nested MAST recursion in the VM needs it).
pub fn with_big_stack<T: Send>(f: impl FnOnce() -> T + Send) -> T {
    std::thread::scope(|s| {
        std::thread::Builder::new()
            .stack_size(256 << 20)
            .spawn_scoped(s, f)
            .unwrap()
            .join()
            .unwrap()
    })
}

pub fn hex(bytes: &[u8]) -> String {
    let mut s = String::with_capacity(bytes.len() * 2);
    for b in bytes {
        s.push_str(&format!("{:02x}", b));
    }
    s
}

pub fn unhex(s: &str) -> Vec<u8> {
    (0..s.len() / 2).map(|i| u8::from_str_radix(&s[2 * i..2 * i + 2], 16).unwrap_or(0)).collect()
}

/// glibc's malloc trims / munmaps every freed trace buffer; with 16 worker threads that dominates
/// execution-heavy checks. Keep freed memory in the arena instead (no effect on verdicts).
pub fn tune_allocator() {
    #[cfg(all(target_os = "linux", target_env = "gnu", not(miri)))]
    {
        extern "C" {
            fn mallopt(param: i32, value: i32) -> i32;
        }
        unsafe {
            mallopt(-1, 1 << 30); // M_TRIM_THRESHOLD
            mallopt(-2, 64 << 20); // M_TOP_PAD
            mallopt(-3, 32 << 20); // M_MMAP_THRESHOLD
        }
    }
}

impl PanicInfo {
    /// Signature key of a panic: `file:line` for code of cf/miden-vm, crate + file (no line: the
    /// whole validation routine is one finding) for third-party dependency code.
    pub fn site_key(&self) -> String {
        let s = self.site();
        if s.starts_with("dep:") {
            match s.rfind(':') {
                Some(i) if i > 4 => s[..i].to_string(),
                _ => s,
            }
        } else {
            s
        }
    }
}
