//! C02 — a proof binds to its statement; altered statements or proofs are rejected.
//!
//! Fault injection at the `verify()` boundary: from a pool of honest (program, inputs, outputs,
//! proof) tuples, every single-field alteration of the statement, byte-level corruption of every
//! region of the serialised proof, hash-tag relabelling and honest proofs produced under
//! non-accepted options must make `from_bytes` or `verify` return an error — never acceptance,
//! never a panic.

use crate::case::{AsmOutcome, Case, ExecOutcome};
use crate::gen::{gen_case, GenCfg};
use crate::pv::{self, ProveOutcome, VerifyOutcome, OPTION_NAMES};
use crate::report::{merge_all, Cfg, Meta, Report};
use crate::util::{catch, hex, par_map, rng_for, Rng8, P};
use miden::{ExecutionProof, HashFunction, ProvingOptions, StackOutputs};
use processor::{Digest, Kernel, ProgramInfo, StackInputs};
use rand::Rng;
use serde_json::{json, Value};
use vm_core::{Felt, FieldElement, StarkField};
use winter_air::FieldExtension;
use winter_utils::{Deserializable, Serializable};

pub fn meta() -> Meta {
    Meta {
        level: "fault_enumeration",
        rule: "each evaluation = one single alteration (of the program hash, kernel, a stack input, a stack output / overflow element / overflow address, built through constructors, stack_mut and crafted bytes; a bit flip, byte substitution, truncation or extension in a region of the proof bytes; a relabelled hash tag; an honest proof made with non-accepted options) applied to an honest tuple that was first checked to verify, then submitted to ExecutionProof::from_bytes + miden::verify; distinct = distinct (alteration kind, proof region or field, option set, deep stack?)".into(),
        assumptions: vec![
            "binding of honest proofs under single alterations; cryptographic soundness against adaptive provers is not observable".into(),
            "byte alterations that decode to the identical proof object (trailing bytes ignored by the reader) and u64 aliases v+p of the same field element are equivalent statements/proofs, counted separately, not violations".into(),
        ],
    }
}

pub struct Honest {
    pub case: Case,
    pub oi: usize,
    pub info: ProgramInfo,
    pub si: StackInputs,
    pub so: StackOutputs,
    pub proof_bytes: Vec<u8>,
    /// (name, start, end) regions of proof_bytes
    pub regions: Vec<(String, usize, usize)>,
}

fn ser_len<T: Serializable>(t: &T) -> usize {
    let mut v = vec![];
    t.write_into(&mut v);
    v.len()
}

fn region_map(proof: &ExecutionProof, total: usize) -> Vec<(String, usize, usize)> {
    let p = &proof.proof;
    let mut out = vec![("hash-tag".to_string(), 0usize, 1usize)];
    let mut off = 1;
    let mut add = |name: &str, len: usize, off: &mut usize| {
        out.push((name.to_string(), *off, *off + len));
        *off += len;
    };
    add("context", ser_len(&p.context), &mut off);
    add("num-unique-queries", 1, &mut off);
    add("commitments", ser_len(&p.commitments), &mut off);
    for (i, q) in p.trace_queries.iter().enumerate() {
        add(&format!("trace-queries-{i}"), ser_len(q), &mut off);
    }
    add("constraint-queries", ser_len(&p.constraint_queries), &mut off);
    add("ood-frame", ser_len(&p.ood_frame), &mut off);
    // the FRI proof ends with one byte of prover-side metadata (log2 of the number of partitions)
    let fri_len = ser_len(&p.fri_proof);
    add("fri-proof", fri_len.saturating_sub(1), &mut off);
    add("fri-num-partitions", fri_len.min(1), &mut off);
    add("pow-nonce", 8, &mut off);
    if off != total {
        // layout assumption broken: fall back to a single region so nothing is mislabelled
        return vec![("hash-tag".into(), 0, 1), ("proof".into(), 1, total)];
    }
    out
}

pub fn make_honest(case: &Case, oi: usize, rep: &mut Report) -> Option<Honest> {
    let prog = match case.assemble() {
        AsmOutcome::Ok(p) => p,
        _ => return None,
    };
    let trace = match case.execute(&prog) {
        ExecOutcome::Ok(t) => t,
        _ => return None,
    };
    use winter_prover::Trace;
    if trace.length() > 1024 {
        return None;
    }
    drop(trace);
    let (so, proof) = match pv::prove(case, &prog, pv::options(oi)) {
        ProveOutcome::Ok(o, p) => (o, p),
        _ => {
            rep.count("pool", "prove-failed(C01's business)");
            return None;
        }
    };
    let bytes = proof.to_bytes();
    let regions = region_map(&proof, bytes.len());
    let info = ProgramInfo::from((*prog).clone());
    let si = case.stack_inputs();
    // sanity: the unaltered tuple must verify, otherwise the oracle would be vacuous
    match pv::verify(info.clone(), si.clone(), so.clone(), ExecutionProof::from_bytes(&bytes).ok()?) {
        VerifyOutcome::Ok(_) => {}
        _ => {
            rep.count("pool", "honest-rejected(C01's business)");
            return None;
        }
    }
    rep.count("pool", OPTION_NAMES[oi]);
    Some(Honest { case: case.clone(), oi, info, si, so, proof_bytes: bytes, regions })
}

struct Ctx<'a> {
    h: &'a Honest,
    rep: &'a mut Report,
}

impl<'a> Ctx<'a> {
    fn deep(&self) -> bool {
        self.h.so.stack().len() > 16 || self.h.case.stack.len() > 16
    }

    fn submit(&mut self, kind: &str, field: &str, info: ProgramInfo, si: StackInputs, so: StackOutputs, proof_bytes: &[u8], detail: Value) {
        // an "alteration" that denotes the very same statement and proof is not an alteration
        {
            let h = self.h;
            let same_so = so.stack().iter().map(|v| v % P).eq(h.so.stack().iter().map(|v| v % P))
                && so.overflow_addrs().iter().map(|v| v % P).eq(h.so.overflow_addrs().iter().map(|v| v % P));
            let same = same_so
                && si.values() == h.si.values()
                && info.program_hash() == h.info.program_hash()
                && info.kernel().proc_hashes() == h.info.kernel().proc_hashes()
                && proof_bytes == &h.proof_bytes[..];
            if same {
                self.rep.count("equivalent", &format!("same-statement-after-{kind}/{field}"));
                return;
            }
        }
        let key = format!("{kind}|{field}|{}|{}", OPTION_NAMES[self.h.oi], self.deep());
        self.rep.eval(&key);
        self.rep.count("alteration_kind", kind);
        let wit = json!({"kind": "tamper", "case": self.h.case.to_json(), "option_set": OPTION_NAMES[self.h.oi], "alteration": kind, "field": field, "detail": detail});
        let proof = match catch(|| ExecutionProof::from_bytes(proof_bytes)) {
            Ok(Ok(p)) => p,
            Ok(Err(_)) => {
                self.rep.count("outcome", "decode-err");
                return;
            }
            Err(p) => {
                self.rep.count("outcome", "decode-panic");
                self.rep.violation(format!("panic/{}", p.site_key()), format!("ExecutionProof::from_bytes panicked on altered bytes ({kind}/{field}): {} at {}", p.message, p.location), wit);
                return;
            }
        };
        match pv::verify(info, si, so, proof) {
            VerifyOutcome::Err(_) => self.rep.count("outcome", "verify-err"),
            VerifyOutcome::Ok(_) => {
                self.rep.count("outcome", "ACCEPTED");
                self.rep.violation(format!("accepted/{kind}/{field}"), format!("verify accepted an altered tuple: {kind}/{field} {detail}"), wit);
            }
            VerifyOutcome::Panic(p) => {
                self.rep.count("outcome", "verify-panic");
                self.rep.violation(format!("panic/{}", p.site_key()), format!("verify panicked on altered tuple ({kind}/{field}): {} at {}", p.message, p.location), wit);
            }
        }
    }

    /// A statement holding a non-canonical integer that the validated constructor let through:
    /// it differs from the honest statement as data, so verify must not accept it.
    fn alias_submit(&mut self, field: &str, so: StackOutputs, detail: Value) {
        let h = self.h;
        self.rep.eval(&format!("stack-output/new-alias|{field}|{}|{}", OPTION_NAMES[h.oi], self.deep()));
        self.rep.count("alteration_kind", "stack-output/new-alias");
        let wit = json!({"kind": "tamper", "case": h.case.to_json(), "option_set": OPTION_NAMES[h.oi], "alteration": "stack-output/new-alias", "field": field, "detail": detail});
        let proof = match ExecutionProof::from_bytes(&h.proof_bytes) {
            Ok(p) => p,
            Err(_) => return,
        };
        match pv::verify(h.info.clone(), h.si.clone(), so, proof) {
            VerifyOutcome::Err(_) => self.rep.count("outcome", "verify-err"),
            VerifyOutcome::Ok(_) => self.rep.violation(
                format!("accepted/stack-output/new-alias/{field}"),
                format!("StackOutputs::new accepted a non-canonical integer (v + p) in {field} and verify accepted the resulting statement"),
                wit,
            ),
            VerifyOutcome::Panic(p) => self.rep.violation(format!("panic/{}", p.site_key()), format!("verify panicked on a constructor-built alias statement: {}", p.message), wit),
        }
    }

    fn statement(&mut self, rng: &mut Rng8, other_hash: Digest) {
        let h = self.h;
        let pb = &h.proof_bytes;
        let hash: [Felt; 4] = (*h.info.program_hash()).into();
        let kernel = h.info.kernel().clone();
        // 1. program hash
        for i in 0..4 {
            let mut w = hash;
            w[i] += Felt::ONE;
            self.submit("program-hash", &format!("elem{i}+1"), ProgramInfo::new(w.into(), kernel.clone()), h.si.clone(), h.so.clone(), pb, json!(i));
        }
        let rnd: [Felt; 4] = [Felt::new(rng.gen::<u64>() % P), Felt::new(rng.gen::<u64>() % P), Felt::new(rng.gen::<u64>() % P), Felt::new(rng.gen::<u64>() % P)];
        self.submit("program-hash", "random", ProgramInfo::new(rnd.into(), kernel.clone()), h.si.clone(), h.so.clone(), pb, json!(null));
        if other_hash != *h.info.program_hash() {
            self.submit("program-hash", "other-valid-program", ProgramInfo::new(other_hash, kernel.clone()), h.si.clone(), h.so.clone(), pb, json!(null));
        }
        // 2. kernel
        let procs: Vec<Digest> = kernel.proc_hashes().to_vec();
        let mut variants: Vec<(&str, Vec<Digest>)> = vec![];
        let mut added = procs.clone();
        added.push(rnd.into());
        variants.push(("add-proc", added));
        if !procs.is_empty() {
            variants.push(("drop-proc", procs[1..].to_vec()));
            let mut repl = procs.clone();
            repl[0] = other_hash;
            variants.push(("replace-proc", repl));
        }
        for (name, v) in variants {
            if let Ok(k) = Kernel::new(&v) {
                if k.proc_hashes() != kernel.proc_hashes() {
                    self.submit("kernel", name, ProgramInfo::new(*h.info.program_hash(), k), h.si.clone(), h.so.clone(), pb, json!(null));
                }
            }
        }
        // kernel through crafted bytes: program info = hash || kernel(len u8? + digests)
        {
            let mut b = vec![];
            h.info.write_into(&mut b);
            for _ in 0..4 {
                let mut m = b.clone();
                let i = rng.gen_range(0..m.len());
                m[i] ^= 1 << rng.gen_range(0..8);
                if let Ok(Ok(pi)) = catch(|| ProgramInfo::read_from_bytes(&m)) {
                    if pi.program_hash() != h.info.program_hash() || pi.kernel().proc_hashes() != kernel.proc_hashes() {
                        self.submit("program-info-bytes", "bitflip", pi, h.si.clone(), h.so.clone(), pb, json!(hex(&m)));
                    }
                }
            }
        }
        // 3. stack inputs (values() is top-first)
        let vals: Vec<Felt> = h.si.values().to_vec();
        let mk = |top_first: &[Felt]| {
            let mut v = top_first.to_vec();
            v.reverse();
            StackInputs::new(v)
        };
        for i in 0..vals.len() {
            let mut v = vals.clone();
            v[i] += Felt::ONE;
            let f = if i < 16 { "top16" } else { "overflow" };
            self.submit("stack-input", &format!("{f}+1"), h.info.clone(), mk(&v), h.so.clone(), pb, json!(i));
        }
        {
            let mut v = vals.clone();
            v.push(Felt::new(7));
            self.submit("stack-input", "append-nonzero", h.info.clone(), mk(&v), h.so.clone(), pb, json!(null));
            let mut v = vals.clone();
            v.push(Felt::ZERO);
            self.submit("stack-input", "append-zero", h.info.clone(), mk(&v), h.so.clone(), pb, json!(null));
            if !vals.is_empty() {
                let mut v = vals.clone();
                v.pop();
                self.submit("stack-input", "drop-deepest", h.info.clone(), mk(&v), h.so.clone(), pb, json!(null));
                let mut v = vals.clone();
                v.remove(0);
                self.submit("stack-input", "drop-top", h.info.clone(), mk(&v), h.so.clone(), pb, json!(null));
            }
        }
        // 4. stack outputs
        let stack: Vec<u64> = h.so.stack().to_vec();
        let addrs: Vec<u64> = h.so.overflow_addrs().to_vec();
        for i in 0..stack.len() {
            let mut s = stack.clone();
            s[i] = (s[i] + 1) % P;
            let f = if i < 16 { "top16" } else { "overflow-elem" };
            if let Ok(so) = StackOutputs::new(s, addrs.clone()) {
                self.submit("stack-output/new", &format!("{f}+1"), h.info.clone(), h.si.clone(), so, pb, json!(i));
            }
            // through stack_mut
            let mut so = h.so.clone();
            so.stack_mut()[i] = (stack[i] + 1) % P;
            self.submit("stack-output/stack_mut", &format!("{f}+1"), h.info.clone(), h.si.clone(), so, pb, json!(i));
            // non-canonical alias v + p of the SAME element: through stack_mut() (an unvalidated
            // test helper) it denotes the same statement as field elements and is only counted;
            // the VALIDATED constructor must refuse it, so a statement built that way and then
            // accepted by verify is an alteration that got through
            if stack[i] < (u64::MAX - P) {
                let mut so = h.so.clone();
                so.stack_mut()[i] = stack[i] + P;
                self.rep.count("equivalent", "statement-alias-v+p");
                let _ = so;
                let mut s = stack.clone();
                s[i] = stack[i] + P;
                match StackOutputs::new(s, addrs.clone()) {
                    Ok(so) => {
                        self.rep.count("alias_through_constructor", "constructed");
                        self.alias_submit(&format!("stack-elem-{}", if i < 16 { "top16" } else { "overflow" }), so, json!(i));
                    }
                    Err(_) => self.rep.count("alias_through_constructor", "refused"),
                }
            }
        }
        for i in 0..addrs.len() {
            if addrs[i] < (u64::MAX - P) {
                let mut a = addrs.clone();
                a[i] = addrs[i] + P;
                match StackOutputs::new(stack.clone(), a) {
                    Ok(so) => {
                        self.rep.count("alias_through_constructor", "constructed");
                        self.alias_submit("overflow-addr", so, json!(i));
                    }
                    Err(_) => self.rep.count("alias_through_constructor", "refused"),
                }
            }
            let mut a = addrs.clone();
            a[i] = (a[i] + 1) % P;
            let f = if i == 0 { "overflow-prev-addr" } else { "overflow-addr" };
            if let Ok(so) = StackOutputs::new(stack.clone(), a) {
                self.submit("stack-output/new", &format!("{f}+1"), h.info.clone(), h.si.clone(), so, pb, json!(i));
            }
        }
        // length changes / padding <-> non-zero
        if stack.len() > 16 {
            // drop the deepest overflow element (+ its address)
            let mut s = stack.clone();
            s.pop();
            let mut a = addrs.clone();
            a.pop();
            if s.len() == 16 {
                a.clear();
            }
            if let Ok(so) = StackOutputs::new(s, a) {
                self.submit("stack-output/new", "drop-overflow-elem", h.info.clone(), h.si.clone(), so, pb, json!(null));
            }
        } else {
            // claim one extra overflow element
            let mut s = stack.clone();
            s.push(5);
            if let Ok(so) = StackOutputs::new(s, vec![0, 3]) {
                self.submit("stack-output/new", "add-overflow-elem", h.info.clone(), h.si.clone(), so, pb, json!(null));
            }
        }
        // crafted bytes for the outputs (third public way to build the statement)
        {
            let mut b = vec![];
            h.so.write_into(&mut b);
            for _ in 0..12 {
                let mut m = b.clone();
                let i = rng.gen_range(0..m.len());
                m[i] ^= 1 << rng.gen_range(0..8);
                match catch(|| StackOutputs::read_from_bytes(&m)) {
                    Ok(Ok(so)) => {
                        let same = so.stack().iter().map(|v| v % P).collect::<Vec<_>>() == stack
                            && so.overflow_addrs().iter().map(|v| v % P).collect::<Vec<_>>() == addrs
                            && so.stack().iter().all(|v| *v < P);
                        if same {
                            self.rep.count("equivalent", "statement-bytes-same-elements");
                            continue;
                        }
                        self.submit("stack-output/bytes", "bitflip", h.info.clone(), h.si.clone(), so, pb, json!(hex(&m)));
                    }
                    Ok(Err(_)) => self.rep.count("outcome", "statement-decode-err"),
                    Err(p) => self.rep.violation(
                        format!("statement-decode-panic/{}", p.site_key()),
                        format!("StackOutputs::read_from_bytes panicked: {}", p.message),
                        json!({"kind": "bytes", "decoder": "StackOutputs", "hex": hex(&m)}),
                    ),
                }
            }
            // truncated output statement: fewer than 16 elements
            let mut short = vec![];
            short.extend_from_slice(&3u32.to_le_bytes());
            for v in &stack[..3] {
                short.extend_from_slice(&v.to_le_bytes());
            }
            short.extend_from_slice(&0u32.to_le_bytes());
            if let Ok(Ok(so)) = catch(|| StackOutputs::read_from_bytes(&short)) {
                self.submit("stack-output/bytes", "short-stack", h.info.clone(), h.si.clone(), so, pb, json!(hex(&short)));
            }
        }
    }

    /// Deterministic enumeration of the proof *context* (trace layout, trace length, field modulus,
    /// proof options): every byte x every value goes through `from_bytes`; a fixed value subset
    /// per byte additionally goes through `verify`. This makes the set of reachable panic sites of
    /// the parameter-validation code independent of the seed.
    fn context_exhaustive(&mut self) {
        let h = self.h;
        let pb = &h.proof_bytes;
        let (start, end) = match h.regions.iter().find(|r| r.0 == "context") {
            Some(r) => (r.1, r.2),
            None => return,
        };
        for i in start..end.min(start + 64) {
            let orig = pb[i];
            let mut verify_vals: Vec<u8> = vec![0, 1, 2, 3, 4, 7, 8, 15, 16, 31, 32, 63, 64, 127, 128, 255, orig.wrapping_add(1), orig.wrapping_sub(1)];
            for b in 0..8 {
                verify_vals.push(orig ^ (1 << b));
            }
            for v in 0..=255u8 {
                if v == orig {
                    continue;
                }
                let mut m = pb.clone();
                m[i] = v;
                if verify_vals.contains(&v) {
                    self.submit("proof-context-exhaustive", "context", h.info.clone(), h.si.clone(), h.so.clone(), &m, json!({"offset": i, "value": v}));
                } else {
                    self.rep.evals(1);
                    self.rep.count("alteration_kind", "proof-context-decode-only");
                    if let Err(p) = catch(|| ExecutionProof::from_bytes(&m).is_ok()) {
                        let wit = json!({"kind": "tamper", "case": h.case.to_json(), "option_set": OPTION_NAMES[h.oi], "alteration": "proof-context-exhaustive", "detail": {"offset": i, "value": v}});
                        self.rep.violation(format!("panic/{}", p.site_key()), format!("from_bytes/security_level panicked with context byte {i} = {v}: {} at {}", p.message, p.location), wit);
                    }
                }
            }
        }
    }

    fn proof_bytes(&mut self, rng: &mut Rng8, per_region: usize, truncations: usize) {
        let h = self.h;
        let pb = &h.proof_bytes;
        let canon = |b: &[u8]| -> Option<Vec<u8>> { catch(|| ExecutionProof::from_bytes(b).ok().map(|p| p.to_bytes())).ok().flatten() };
        for (name, start, end) in h.regions.clone() {
            if end <= start {
                continue;
            }
            let rname = if name.starts_with("trace-queries") { "trace-queries".to_string() } else { name.clone() };
            if end - start == 1 && start > 0 {
                // one-byte regions (number of unique queries, FRI partition count): every value,
                // so that what they can reach does not depend on the seed
                for v in 0..=255u8 {
                    if v == pb[start] {
                        continue;
                    }
                    let mut m = pb.clone();
                    m[start] = v;
                    if canon(&m).as_deref() == Some(&pb[..]) {
                        self.rep.count("equivalent", "proof-bytes-decode-identically");
                        continue;
                    }
                    self.submit("proof-byte-exhaustive", &rname, h.info.clone(), h.si.clone(), h.so.clone(), &m, json!({"offset": start, "value": v}));
                }
                continue;
            }
            for k in 0..per_region {
                let mut m = pb.clone();
                let i = rng.gen_range(start..end);
                if k % 3 == 2 {
                    let old = m[i];
                    while m[i] == old {
                        m[i] = rng.gen();
                    }
                } else {
                    m[i] ^= 1 << rng.gen_range(0..8);
                }
                if canon(&m).as_deref() == Some(&pb[..]) {
                    self.rep.count("equivalent", "proof-bytes-decode-identically");
                    continue;
                }
                self.submit(if k % 3 == 2 { "proof-byte-subst" } else { "proof-bitflip" }, &rname, h.info.clone(), h.si.clone(), h.so.clone(), &m, json!({"offset": i}));
            }
            // truncation exactly at the region boundary
            if start > 0 {
                self.submit("proof-truncate", &format!("at-{rname}"), h.info.clone(), h.si.clone(), h.so.clone(), &pb[..start], json!({"len": start}));
            }
        }
        for _ in 0..truncations {
            let n = rng.gen_range(0..pb.len());
            self.submit("proof-truncate", "random-offset", h.info.clone(), h.si.clone(), h.so.clone(), &pb[..n], json!({"len": n}));
        }
        // appended garbage: equivalent if it decodes to the identical object
        let mut ext = pb.clone();
        ext.extend_from_slice(&[0xAB; 5]);
        if canon(&ext).as_deref() == Some(&pb[..]) {
            self.rep.count("equivalent", "proof-trailing-bytes-ignored");
        } else {
            self.submit("proof-extend", "trailing-garbage", h.info.clone(), h.si.clone(), h.so.clone(), &ext, json!(null));
        }
        // hash tag relabelling
        for tag in [0u8, 1, 2, 3, 0x7f, 0xff] {
            if tag != pb[0] {
                let mut m = pb.clone();
                m[0] = tag;
                self.submit("hash-tag-relabel", &format!("to-{tag}"), h.info.clone(), h.si.clone(), h.so.clone(), &m, json!(tag));
            }
        }
    }
}

/// Honest proofs generated under options outside the accepted sets must be refused.
fn weak_options(case: &Case, rng: &mut Rng8, rep: &mut Report) {
    let prog = match case.assemble() {
        AsmOutcome::Ok(p) => p,
        _ => return,
    };
    let so = match case.execute(&prog) {
        ExecOutcome::Ok(t) => t.stack_outputs().clone(),
        _ => return,
    };
    // (name, queries, blowup, grinding, ext, folding, remainder, hash)
    let q = FieldExtension::Quadratic;
    let c = FieldExtension::Cubic;
    let grid: Vec<(&str, usize, usize, u32, FieldExtension, usize, usize, HashFunction)> = vec![
        ("fewer-queries-96", 20, 8, 16, q, 8, 255, HashFunction::Blake3_192),
        ("one-query-96", 1, 8, 16, q, 8, 255, HashFunction::Blake3_192),
        ("lower-grinding-96", 27, 8, 0, q, 8, 255, HashFunction::Blake3_192),
        ("other-folding-96", 27, 8, 16, q, 4, 255, HashFunction::Blake3_192),
        ("other-remainder-96", 27, 8, 16, q, 8, 127, HashFunction::Blake3_192),
        ("96-params-with-blake256-tag", 27, 8, 16, q, 8, 255, HashFunction::Blake3_256),
        ("128-params-with-blake192-tag", 27, 16, 21, c, 8, 255, HashFunction::Blake3_192),
        ("regular-params-with-rpo-tag", 27, 8, 16, q, 8, 255, HashFunction::Rpo256),
        ("recursive-params-with-blake-tag", 27, 8, 16, q, 4, 7, HashFunction::Blake3_192),
        ("fewer-queries-rpo", 10, 8, 16, q, 4, 7, HashFunction::Rpo256),
        ("lower-grinding-128", 27, 16, 10, c, 8, 255, HashFunction::Blake3_256),
        ("quadratic-for-128", 27, 16, 21, q, 8, 255, HashFunction::Blake3_256),
        ("more-queries-96", 40, 8, 16, q, 8, 255, HashFunction::Blake3_192),
    ];
    let pick = rng.gen_range(0..grid.len());
    for (i, g) in grid.iter().enumerate() {
        if i != pick && i != (pick + 5) % grid.len() && i != (pick + 9) % grid.len() {
            continue;
        }
        let opts = match catch(|| ProvingOptions::new(g.1, g.2, g.3, g.4, g.5, g.6, g.7)) {
            Ok(o) => o,
            Err(_) => {
                rep.count("weak_options", &format!("{}:options-refused", g.0));
                continue;
            }
        };
        let proof = match pv::prove(case, &prog, opts) {
            ProveOutcome::Ok(_, p) => p,
            _ => {
                rep.count("weak_options", &format!("{}:prover-refused", g.0));
                continue;
            }
        };
        rep.eval(&format!("weak-options|{}", g.0));
        rep.count("alteration_kind", "non-accepted-options");
        rep.count("weak_options", g.0);
        let info = ProgramInfo::from((*prog).clone());
        let bytes = proof.to_bytes();
        let wit = json!({"kind": "weak-options", "case": case.to_json(), "options": g.0});
        match catch(|| ExecutionProof::from_bytes(&bytes)) {
            Ok(Ok(p)) => match pv::verify(info, case.stack_inputs(), so.clone(), p) {
                VerifyOutcome::Err(_) => rep.count("outcome", "verify-err"),
                VerifyOutcome::Ok(l) => rep.violation(format!("accepted/non-accepted-options/{}", g.0), format!("verify accepted (level {l}) an honest proof made with options '{}'", g.0), wit),
                VerifyOutcome::Panic(p) => rep.violation(format!("panic/{}", p.site_key()), p.message, wit),
            },
            Ok(Err(_)) => rep.count("outcome", "decode-err"),
            Err(p) => rep.violation(format!("panic/{}", p.site_key()), p.message, wit),
        }
    }
}

fn small_case(rng: &mut Rng8, i: usize) -> Case {
    let size = rng.gen_range(2..12);
    let mut gc = GenCfg::random(rng, size);
    gc.deep_inputs = i % 2 == 0;
    gc.deep_outputs = i % 3 != 0;
    gc.kernel = i % 4 == 1;
    gen_case(rng, &gc)
}

pub fn run(cfg: &Cfg) -> Report {
    let shards = 32;
    let per = cfg.n(2, 16);
    let reports = par_map(shards, |sh| {
        let mut rng = rng_for(cfg.seed, "C02", sh as u64);
        let mut rep = Report::new();
        let mut pool: Vec<Honest> = vec![];
        let mut tries = 0;
        while pool.len() < per && tries < per * 6 {
            tries += 1;
            let case = small_case(&mut rng, tries + sh);
            if let Some(h) = make_honest(&case, (sh + pool.len()) % 4, &mut rep) {
                pool.push(h);
            }
        }
        let per_region = cfg.tier.pick(8, 40);
        for i in 0..pool.len() {
            let other = *pool[(i + 1) % pool.len()].info.program_hash();
            let mut ctx = Ctx { h: &pool[i], rep: &mut rep };
            ctx.statement(&mut rng, other);
            ctx.proof_bytes(&mut rng, per_region, per_region * 2);
            // one proof per option set gets the deterministic context enumeration (shards 0..4 quick)
            if i == 0 && (sh < 4 || cfg.tier == crate::report::Tier::Thorough && sh < 16) {
                ctx.context_exhaustive();
            }
            if rep.samples.len() < 3 {
                let h = &pool[i];
                rep.sample(json!({"src": crate::report::truncate(&h.case.src, 160), "option_set": OPTION_NAMES[h.oi], "proof_bytes": h.proof_bytes.len(), "regions": h.regions.iter().map(|r| format!("{}:{}..{}", r.0, r.1, r.2)).collect::<Vec<_>>()}));
            }
        }
        if sh % 2 == 0 {
            let case = small_case(&mut rng, sh);
            weak_options(&case, &mut rng, &mut rep);
        }
        rep
    });
    let mut rep = merge_all(reports);
    for o in OPTION_NAMES {
        rep.floor(rep.get_count("pool", o) >= 3, &format!("pool-has-3-{o}-proofs"));
    }
    for k in ["program-hash", "kernel", "stack-input", "stack-output/new", "stack-output/stack_mut", "stack-output/bytes", "proof-bitflip", "proof-truncate", "hash-tag-relabel", "non-accepted-options"] {
        rep.floor(rep.get_count("alteration_kind", k) >= 5, &format!("alteration-{k}-5x"));
    }
    rep
}

pub fn replay(v: &Value, rep: &mut Report) {
    // re-run the whole alteration battery on the witness program under its option set
    if let Some(case) = v.get("case").and_then(Case::from_json) {
        let oi = v.get("option_set").and_then(|o| o.as_str()).and_then(|o| OPTION_NAMES.iter().position(|n| *n == o)).unwrap_or(0);
        let mut rng = rng_for(0, "C02-replay", 0);
        if v.get("kind").and_then(|k| k.as_str()) == Some("weak-options") {
            for _ in 0..8 {
                weak_options(&case, &mut rng, rep);
            }
            return;
        }
        if let Some(h) = make_honest(&case, oi, rep) {
            let other = *h.info.program_hash();
            let mut ctx = Ctx { h: &h, rep };
            ctx.statement(&mut rng, other);
            ctx.proof_bytes(&mut rng, 60, 100);
        }
    }
}
