//! C01 — every successful execution is provable and its proof verifies (all four option sets,
//! after a byte round-trip, with the statement reported by execution).

use crate::case::{AsmOutcome, Case, ExecOutcome};
use crate::gen::{gen_case, GenCfg};
use crate::props::c03::{ops_signature, regime};
use crate::pv::{self, ProveOutcome, VerifyOutcome, OPTION_NAMES};
use crate::report::{merge_all, Cfg, Meta, Report};
use crate::tair::{op_name, opcode_at};
use crate::util::{par_map, rng_for, Rng8};
use miden::ExecutionProof;
use processor::{Program, ProgramInfo};
use rand::Rng;
use serde_json::json;
use winter_prover::Trace;
use winter_utils::{Deserializable, Serializable};

pub fn meta() -> Meta {
    Meta {
        level: "exploration",
        rule: "each evaluation = one (generated program, inputs, option set) whose execution succeeded and which was then proved by miden::prove, the proof round-tripped through to_bytes/from_bytes and verified by miden::verify against ProgramInfo(program) + the inputs + the outputs reported by a separate execute; distinct = distinct (option set, padding regime, trace length, deep-in?, deep-out?, set of VM opcodes present)".into(),
        assumptions: vec![
            "programs come from the gadget generator (gen.rs) plus boundary-tuned fillers; completeness is only decided over what was generated".into(),
            "winterfell prover/verifier are part of the system under test at this API".into(),
        ],
    }
}

/// Proves+verifies one case under option set `oi`. Returns false if the case did not execute.
pub fn run_case(case: &Case, oi: usize, rep: &mut Report) -> bool {
    let prog: Box<Program> = match case.assemble() {
        AsmOutcome::Ok(p) => p,
        AsmOutcome::Err(_) => {
            rep.count("outcome", "asm-err");
            return false;
        }
        AsmOutcome::Panic(_) => {
            rep.count("outcome", "asm-panic");
            return false;
        }
    };
    let trace = match case.execute(&prog) {
        ExecOutcome::Ok(t) => t,
        ExecOutcome::Err(_) => {
            rep.count("outcome", "exec-err");
            return false;
        }
        ExecOutcome::Panic(_) => {
            rep.count("outcome", "exec-panic");
            return false;
        }
    };
    rep.count("outcome", "ok");
    let outputs = trace.stack_outputs().clone();
    let deep_in = case.stack.len() > 16;
    let deep_out = outputs.stack().len() > 16;
    let len = trace.length();
    {
        let main = trace.main_segment();
        let n = trace.trace_len_summary().main_trace_len();
        for row in 0..n {
            rep.count("vm_ops_proved", &op_name(opcode_at(main, row)));
        }
    }
    let key = format!("{}|{}|{}|{}|{}|{}", OPTION_NAMES[oi], regime(&trace), len, deep_in, deep_out, ops_signature(&trace));
    let reg = regime(&trace);
    drop(trace);
    rep.eval(&key);
    rep.count("option_set", OPTION_NAMES[oi]);
    rep.count("regime", reg);
    rep.count("trace_len", &len.to_string());
    rep.count("depth_class", &format!("in{}-out{}", if deep_in { ">16" } else { "<=16" }, if deep_out { ">16" } else { "<=16" }));
    rep.count("kernel", if prog.kernel().is_empty() { "none" } else { "present" });
    let wit = |extra: &str| json!({"kind": "case", "case": case.to_json(), "option_set": OPTION_NAMES[oi], "note": extra});

    let (p_out, proof) = match pv::prove(case, &prog, pv::options(oi)) {
        ProveOutcome::Ok(o, p) => (o, p),
        ProveOutcome::Err(e) => {
            rep.violation(format!("prove-err/{}", e.split('(').next().unwrap_or("")), format!("execution succeeded but prove failed: {e}"), wit(""));
            return true;
        }
        ProveOutcome::Panic(p) => {
            rep.violation(format!("prove-panic/{}:{}", p.site(), p.msg_key()), format!("execution succeeded but prove panicked: {} at {}", p.message, p.location), wit(""));
            return true;
        }
    };
    if p_out.stack() != outputs.stack() || p_out.overflow_addrs() != outputs.overflow_addrs() {
        rep.violation("prove-outputs-differ", "outputs returned by prove differ from those of execute", wit(""));
    }
    // byte round trip of the proof (both APIs)
    let bytes = proof.to_bytes();
    let proof2 = match crate::util::catch(|| ExecutionProof::from_bytes(&bytes)) {
        Ok(Ok(p)) => p,
        Ok(Err(e)) => {
            rep.violation("proof-roundtrip/decode-err", format!("from_bytes(to_bytes(proof)) failed: {e}"), wit(""));
            return true;
        }
        Err(p) => {
            rep.violation(format!("proof-roundtrip/panic/{}", p.site()), format!("from_bytes panicked: {}", p.message), wit(""));
            return true;
        }
    };
    if proof2.to_bytes() != bytes {
        rep.violation("proof-roundtrip/bytes-differ", "re-serialised proof differs", wit(""));
    }
    let mut b2 = vec![];
    proof.write_into(&mut b2);
    match ExecutionProof::read_from_bytes(&b2) {
        Ok(p3) => {
            if p3.to_bytes() != bytes {
                rep.violation("proof-roundtrip/serializable-differs", "Serializable/Deserializable round trip differs", wit(""));
            }
        }
        Err(e) => rep.violation("proof-roundtrip/serializable-decode-err", format!("{e}"), wit("")),
    }
    let reported = proof2.security_level();
    let info = ProgramInfo::from((*prog).clone());
    match pv::verify(info, case.stack_inputs(), outputs.clone(), proof2) {
        VerifyOutcome::Ok(level) => {
            if level < pv::min_level(oi) || reported != level {
                rep.violation(
                    format!("security-level/{}", OPTION_NAMES[oi]),
                    format!("verify returned level {level}, proof reports {reported}, configured {}", pv::min_level(oi)),
                    wit(""),
                );
            }
            rep.count("verified", OPTION_NAMES[oi]);
        }
        VerifyOutcome::Err(e) => rep.violation(
            format!("verify-rejected/{}", e.split('(').nth(1).unwrap_or("").split('(').next().unwrap_or("")),
            format!("honest proof rejected: {e}"),
            wit(""),
        ),
        VerifyOutcome::Panic(p) => rep.violation(
            format!("verify-panic/{}", p.site()),
            format!("verify panicked on honest proof: {}", p.message),
            wit(""),
        ),
    }
    if rep.samples.len() < 4 {
        rep.sample(json!({"src": crate::report::truncate(&case.src, 240), "option_set": OPTION_NAMES[oi], "trace_len": len, "proof_bytes": bytes.len(), "deep_in": deep_in, "deep_out": deep_out}));
    }
    true
}

/// Pads a program so that its cycle count lands near a power-of-two boundary (2^k-2 .. 2^k+1).
pub fn boundary_cases(rng: &mut Rng8) -> Vec<Case> {
    let mut out = vec![];
    let k = rng.gen_range(6..9u32);
    // empty program `begin <n x (swap)> end`: cycles = n + fixed overhead; sweep a window so
    // that 2^k-1 and 2^k are both hit whatever the overhead is.
    let target = 1usize << k;
    for n in (target - 12)..(target + 2) {
        let body = "swap ".repeat(n);
        out.push(Case::new(format!("begin {body} end")));
    }
    // hasher-dominated boundary: n hperm give 8n hasher rows (+ program hashing rows)
    for n in 5..10 {
        out.push(Case::new(format!("begin {} end", "hperm ".repeat(n))));
    }
    // chiplet-dominated boundary with MEMORY rows last: hasher rows come in multiples of 8, so
    // the chiplet section can only end on 2^k-2 / 2^k-1 / 2^k through the number of memory rows
    // (mem_stream = 2 memory rows per cycle, an optional mem_load flips the parity). Sweep the
    // window below each power of two for two mixes of hasher and memory rows.
    for t in [64usize, 128, 256] {
        // (a) mostly memory: 8 hasher rows (program hash) + 2n (+1) memory rows
        let n0 = (t - 8) / 2;
        for n in n0.saturating_sub(5)..=n0 + 1 {
            for extra in ["", "mem_load "] {
                out.push(Case::new(format!("begin repeat.{n} mem_stream end {extra}end")));
            }
        }
        // (b) mostly hasher: h hperm + m word stores, h chosen so that 8(h+1) is just below t
        let h = (t / 8).saturating_sub(2);
        for m in 0..18 {
            let stores: String = (0..m).map(|a| format!("mem_storew.{a} ")).collect();
            out.push(Case::new(format!("begin {} {stores} end", "hperm ".repeat(h))));
        }
    }
    // kernel ROM rows last: a kernel with k procedures adds k rows after the memory rows
    for k in 1..4 {
        let kernel: String = (0..k).map(|i| format!("export.k{i} push.{i} drop end ")).collect();
        for n in 24..30 {
            let mut c = Case::new(format!("begin repeat.{n} mem_stream end syscall.k0 end"));
            c.kernel = Some(kernel.clone());
            out.push(c);
        }
    }
    // range-dominated: many distinct 16-bit limbs
    let n = rng.gen_range(1..8);
    let mut body = String::new();
    for i in 0..n {
        body.push_str(&format!("push.{} u32split drop drop ", 0x1234_5678_9abcu64.wrapping_mul(2 * i + 3) % crate::util::P));
    }
    out.push(Case::new(format!("begin {body} end")));
    out
}

pub fn run(cfg: &Cfg) -> Report {
    let shards = 32;
    let per = cfg.n(6, 80);
    let reports = par_map(shards, |sh| {
        let mut rng = rng_for(cfg.seed, "C01", sh as u64);
        let mut rep = Report::new();
        for i in 0..per {
            let oi = (sh + i) % 4;
            // keep RPO-128 traces small: it is ~10x slower
            let size = if oi == 3 { rng.gen_range(2..10) } else { rng.gen_range(2..30) };
            let gc = GenCfg::random(&mut rng, size);
            let case = gen_case(&mut rng, &gc);
            run_case(&case, oi, &mut rep);
        }
        if sh % 8 == 0 {
            // trace-length boundary sweep (main-, chiplet- and range-dominated shapes)
            for (j, c) in boundary_cases(&mut rng).into_iter().enumerate() {
                run_case(&c, (sh / 8 + j) % 3, &mut rep);
                rep.count("boundary_cases", "proved");
            }
        }
        rep
    });
    let mut rep = merge_all(reports);
    for o in OPTION_NAMES {
        rep.floor(rep.get_count("option_set", o) >= 5, &format!("option-set-{o}-proved-5x"));
    }
    rep.floor(rep.hist_len("regime") >= 3, "three-padding-regimes");
    rep.floor(rep.hist_len("depth_class") >= 3, "deep-and-shallow-stacks");
    rep.floor(rep.hist_len("vm_ops_proved") >= 75, "at-least-75-vm-opcodes-proved");
    rep
}

pub fn replay(v: &serde_json::Value, rep: &mut Report) {
    if let Some(case) = v.get("case").and_then(Case::from_json) {
        let oi = v
            .get("option_set")
            .and_then(|o| o.as_str())
            .and_then(|o| OPTION_NAMES.iter().position(|n| *n == o));
        match oi {
            Some(oi) => {
                run_case(&case, oi, rep);
            }
            None => {
                for oi in 0..4 {
                    run_case(&case, oi, rep);
                }
            }
        }
    }
}
