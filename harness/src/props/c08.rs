//! C08 — the program commitment is the specified MAST hash of the executable code.
//!
//! (a) G-span: spans built through `CodeBlock::new_span` and through assembly text for every
//!     push/non-push pattern up to a length bound, periodic continuations of short patterns over
//!     several batches, and random opcode sequences up to 600 operations: structural batching rules on
//!     the REAL `Span::op_batches()`, decoding of every group value back into the operation sequence,
//!     group values and hash against the reference batcher of M-mast (`models::mast`) + miden-crypto;
//! (b) every node of every assembled program (generated programs, hand-written corpus, stdlib
//!     procedures, repository examples) re-hashed bottom-up with M-mast;
//! (c) metamorphic source edits through the real assembler (comments, whitespace, procedure names,
//!     debug mode, decorators, advice injectors → same root; one operation / immediate → other root);
//! (d) hash and kernel recorded by an execution (and carried through prove/verify) = the program's.

use crate::case::{AsmOutcome, Case, ExecOutcome};
use crate::gen::{gen_case, GenCfg};
use crate::models::mast::{
    self, batch_ops, decode_batches, doc_opcode, same_up_to_noop_padding, span_hash_of_batches, BatchTrace, Kind,
    PlainBatch, RefOp, Walker, GROUPS_PER_BATCH, OPS_PER_GROUP,
};
use crate::pv::{self, ProveOutcome, VerifyOutcome};
use crate::report::{merge_all, truncate, Cfg, Meta, Report, Tier};
use crate::tair::opcode_at;
use winter_prover::Trace;
use crate::util::{biased_felt, catch, par_map, rng_for, Rng8, P};
use processor::{Program, ProgramInfo};
use rand::seq::SliceRandom;
use rand::Rng;
use serde_json::{json, Value};
use vm_core::code_blocks::CodeBlock;
use vm_core::crypto::hash::{Rpo256, RpoDigest};
use vm_core::{Felt, Kernel, Operation};

pub fn meta() -> Meta {
    Meta {
        level: "exploration",
        rule: "evaluations: (1) one span = one operation sequence turned into a Span by CodeBlock::new_span or by the assembler, whose real op batches are checked against the documented batching rules, decoded back group by group and compared (group values, hash) with the reference batcher + miden-crypto; distinct = distinct (construction route, #batches, groups used in the last batch, ops in its last group, immediate-in-last-group, PUSH deferred from index 8, batch boundary kind); exhaustive over all push/non-push patterns up to the tier's length bound, periodic continuations of all short patterns, random sequences up to 600 ops; (2) one MAST node of an assembled program re-hashed bottom-up with M-mast, distinct = (node kind, depth, source family); (3) one metamorphic pair (base program, edited program) through the real assembler, distinct = (edit kind, features of the base program); (4) one execution / proof whose recorded program hash and kernel are compared with the program's, distinct = (kernel?, outcome)".into(),
        assumptions: vec![
            "M-mast (models/mast.rs) is written from docs/src/design/programs.md, decoder/main.md and the opcode tables of stack/op_constraints.md; three details left open by the docs (O1–O3 in the model) are settled by the decode-back requirement".into(),
            "miden-crypto's Rpo256::merge_in_domain / hash_elements are trusted as the specified hash function".into(),
            "span operation lists of assembled programs are read from OpBatch::ops(); callee bodies are found through Program::cb_table()".into(),
            "collision resistance of RPO: distinct group sequences are expected to give distinct hashes".into(),
        ],
    }
}

// OPERATIONS
// ================================================================================================

/// Every operation which may appear in a span (no flow-control operations), PUSH excluded.
fn plain_ops() -> Vec<Operation> {
    use Operation::*;
    vec![
        Noop, Assert(0), FmpAdd, FmpUpdate, SDepth, Caller, Clk, Add, Neg, Mul, Inv, Incr, And, Or, Not, Eq, Eqz,
        Expacc, Ext2Mul, U32split, U32add, U32assert2(Felt::new(0)), U32add3, U32sub, U32mul, U32madd, U32div,
        U32and, U32xor, Pad, Drop, Dup0, Dup1, Dup2, Dup3, Dup4, Dup5, Dup6, Dup7, Dup9, Dup11, Dup13, Dup15, Swap,
        SwapW, SwapW2, SwapW3, SwapDW, MovUp2, MovUp3, MovUp4, MovUp5, MovUp6, MovUp7, MovUp8, MovDn2, MovDn3,
        MovDn4, MovDn5, MovDn6, MovDn7, MovDn8, CSwap, CSwapW, AdvPop, AdvPopW, MLoadW, MStoreW, MLoad, MStore,
        MStream, Pipe, HPerm, MpVerify, MrUpdate, FriE2F4, RCombBase,
    ]
}

fn op_to_json(op: &Operation) -> Value {
    let extra = match op {
        Operation::Push(v) => v.as_int().to_string(),
        Operation::Assert(e) => e.to_string(),
        Operation::U32assert2(e) => e.as_int().to_string(),
        _ => String::new(),
    };
    json!([doc_opcode(op), extra])
}

fn op_from_json(v: &Value) -> Option<Operation> {
    let code = v.get(0)?.as_u64()? as u8;
    let extra: u64 = v.get(1).and_then(|e| e.as_str()).and_then(|s| s.parse().ok()).unwrap_or(0);
    Some(match code {
        100 => Operation::Push(Felt::new(extra)),
        32 => Operation::Assert(extra as u32),
        74 => Operation::U32assert2(Felt::new(extra)),
        c => plain_ops().into_iter().find(|o| doc_opcode(o) == c)?,
    })
}

fn ops_to_json(ops: &[Operation]) -> Value {
    Value::Array(ops.iter().map(op_to_json).collect())
}

fn digest_str(d: &RpoDigest) -> String {
    let e: [Felt; 4] = (*d).into();
    format!("[{},{},{},{}]", e[0].as_int(), e[1].as_int(), e[2].as_int(), e[3].as_int())
}

// SPAN COVERAGE
// ================================================================================================

#[derive(Default)]
struct Cov {
    /// reference accumulator states (groups in use, ops in current group)
    states: [[u64; OPS_PER_GROUP + 1]; GROUPS_PER_BATCH + 1],
    /// real last-batch fill (groups used in last batch, ops in last group)
    fill: [[u64; OPS_PER_GROUP + 1]; GROUPS_PER_BATCH + 1],
    batches: [u64; 12],
    max_batches: usize,
    imm_at_last_slot: u64,
    deferred_idx8: u64,
    new_batch_no_imm_slot: u64,
    new_batch_groups_full: u64,
    imm_op_then_noop: u64,
    spans: u64,
    ops: u64,
    noops_added: u64,
}

impl Cov {
    fn add_trace(&mut self, t: &BatchTrace) {
        for g in 0..=GROUPS_PER_BATCH {
            for o in 0..=OPS_PER_GROUP {
                self.states[g][o] += t.states[g][o] as u64;
            }
        }
        self.imm_at_last_slot += t.imm_at_last_slot as u64;
        self.deferred_idx8 += t.imm_op_deferred_from_idx8 as u64;
        self.new_batch_no_imm_slot += t.new_batch_no_imm_slot as u64;
        self.new_batch_groups_full += t.new_batch_groups_full as u64;
        self.imm_op_then_noop += t.imm_op_then_noop as u64;
    }
    fn flush(&self, rep: &mut Report) {
        for g in 1..=GROUPS_PER_BATCH {
            for o in 1..=OPS_PER_GROUP {
                if self.states[g][o] > 0 {
                    rep.count_n("accumulator_state(groups_in_use,ops_in_group)", &format!("g{g}o{o}"), self.states[g][o]);
                }
                if self.fill[g][o] > 0 {
                    rep.count_n("real_last_batch_fill(groups,ops_in_last_group)", &format!("g{g}o{o}"), self.fill[g][o]);
                }
            }
        }
        for (i, n) in self.batches.iter().enumerate() {
            if *n > 0 {
                let k = if i == 11 { ">10".to_string() } else { i.to_string() };
                rep.count_n("span_batches", &k, *n);
            }
        }
        let mut ev = |k: &str, n: u64| {
            if n > 0 {
                rep.count_n("batching_events", k, n);
            }
        };
        ev("immediate-in-last-group-of-batch", self.imm_at_last_slot);
        ev("push-deferred-from-group-index-8", self.deferred_idx8);
        ev("new-batch:no-group-left-for-immediate", self.new_batch_no_imm_slot);
        ev("new-batch:all-groups-full", self.new_batch_groups_full);
        ev("push-last-in-group-followed-by-noop", self.imm_op_then_noop);
        ev("spans", self.spans);
        ev("operations", self.ops);
        ev("noops-added-by-real-batcher", self.noops_added);
        if self.max_batches > 0 {
            rep.count("max_batches_in_one_span(per_shard)", &format!("{:03}", self.max_batches));
        }
    }
}

// (a) G-SPAN ORACLE
// ================================================================================================

fn plain_batches(span: &vm_core::code_blocks::Span) -> Vec<PlainBatch> {
    span.op_batches()
        .iter()
        .map(|b| {
            let mut groups = [0u64; GROUPS_PER_BATCH];
            for (i, g) in b.groups().iter().enumerate() {
                groups[i] = g.as_int();
            }
            PlainBatch { groups, op_counts: *b.op_counts(), num_groups: b.num_groups() }
        })
        .collect()
}

/// Checks one real span block against the documented rules and the reference model.
/// `input` is the operation sequence the span was made from. Returns true if no violation was found.
fn check_span(
    input: &[Operation],
    block: &CodeBlock,
    via: &str,
    cov: &mut Cov,
    rep: &mut Report,
    wit: &dyn Fn() -> Value,
) -> bool {
    let span = match block {
        CodeBlock::Span(s) => s,
        other => {
            rep.violation(
                format!("span/{via}/not-a-span"),
                format!("a linear operation sequence did not become a span block: {}", truncate(&format!("{other}"), 200)),
                wit(),
            );
            return false;
        }
    };
    let mut ok = true;
    let real = plain_batches(span);
    let dec = decode_batches(&real);
    for (sig, detail) in &dec.issues {
        ok = false;
        rep.violation(format!("span/{sig}"), format!("[{via}] batching rule broken: {detail}"), wit());
    }
    // the operation list reported by each batch is what its groups encode
    let mut off = 0usize;
    for (bi, b) in span.op_batches().iter().enumerate() {
        let n = dec.ops_per_batch[bi];
        let listed: Vec<RefOp> = b.ops().iter().map(RefOp::of).collect();
        if listed.as_slice() != &dec.ops[off..off + n] {
            ok = false;
            rep.violation(
                "span/ops-list-differs-from-groups",
                format!("[{via}] batch {bi}: OpBatch::ops() lists {} operations which are not the {} operations encoded by its groups", listed.len(), n),
                wit(),
            );
        }
        off += n;
    }
    // groups decode back to the input up to NOOP padding
    let refops: Vec<RefOp> = input.iter().map(RefOp::of).collect();
    match same_up_to_noop_padding(&refops, &dec.ops) {
        Ok(added) => cov.noops_added += added as u64,
        Err(e) => {
            ok = false;
            rep.violation("span/groups-do-not-decode-to-input", format!("[{via}] {e}"), wit());
        }
    }
    // reference batcher + miden-crypto
    let (model, tr) = batch_ops(&refops);
    let model_hash = span_hash_of_batches(&model);
    let real_hash = block.hash();
    let mut flat: Vec<Felt> = vec![];
    for b in span.op_batches() {
        flat.extend_from_slice(b.groups());
    }
    if Rpo256::hash_elements(&flat) != real_hash {
        ok = false;
        rep.violation(
            "span/hash-is-not-rpo-of-all-groups",
            format!("[{via}] Span::hash() = {} but RPO over the {} group values of its batches = {}", digest_str(&real_hash), flat.len(), digest_str(&Rpo256::hash_elements(&flat))),
            wit(),
        );
    }
    let same_groups = model.len() == real.len() && model.iter().zip(real.iter()).all(|(m, r)| m.groups == r.groups);
    if !same_groups {
        ok = false;
        let mut detail = format!("{} real batches vs {} reference batches", real.len(), model.len());
        for (bi, (m, r)) in model.iter().zip(real.iter()).enumerate() {
            if m.groups != r.groups {
                detail = format!("first difference in batch {bi}: real groups {:x?} reference groups {:x?}", r.groups, m.groups);
                break;
            }
        }
        rep.violation("span/groups-differ-from-reference-batcher", format!("[{via}] {detail}"), wit());
    } else if model_hash != real_hash {
        ok = false;
        rep.violation(
            "span/hash-differs-from-spec",
            format!("[{via}] Span::hash() = {} but M-mast gives {}", digest_str(&real_hash), digest_str(&model_hash)),
            wit(),
        );
    }
    // number-of-groups convention of the accessor (the docs allow the count before or after padding)
    for (m, r) in model.iter().zip(real.iter()) {
        let c = if r.num_groups == m.padded() {
            if m.padded() == m.used() {
                "exact"
            } else {
                "padded-to-1-2-4-8"
            }
        } else if r.num_groups == m.used() {
            "unpadded"
        } else {
            "other"
        };
        rep.count("num_groups_accessor", c);
    }
    // coverage
    cov.add_trace(&tr);
    cov.spans += 1;
    cov.ops += input.len() as u64;
    let nb = real.len();
    cov.batches[nb.min(11)] += 1;
    cov.max_batches = cov.max_batches.max(nb);
    let g_last = dec.used_groups.last().copied().unwrap_or(0).min(GROUPS_PER_BATCH);
    let o_last = dec.ops_in_last_group.min(OPS_PER_GROUP);
    cov.fill[g_last][o_last] += 1;
    let key = format!(
        "span|{via}|nb{}|g{}|o{}|i7:{}|d8:{}|ni:{}|gf:{}",
        nb.min(6),
        g_last,
        o_last,
        (tr.imm_at_last_slot > 0) as u8,
        (tr.imm_op_deferred_from_idx8 > 0) as u8,
        (tr.new_batch_no_imm_slot > 0) as u8,
        (tr.new_batch_groups_full > 0) as u8
    );
    rep.eval(&key);
    ok
}

fn span_via_api(ops: &[Operation], cov: &mut Cov, rep: &mut Report) -> Option<RpoDigest> {
    let wit = || json!({"kind": "span", "via": "api", "ops": ops_to_json(ops)});
    let v = ops.to_vec();
    match catch(move || CodeBlock::new_span(v)) {
        Ok(block) => {
            check_span(ops, &block, "api", cov, rep, &wit);
            Some(block.hash())
        }
        Err(p) => {
            rep.violation(
                format!("span/new_span-panic/{}", p.site()),
                format!("CodeBlock::new_span panicked on {} valid operations: {} at {}", ops.len(), p.message, p.location),
                wit(),
            );
            None
        }
    }
}

/// push/non-push pattern of length n: bit i set → PUSH(1000+i), else ADD (even i) / SWAP (odd i)
fn pattern_ops(n: usize, bits: u64) -> Vec<Operation> {
    (0..n)
        .map(|i| {
            if (bits >> (i % 64)) & 1 == 1 {
                Operation::Push(Felt::new(1000 + i as u64))
            } else if i % 2 == 0 {
                Operation::Add
            } else {
                Operation::Swap
            }
        })
        .collect()
}

/// assembly text for a sequence made of ADD / SWAP / PUSH(v >= 2)
fn pattern_src(ops: &[Operation]) -> String {
    let mut s = String::with_capacity(ops.len() * 10 + 12);
    s.push_str("begin");
    for op in ops {
        match op {
            Operation::Add => s.push_str(" add"),
            Operation::Swap => s.push_str(" swap"),
            Operation::Push(v) => {
                s.push_str(" push.");
                s.push_str(&v.as_int().to_string());
            }
            _ => unreachable!("pattern op"),
        }
    }
    s.push_str(" end");
    s
}

fn span_via_asm(ops: &[Operation], src: &str, cov: &mut Cov, rep: &mut Report) -> Option<RpoDigest> {
    let case = Case::new(src);
    let wit = || json!({"kind": "span", "via": "asm", "ops": ops_to_json(ops), "src": src});
    match case.assemble() {
        AsmOutcome::Ok(prog) => {
            check_span(ops, prog.root(), "asm", cov, rep, &wit);
            if prog.hash() != prog.root().hash() {
                rep.violation("program/hash-is-not-root-hash", "Program::hash() differs from the hash of its root block", wit());
            }
            Some(prog.hash())
        }
        AsmOutcome::Err(e) => {
            rep.count("span_asm_outcome", &format!("err:{}", truncate(&e, 60)));
            None
        }
        AsmOutcome::Panic(p) => {
            rep.violation(
                format!("span/assembler-panic/{}", p.site()),
                format!("assembling a straight-line program panicked: {} at {}", p.message, p.location),
                wit(),
            );
            None
        }
    }
}

/// both routes for one pattern; the two hashes must also agree with each other
fn pattern_case(ops: &[Operation], cov: &mut Cov, rep: &mut Report) {
    rep.count("g_span_family", "exhaustive-patterns(api+asm)");
    let a = span_via_api(ops, cov, rep);
    let src = pattern_src(ops);
    let b = span_via_asm(ops, &src, cov, rep);
    if let (Some(a), Some(b)) = (a, b) {
        if a != b {
            rep.violation(
                "span/api-and-assembler-hash-differ",
                format!("new_span gives {} but the assembled text gives {}", digest_str(&a), digest_str(&b)),
                json!({"kind": "span", "via": "asm", "ops": ops_to_json(ops), "src": src}),
            );
        }
    }
}

fn random_ops(rng: &mut Rng8, plain: &[Operation]) -> Vec<Operation> {
    let len = match rng.gen_range(0..10) {
        0 => rng.gen_range(1..=12),
        1 => rng.gen_range(60..=80),
        2 => rng.gen_range(140..=150),
        3 => rng.gen_range(280..=600),
        _ => rng.gen_range(1..=600),
    };
    let density = [0.0, 0.03, 0.1, 0.25, 0.5, 0.8, 0.95, 1.0][rng.gen_range(0..8)];
    let noop_boost = rng.gen_bool(0.15);
    (0..len)
        .map(|_| {
            if rng.gen_bool(density) {
                let v = match rng.gen_range(0..6) {
                    0 => rng.gen_range(0..128u64),
                    1 => 100 | (rng.gen_range(0..1u64 << 56) << 7), // looks like a group starting with PUSH
                    _ => biased_felt(rng),
                };
                Operation::Push(Felt::new(v))
            } else if noop_boost && rng.gen_bool(0.3) {
                Operation::Noop
            } else {
                match plain[rng.gen_range(0..plain.len())] {
                    Operation::Assert(_) => Operation::Assert(rng.gen()),
                    Operation::U32assert2(_) => Operation::U32assert2(Felt::new(rng.gen::<u32>() as u64)),
                    o => o,
                }
            }
        })
        .collect()
}

/// one random span + single-position mutants (hash sensitivity at span level)
fn random_span_case(rng: &mut Rng8, plain: &[Operation], cov: &mut Cov, rep: &mut Report) {
    let ops = random_ops(rng, plain);
    let h = match span_via_api(&ops, cov, rep) {
        Some(h) => h,
        None => return,
    };
    if rep.samples.len() < 2 && ops.len() < 40 {
        rep.sample(json!({"what": "random span via CodeBlock::new_span", "ops": ops_to_json(&ops), "hash": digest_str(&h)}));
    }
    // mutate one operation (never from / to NOOP: the docs allow NOOP placement to leave the hash unchanged)
    let i = rng.gen_range(0..ops.len());
    let mut m = ops.clone();
    let kind;
    match ops[i] {
        Operation::Push(v) => {
            if rng.gen_bool(0.7) {
                let mut nv = biased_felt(rng);
                if nv == v.as_int() {
                    nv = (nv + 1) % P;
                }
                m[i] = Operation::Push(Felt::new(nv));
                kind = "immediate";
            } else {
                m[i] = Operation::Add;
                kind = "push-to-op";
            }
        }
        Operation::Noop => return,
        Operation::Assert(e) if rng.gen_bool(0.5) => {
            // error codes are not part of the documented commitment: observed, not judged
            m[i] = Operation::Assert(e.wrapping_add(1));
            if let Ok(b) = catch(|| CodeBlock::new_span(m.clone())) {
                rep.count("assert_err_code_change", if b.hash() == h { "root-unchanged" } else { "root-changed" });
            }
            return;
        }
        old => {
            let mut new = plain[rng.gen_range(0..plain.len())];
            while doc_opcode(&new) == doc_opcode(&old) || new == Operation::Noop {
                new = plain[rng.gen_range(0..plain.len())];
            }
            m[i] = new;
            kind = "operation";
        }
    }
    if let Some(hm) = span_via_api(&m, cov, rep) {
        rep.eval(&format!("span-mutant|{kind}"));
        rep.count("span_sensitivity", kind);
        if hm == h {
            rep.violation(
                format!("span/hash-insensitive-to-{kind}-change"),
                format!("changing operation #{i} from {} to {} leaves the span hash unchanged", ops[i], m[i]),
                json!({"kind": "span-pair", "ops": ops_to_json(&ops), "mutant": ops_to_json(&m)}),
            );
        }
    }
}

// (b) MAST WALK
// ================================================================================================

/// Re-hashes every node of `prog` with M-mast. Returns the model's root hash.
fn check_program(prog: &Program, family: &str, cov: &mut Cov, rep: &mut Report, wit: &dyn Fn() -> Value) -> RpoDigest {
    let kernel: Vec<RpoDigest> = prog.kernel().proc_hashes().to_vec();
    let mut nodes = 0u64;
    let mut max_depth = 0usize;
    let model_root;
    let opaque;
    {
        let mut walker = Walker::new(Some(prog.cb_table()), |v: mast::Visit| {
            nodes += 1;
            max_depth = max_depth.max(v.depth);
            rep.eval(&format!("node|{family}|{}|d{}", v.kind.name(), v.depth.min(10)));
            rep.count("mast_node_kind", v.kind.name());
            if v.depth >= 3 {
                rep.count("mast_node_kind_at_depth>=3", v.kind.name());
            }
            if v.local != v.real {
                rep.violation(
                    format!("mast/{}-hash-differs-from-spec", v.kind.name()),
                    format!("{} node at depth {}: CodeBlock::hash() = {} but the documented rule applied to its children gives {}", v.kind.name(), v.depth, digest_str(&v.real), digest_str(&v.local)),
                    wit(),
                );
            }
            match (v.kind, v.block) {
                (Kind::Span, CodeBlock::Span(s)) => {
                    let ops = mast::span_ops(s);
                    rep.count_n("mast_span_decorators", if s.decorators().is_empty() { "spans-without" } else { "spans-with" }, 1);
                    check_span(&ops, v.block, "mast", cov, rep, wit);
                }
                (Kind::SysCall, CodeBlock::Call(c)) => {
                    if !kernel.contains(&c.fn_hash()) {
                        rep.violation("mast/syscall-target-not-in-kernel", format!("syscall to {} which is not a kernel procedure", digest_str(&c.fn_hash())), wit());
                    }
                }
                _ => {}
            }
        });
        model_root = walker.hash(prog.root(), 0);
        opaque = walker.opaque_callees;
    }
    rep.count_n("mast_nodes_walked", family, nodes);
    rep.count("mast_depth", &format!("{}", max_depth.min(12)));
    if opaque > 0 {
        rep.count_n("mast_call_targets_not_in_cb_table", family, opaque as u64);
    }
    if model_root != prog.hash() {
        rep.violation(
            "program/hash-differs-from-spec",
            format!("Program::hash() = {} but M-mast root = {}", digest_str(&prog.hash()), digest_str(&model_root)),
            wit(),
        );
    }
    model_root
}

// (d) EXECUTION / PROOF
// ================================================================================================

fn kernels_equal(a: &Kernel, b: &Kernel) -> bool {
    a.proc_hashes() == b.proc_hashes()
}

fn check_execution(case: &Case, prog: &Program, model_root: RpoDigest, rep: &mut Report, wit: &dyn Fn() -> Value) -> bool {
    match case.execute(prog) {
        ExecOutcome::Ok(trace) => {
            let kernel_class = if prog.kernel().is_empty() { "no-kernel" } else { "kernel" };
            rep.eval(&format!("exec|{kernel_class}|debug:{}", case.debug_mode));
            rep.count("exec_outcome", "ok");
            if *trace.program_hash() != model_root {
                rep.violation(
                    "exec/trace-program-hash-differs",
                    format!("ExecutionTrace::program_hash() = {} but the program commitment is {}", digest_str(trace.program_hash()), digest_str(&model_root)),
                    wit(),
                );
            }
            let info = trace.program_info();
            if *info.program_hash() != prog.hash() || !kernels_equal(info.kernel(), prog.kernel()) {
                rep.violation("exec/trace-program-info-differs", "ExecutionTrace::program_info() does not carry the program's hash and kernel", wit());
            }
            if *info != ProgramInfo::from(prog.clone()) {
                rep.violation("exec/program-info-from-program-differs", "ProgramInfo::from(program) differs from the info recorded by the execution", wit());
            }
            // hash as left by the decoder in the trace itself: hasher state of the last END row
            let main = trace.main_segment();
            let n = trace.trace_len_summary().main_trace_len().min(main.num_rows());
            let mut row = None;
            for r in (0..n).rev() {
                if opcode_at(main, r) == 112 {
                    row = Some(r);
                    break;
                }
            }
            match row {
                Some(r) => {
                    let h: Vec<u64> = (0..4).map(|i| main.get(16 + i, r).as_int()).collect();
                    let e: [Felt; 4] = model_root.into();
                    if h != e.iter().map(|x| x.as_int()).collect::<Vec<_>>() {
                        rep.violation(
                            "exec/decoder-final-end-row-hash-differs",
                            format!("hasher columns h0..h3 of the final END row {r} = {:?} but the program commitment is {}", h, digest_str(&model_root)),
                            wit(),
                        );
                    }
                    rep.count("exec_end_row_hash", "compared");
                }
                None => rep.count("exec_end_row_hash", "no-END-row-found"),
            }
            true
        }
        ExecOutcome::Err(e) => {
            rep.count("exec_outcome", &format!("err:{}", crate::case::err_kind(&e)));
            false
        }
        ExecOutcome::Panic(p) => {
            rep.count("exec_outcome", &format!("panic:{}", p.site()));
            if p.message.contains("inconsistent program hash") {
                rep.violation("exec/inconsistent-program-hash-panic", format!("processor::execute: {}", p.message), wit());
            }
            false
        }
    }
}

fn check_proof(case: &Case, prog: &Program, model_root: RpoDigest, rep: &mut Report) {
    let wit = || json!({"kind": "proof", "case": case.to_json()});
    let (outputs, proof) = match pv::prove(case, prog, pv::options(0)) {
        ProveOutcome::Ok(o, p) => (o, p),
        ProveOutcome::Err(_) => {
            rep.count("proof_outcome", "prove-err");
            return;
        }
        ProveOutcome::Panic(p) => {
            rep.count("proof_outcome", &format!("prove-panic:{}", p.site()));
            return;
        }
    };
    // the statement verified is (Program::hash(), kernel) — Program::hash() itself is judged against M-mast in (b): the proof must be accepted for it …
    let info = ProgramInfo::new(model_root, prog.kernel().clone());
    match pv::verify(info, case.stack_inputs(), outputs.clone(), proof.clone()) {
        VerifyOutcome::Ok(_) => {
            rep.count("proof_outcome", "accepted-for-program-hash");
            rep.eval(&format!("proof|kernel:{}", !prog.kernel().is_empty()));
        }
        other => rep.violation(
            "proof/rejected-for-program-hash",
            format!("honest proof not accepted for ProgramInfo(Program::hash(), kernel): {}", other.class()),
            wit(),
        ),
    }
    // … and rejected for another commitment
    let e: [Felt; 4] = model_root.into();
    let other_root = RpoDigest::new([e[0] + Felt::new(1), e[1], e[2], e[3]]);
    let info2 = ProgramInfo::new(other_root, prog.kernel().clone());
    match pv::verify(info2, case.stack_inputs(), outputs, proof) {
        VerifyOutcome::Ok(_) => rep.violation("proof/accepted-for-other-root", "proof accepted for a different program hash", wit()),
        VerifyOutcome::Err(_) => rep.count("proof_outcome", "rejected-for-other-root"),
        VerifyOutcome::Panic(p) => rep.count("proof_outcome", &format!("verify-panic-other-root:{}", p.site())),
    }
}

// (c) METAMORPHIC SOURCE EDITS
// ================================================================================================

const EDITS_SAME: [&str; 7] = ["comments", "whitespace", "rename-procs", "debug-mode", "decorators", "adv-injectors", "all-neutral"];
const EDITS_DIFF: [&str; 2] = ["change-immediate", "change-operation"];

fn toks(src: &str) -> Vec<String> {
    src.split_whitespace().map(|s| s.to_string()).collect()
}

fn render_plain(t: &[String]) -> String {
    t.join(" ")
}

fn render_fancy(t: &[String], rng: &mut Rng8, comments: bool, whitespace: bool) -> String {
    const WORDS: [&str; 10] =
        ["begin", "end", "push.1", "if.true", "# nested", "proc.x", "exec.f0", "add", "émoji ✓", "0x1234 while.true"];
    let mut s = String::new();
    if comments && rng.gen_bool(0.5) {
        s.push_str("# leading comment\n");
    }
    for (i, tok) in t.iter().enumerate() {
        s.push_str(tok);
        if i + 1 == t.len() {
            break;
        }
        if comments && rng.gen_bool(0.25) {
            let n = rng.gen_range(0..4);
            let words: Vec<&str> = (0..n).map(|_| *WORDS.choose(rng).unwrap()).collect();
            s.push_str(&format!(" # {}\n", words.join(" ")));
            if rng.gen_bool(0.2) {
                s.push_str("#\n");
            }
        } else if whitespace {
            s.push_str(["  ", "\n", "\n\n", "\t", " \t ", "\n    ", "     ", " \n"][rng.gen_range(0..8)]);
        } else {
            s.push(' ');
        }
    }
    if comments && rng.gen_bool(0.5) {
        s.push_str("\n# trailing comment");
    }
    s.push('\n');
    s
}

fn new_name(rng: &mut Rng8, used: &mut Vec<String>) -> String {
    const FIRST: &[u8] = b"abcdefghijklmnopqrstuvwxyzABCDEFGHIJKLMNOPQRSTUVWXYZ";
    const REST: &[u8] = b"abcdefghijklmnopqrstuvwxyzABCDEFGHIJKLMNOPQRSTUVWXYZ0123456789_";
    loop {
        let len = match rng.gen_range(0..6) {
            0 => 1,
            1 => 100,
            _ => rng.gen_range(2..30),
        };
        let mut s = String::new();
        s.push(FIRST[rng.gen_range(0..FIRST.len())] as char);
        for _ in 1..len {
            s.push(REST[rng.gen_range(0..REST.len())] as char);
        }
        if !used.contains(&s) {
            used.push(s.clone());
            return s;
        }
    }
}

/// consistent renaming of all procedures declared in the program and in the kernel
fn rename_procs(main: &mut [String], kernel: &mut Option<Vec<String>>, rng: &mut Rng8) -> usize {
    let mut map: Vec<(String, String)> = vec![];
    let mut used = vec![];
    let mut declare = |t: &[String], map: &mut Vec<(String, String)>, rng: &mut Rng8| {
        for tok in t {
            for pre in ["proc.", "export."] {
                if let Some(rest) = tok.strip_prefix(pre) {
                    let name = rest.split('.').next().unwrap_or("").to_string();
                    if !name.is_empty() && !map.iter().any(|(o, _)| *o == name) {
                        let n = new_name(rng, &mut used);
                        map.push((name, n));
                    }
                }
            }
        }
    };
    declare(main, &mut map, rng);
    if let Some(k) = kernel.as_ref() {
        declare(k, &mut map, rng);
    }
    let apply = |t: &mut [String], map: &[(String, String)]| {
        for tok in t.iter_mut() {
            for pre in ["proc.", "export.", "exec.", "call.", "syscall.", "procref."] {
                if let Some(rest) = tok.strip_prefix(pre) {
                    let mut parts = rest.splitn(2, '.');
                    let name = parts.next().unwrap_or("");
                    let tail = parts.next();
                    if let Some((_, new)) = map.iter().find(|(o, _)| o == name) {
                        *tok = match tail {
                            Some(x) => format!("{pre}{new}.{x}"),
                            None => format!("{pre}{new}"),
                        };
                    }
                    break;
                }
            }
        }
    };
    apply(main, &map);
    if let Some(k) = kernel.as_mut() {
        apply(k, &map);
    }
    map.len()
}

/// a decorator may follow these tokens without becoming the only content of a block
fn emits_ops(tok: &str) -> bool {
    tok.starts_with("push.")
        || matches!(tok, "add" | "sub" | "mul" | "neg" | "swap" | "drop" | "dropw" | "padw" | "eq" | "neq" | "not" | "hperm" | "sdepth" | "clk" | "eqw")
        || tok.starts_with("dup.")
        || tok.starts_with("mem_load")
        || tok.starts_with("mem_store")
}

fn insert_after_ops(t: &[String], rng: &mut Rng8, choices: &[&str], p: f64) -> (Vec<String>, usize) {
    let mut out = Vec::with_capacity(t.len() + 8);
    let mut n = 0;
    for tok in t {
        out.push(tok.clone());
        if emits_ops(tok) && rng.gen_bool(p) {
            let k = rng.gen_range(1..3);
            for _ in 0..k {
                let d = *choices.choose(rng).unwrap();
                let d = d.replace("{u32}", &rng.gen::<u32>().to_string()).replace("{u8}", &rng.gen_range(1..256u32).to_string());
                out.push(d);
                n += 1;
            }
        }
    }
    (out, n)
}

const DECORATORS: [&str; 9] =
    ["debug.stack", "debug.stack.{u8}", "debug.mem", "debug.mem.{u32}", "debug.mem.1.{u32}", "emit.{u32}", "trace.{u32}", "emit.0", "trace.0"];
const ADV_INJECTORS: [&str; 12] = [
    "adv.push_mapval",
    "adv.push_mapval.1",
    "adv.push_mapvaln",
    "adv.push_mtnode",
    "adv.push_u64div",
    "adv.push_ext2intt",
    "adv.push_smtpeek",
    "adv.insert_mem",
    "adv.insert_hdword",
    "adv.insert_hdword.{u8}",
    "adv.insert_hperm",
    "adv.push_sig.rpo_falcon512",
];

/// instructions without immediates whose expansions into VM operations are pairwise different
const SIMPLE_INSTR: [&str; 16] =
    ["add", "sub", "mul", "neg", "inv", "eq", "neq", "not", "and", "or", "swap", "drop", "padw", "dropw", "hperm", "sdepth"];

struct Variant {
    edit: &'static str,
    case: Case,
    expect_same: bool,
    note: String,
}

fn main_start(t: &[String]) -> usize {
    t.iter().rposition(|x| x == "begin").map(|i| i + 1).unwrap_or(0)
}

fn make_variant(base: &Case, edit: &'static str, rng: &mut Rng8) -> Option<Variant> {
    let mut main = toks(&base.src);
    let mut kernel: Option<Vec<String>> = base.kernel.as_ref().map(|k| toks(k));
    let mut c = base.clone();
    let mut note = String::new();
    let mut expect_same = true;
    let mut fancy = (false, false);
    match edit {
        "comments" => fancy = (true, false),
        "whitespace" => fancy = (false, true),
        "rename-procs" => {
            let n = rename_procs(&mut main, &mut kernel, rng);
            if n == 0 {
                return None;
            }
            note = format!("{n} procedures renamed");
        }
        "debug-mode" => c.debug_mode = !base.debug_mode,
        "decorators" => {
            let (m, n) = insert_after_ops(&main, rng, &DECORATORS, 0.3);
            main = m;
            let mut total = n;
            if let Some(k) = kernel.as_mut() {
                let (kk, n2) = insert_after_ops(k, rng, &DECORATORS, 0.2);
                *k = kk;
                total += n2;
            }
            if total == 0 {
                return None;
            }
            c.debug_mode = rng.gen_bool(0.5);
            note = format!("{total} decorators inserted, debug_mode={}", c.debug_mode);
        }
        "adv-injectors" => {
            let (m, n) = insert_after_ops(&main, rng, &ADV_INJECTORS, 0.3);
            main = m;
            if n == 0 {
                return None;
            }
            note = format!("{n} advice injectors inserted");
        }
        "all-neutral" => {
            rename_procs(&mut main, &mut kernel, rng);
            let (m, _) = insert_after_ops(&main, rng, &DECORATORS, 0.15);
            let (m, _) = insert_after_ops(&m, rng, &ADV_INJECTORS, 0.15);
            main = m;
            c.debug_mode = rng.gen_bool(0.5);
            fancy = (true, true);
        }
        "change-immediate" => {
            expect_same = false;
            let start = main_start(&main);
            let cands: Vec<usize> = (start..main.len())
                .filter(|&i| {
                    main[i].strip_prefix("push.").map(|r| !r.is_empty() && r.split('.').all(|p| !p.is_empty() && p.bytes().all(|b| b.is_ascii_digit()))).unwrap_or(false)
                })
                .collect();
            let i = *cands.choose(rng)?;
            let mut vals: Vec<u64> = main[i][5..].split('.').filter_map(|p| p.parse().ok()).collect();
            if vals.is_empty() {
                return None;
            }
            let j = rng.gen_range(0..vals.len());
            let old = vals[j] % P;
            let mut nv = match rng.gen_range(0..4) {
                0 => (old + 1) % P,
                1 => ((old as u128 + P as u128 - 1) % P as u128) as u64,
                2 => old ^ 1,
                _ => biased_felt(rng),
            } % P;
            if nv == old {
                nv = (old + 2) % P;
            }
            vals[j] = nv;
            note = format!("token #{i} {} → value {} becomes {}", main[i], old, nv);
            main[i] = format!("push.{}", vals.iter().map(|v| v.to_string()).collect::<Vec<_>>().join("."));
        }
        "change-operation" => {
            expect_same = false;
            let start = main_start(&main);
            let cands: Vec<usize> = (start..main.len()).filter(|&i| SIMPLE_INSTR.contains(&main[i].as_str())).collect();
            let i = *cands.choose(rng)?;
            let mut new = *SIMPLE_INSTR.choose(rng).unwrap();
            while new == main[i] {
                new = *SIMPLE_INSTR.choose(rng).unwrap();
            }
            note = format!("token #{i} {} → {}", main[i], new);
            main[i] = new.to_string();
        }
        _ => return None,
    }
    if fancy.0 || fancy.1 {
        c.src = render_fancy(&main, rng, fancy.0, fancy.1);
        c.kernel = kernel.map(|k| render_fancy(&k, rng, fancy.0, fancy.1));
    } else {
        c.src = render_plain(&main);
        c.kernel = kernel.map(|k| render_plain(&k));
    }
    Some(Variant { edit, case: c, expect_same, note })
}

const KNOWN_DECORATOR_ONLY_PANIC: &str = "decorators in an empty SPAN block";

/// Compares the root (and kernel) of an edited program with the base program's.
fn judge_variant(base: &Case, base_prog: &Program, v: &Variant, features: &str, rep: &mut Report) -> Option<Box<Program>> {
    let wit = || json!({"kind": "edit", "edit": v.edit, "expect": if v.expect_same { "same" } else { "different" }, "note": v.note, "case": base.to_json(), "variant": v.case.to_json()});
    match v.case.assemble() {
        AsmOutcome::Ok(p) => {
            rep.eval(&format!("edit|{}|{features}", v.edit));
            rep.count("edit_evaluated", v.edit);
            let same = p.hash() == base_prog.hash();
            let same_kernel = kernels_equal(p.kernel(), base_prog.kernel());
            if v.expect_same && !same {
                rep.violation(
                    format!("edit/{}-changes-root", v.edit),
                    format!("semantically neutral edit ({}; {}) changed the program hash from {} to {}", v.edit, v.note, digest_str(&base_prog.hash()), digest_str(&p.hash())),
                    wit(),
                );
            }
            if v.expect_same && !same_kernel {
                rep.violation(format!("edit/{}-changes-kernel", v.edit), format!("semantically neutral edit ({}) changed the kernel procedure hashes", v.edit), wit());
            }
            if !v.expect_same && same {
                rep.violation(
                    format!("edit/{}-keeps-root", v.edit),
                    format!("{}: program hash unchanged ({})", v.note, digest_str(&p.hash())),
                    wit(),
                );
            }
            Some(p)
        }
        AsmOutcome::Err(e) => {
            // an edited text which no longer assembles is not a statement about the hash
            rep.count("edit_not_assembled", &format!("{}:{}", v.edit, truncate(&e, 50)));
            None
        }
        AsmOutcome::Panic(p) => {
            if p.message.contains(KNOWN_DECORATOR_ONLY_PANIC) {
                rep.count("edit_not_assembled", &format!("{}:panic(decorator-only block, DESIGN §5 item 7)", v.edit));
            } else {
                rep.count("edit_not_assembled", &format!("{}:panic:{}", v.edit, p.site()));
            }
            None
        }
    }
}

fn features(case: &Case, prog: &Program) -> String {
    let s = &case.src;
    format!(
        "k{}p{}c{}d{}f{}",
        !prog.kernel().is_empty() as u8,
        s.contains("proc.") as u8,
        (s.contains("call.") || s.contains("syscall.")) as u8,
        (s.contains("dynexec") || s.contains("dyncall")) as u8,
        (s.contains("if.true") || s.contains("while.true") || s.contains("repeat.")) as u8
    )
}

/// (b)+(c)+(d) for one program given as a case.
fn program_case(case: &Case, family: &str, rng: &mut Rng8, cov: &mut Cov, rep: &mut Report, do_edits: bool, do_exec: bool, do_proof: bool) {
    let wit = || json!({"kind": "program", "family": family, "case": case.to_json()});
    let t_asm = std::time::Instant::now();
    let prog = match case.assemble() {
        AsmOutcome::Ok(p) => p,
        AsmOutcome::Err(e) => {
            rep.count("program_outcome", &format!("{family}:asm-err"));
            rep.count("program_asm_errors", &truncate(&e, 70));
            return;
        }
        AsmOutcome::Panic(p) => {
            let k = if p.message.contains(KNOWN_DECORATOR_ONLY_PANIC) { "decorator-only block (DESIGN §5 item 7)".to_string() } else { p.site() };
            rep.count("program_outcome", &format!("{family}:asm-panic:{k}"));
            return;
        }
    };
    rep.count("program_outcome", &format!("{family}:assembled"));
    let t_asm = t_asm.elapsed().as_secs_f64();
    let t_walk = std::time::Instant::now();
    let model_root = check_program(&prog, family, cov, rep, &wit);
    if family == "stdlib" && std::env::var("VERIF_C08_TIMING").is_ok() {
        eprintln!("C08 stdlib assemble {t_asm:.2}s walk {:.2}s", t_walk.elapsed().as_secs_f64());
    }
    if rep.samples.len() < 5 && case.src.len() < 400 {
        rep.sample(json!({"what": "program walked with M-mast", "family": family, "src": case.src, "kernel": case.kernel, "root": digest_str(&model_root)}));
    }
    let mut executed = false;
    if do_exec {
        // Program::hash() vs M-mast is judged above; here: recorded hash vs Program::hash()
        executed = check_execution(case, &prog, prog.hash(), rep, &wit);
    }
    if do_edits {
        let feats = features(case, &prog);
        for edit in EDITS_SAME.iter().chain(EDITS_DIFF.iter()) {
            if let Some(v) = make_variant(case, edit, rng) {
                let vp = judge_variant(case, &prog, &v, &feats, rep);
                // executions of neutral variants record the same hash
                if let (Some(vp), true) = (vp, executed && v.expect_same && v.edit != "adv-injectors" && v.edit != "all-neutral" && rng.gen_bool(0.15)) {
                    let w = || json!({"kind": "program", "family": "edited", "case": v.case.to_json()});
                    check_execution(&v.case, &vp, prog.hash(), rep, &w);
                }
            }
        }
    }
    if do_proof && executed {
        check_proof(case, &prog, prog.hash(), rep);
    }
}

// CORPORA
// ================================================================================================

/// Hand-written programs guaranteeing that every node kind is present, plus invocation forms.
fn corpus_case(a: u64, b: u64) -> Case {
    let src = format!(
        "proc.f0 push.{a} add end
proc.f1.2 push.3 loc_store.0 loc_load.0 loc_load.1 add exec.f0 end
begin
  push.1 if.true push.2 else push.3 add end
  push.0 while.true push.0 end
  repeat.3 push.4 add end
  exec.f1 call.f0 call.f1
  procref.f0 dynexec
  padw procref.f0 dyncall dropw
  syscall.k0 syscall.k1
  push.5 if.true add end
  drop
end"
    );
    let kernel = format!("export.k0 push.{b} drop end\nexport.k1 push.77 drop caller dropw padw end\n");
    Case { src, kernel: Some(kernel), ..Default::default() }
}

/// Changing the body of an invoked procedure must change the root for every invocation form.
fn deep_sensitivity(rng: &mut Rng8, rep: &mut Report) {
    let a = rng.gen_range(2..1000u64);
    let b = rng.gen_range(2..1000u64);
    let forms: [(&str, &str); 6] = [
        ("exec", "exec.f0"),
        ("call", "call.f0"),
        ("procref", "procref.f0 dropw"),
        ("procref-dynexec", "procref.f0 dynexec"),
        ("procref-dyncall", "padw procref.f0 dyncall dropw"),
        ("nested-exec-in-called", "call.f1"),
    ];
    for (name, inv) in forms {
        let mk = |x: u64| Case::new(format!("proc.f0 push.{x} add end proc.f1 exec.f0 swap end begin push.1 if.true {inv} else push.2 end end"));
        let (c0, c1) = (mk(a), mk(a + 1));
        if let (AsmOutcome::Ok(p0), AsmOutcome::Ok(p1)) = (c0.assemble(), c1.assemble()) {
            rep.eval(&format!("edit|callee-body|{name}"));
            rep.count("edit_evaluated", &format!("callee-body:{name}"));
            if p0.hash() == p1.hash() {
                rep.violation(
                    format!("edit/callee-body-change-keeps-root/{name}"),
                    format!("changing an immediate in a procedure invoked via `{inv}` keeps the program hash"),
                    json!({"kind": "edit", "edit": "callee-body", "expect": "different", "case": c0.to_json(), "variant": c1.to_json()}),
                );
            }
        } else {
            rep.count("edit_not_assembled", &format!("callee-body:{name}"));
        }
    }
    // kernel procedure body: the syscall node, the root and the kernel commitment change
    let mk = |x: u64| {
        let mut c = Case::new("begin push.1 syscall.k0 drop end");
        c.kernel = Some(format!("export.k0 push.{x} drop end"));
        c
    };
    let (c0, c1) = (mk(b), mk(b + 1));
    if let (AsmOutcome::Ok(p0), AsmOutcome::Ok(p1)) = (c0.assemble(), c1.assemble()) {
        rep.eval("edit|callee-body|syscall");
        rep.count("edit_evaluated", "callee-body:syscall");
        if p0.hash() == p1.hash() || kernels_equal(p0.kernel(), p1.kernel()) {
            rep.violation(
                "edit/kernel-body-change-keeps-root-or-kernel",
                "changing an immediate in a kernel procedure keeps the program hash or the kernel procedure hashes",
                json!({"kind": "edit", "edit": "callee-body", "expect": "different", "case": c0.to_json(), "variant": c1.to_json()}),
            );
        }
    } else {
        rep.count("edit_not_assembled", "callee-body:syscall");
    }
}

/// (module path, exported procedures) for every stdlib module
fn stdlib_modules() -> Vec<(String, Vec<String>)> {
    use assembly::Library;
    let lib = stdlib::StdLibrary::default();
    let mut out = vec![];
    for m in lib.modules() {
        let path = m.path.to_string();
        let procs: Vec<String> = m.ast.procs().iter().filter(|p| p.is_export).map(|p| p.name.to_string()).collect();
        if !procs.is_empty() {
            out.push((path, procs));
        }
    }
    out.sort();
    out
}

/// One program invoking every exported procedure of a module (the module is compiled once):
/// `exec` inlines the body under the root, every 4th procedure is `call`ed (body reached through
/// the code block table).
fn stdlib_case(path: &str, procs: &[String]) -> Case {
    let last = path.rsplit("::").next().unwrap_or(path);
    let mut body = String::new();
    for (i, name) in procs.iter().enumerate() {
        let inv = if i % 4 == 3 { "call" } else { "exec" };
        body.push_str(&format!("  {inv}.{last}::{name}\n"));
    }
    let mut c = Case::new(format!("use.{path}\nbegin\n{body}end"));
    c.stdlib = true;
    c
}

fn example_files() -> Vec<std::path::PathBuf> {
    let mut out = vec![];
    let mut stack = vec![std::path::PathBuf::from("/repo/miden/examples")];
    while let Some(d) = stack.pop() {
        if let Ok(rd) = std::fs::read_dir(&d) {
            for e in rd.flatten() {
                let p = e.path();
                if p.is_dir() {
                    stack.push(p);
                } else if p.extension().map(|x| x == "masm").unwrap_or(false) {
                    out.push(p);
                }
            }
        }
    }
    out.sort();
    out
}

// MODEL SELF-CHECK
// ================================================================================================

/// The reference batcher itself must satisfy the rules and decode back (otherwise the run says
/// nothing): checked on the same inputs, reported as INCONCLUSIVE, never as a violation.
fn model_self_check(ops: &[Operation], rep: &mut Report) {
    let refops: Vec<RefOp> = ops.iter().map(RefOp::of).collect();
    let (b, _) = batch_ops(&refops);
    let plain: Vec<PlainBatch> = b.iter().map(PlainBatch::of_ref).collect();
    let d = decode_batches(&plain);
    if let Some((sig, detail)) = d.issues.first() {
        let _ = detail;
        rep.inconclusive(format!("model-self-check:{sig}"));
    }
    if let Err(e) = same_up_to_noop_padding(&refops, &d.ops) {
        let _ = e;
        rep.inconclusive("model-self-check:decode");
    }
}

fn opcode_table_check(rep: &mut Report) {
    let mut all = plain_ops();
    all.push(Operation::Push(Felt::new(5)));
    use Operation::*;
    all.extend_from_slice(&[Join, Split, Loop, Call, Dyn, SysCall, Span, End, Repeat, Respan, Halt]);
    for op in &all {
        rep.eval("opcode-table");
        rep.count("opcode_table", "compared");
        if op.op_code() != doc_opcode(op) {
            rep.violation(
                format!("opcode-table/{}", mast::doc_op_name(doc_opcode(op)).unwrap_or("?")),
                format!("Operation::{op:?}.op_code() = {} but the documented opcode is {}", op.op_code(), doc_opcode(op)),
                json!({"kind": "opcode-table"}),
            );
        }
        let real_imm = op.imm_value().is_some();
        if real_imm != mast::doc_imm(op).is_some() {
            rep.violation(
                "opcode-table/immediate-carrying-ops",
                format!("Operation::{op:?}: imm_value().is_some() = {real_imm}, but the docs say only PUSH carries an immediate"),
                json!({"kind": "opcode-table"}),
            );
        }
    }
}

// RUN
// ================================================================================================

const SHARDS: usize = 64;

pub fn run(cfg: &Cfg) -> Report {
    let n_exh = cfg.tier.pick(14usize, 18usize);
    let n_per = cfg.tier.pick(10usize, 12usize);
    let n_rand = cfg.n(1500, 40000);
    let n_prog = cfg.n(150, 6000);
    let n_proof_shards = cfg.tier.pick(4usize, 1usize); // a proof in every k-th shard / in every shard
    let n_proofs_per = cfg.tier.pick(1usize, 2usize);
    // the elliptic-curve modules take 5–80 s each to assemble (huge unrolled MASTs): thorough tier only
    let stdm: Vec<(String, Vec<String>)> = stdlib_modules()
        .into_iter()
        .filter(|(p, _)| cfg.tier == Tier::Thorough || !(p.contains("secp256k1") || p.contains("ecgfp5")))
        .collect();
    let n_std_procs: usize = stdm.iter().map(|m| m.1.len()).sum();
    let examples = example_files();
    let thorough = cfg.tier == Tier::Thorough;

    // jobs 0..stdm.len(): one stdlib module each (scheduled first: some take seconds to assemble);
    // then the SHARDS shards of everything else
    let reports = par_map(stdm.len() + SHARDS, |job| {
        let mut rep = Report::new();
        let mut cov = Cov::default();
        if job < stdm.len() {
            let mut rng = rng_for(cfg.seed, "C08", 1000 + job as u64);
            let (path, procs) = &stdm[job];
            let c = stdlib_case(path, procs);
            let t0 = std::time::Instant::now();
            let before = rep.get_count("program_outcome", "stdlib:assembled");
            program_case(&c, "stdlib", &mut rng, &mut cov, &mut rep, false, false, false);
            if rep.get_count("program_outcome", "stdlib:assembled") > before {
                rep.count_n("stdlib_procedures_walked", path, procs.len() as u64);
            }
            if std::env::var("VERIF_C08_TIMING").is_ok() {
                eprintln!("C08 module {path:40} {:3} procs {:7.2}s", procs.len(), t0.elapsed().as_secs_f64());
            }
            cov.flush(&mut rep);
            return rep;
        }
        let sh = job - stdm.len();
        let mut rng = rng_for(cfg.seed, "C08", sh as u64);
        let plain = plain_ops();
        if sh == 0 {
            opcode_table_check(&mut rep);
        }
        let timing = std::env::var("VERIF_C08_TIMING").is_ok();
        let mut t_phase = std::time::Instant::now();
        let mut lap = |name: &str| {
            if timing {
                eprintln!("C08 shard {sh:2} {name:10} {:7.2}s", t_phase.elapsed().as_secs_f64());
            }
            t_phase = std::time::Instant::now();
        };

        // (a1) exhaustive push/non-push patterns, both construction routes
        let mut idx = 0usize;
        for n in 1..=n_exh {
            for bits in 0..(1u64 << n) {
                idx += 1;
                if idx % SHARDS != sh {
                    continue;
                }
                let ops = pattern_ops(n, bits);
                pattern_case(&ops, &mut cov, &mut rep);
                if bits % 257 == 0 {
                    model_self_check(&ops, &mut rep);
                }
            }
        }
        lap("exhaustive");
        // (a2) periodic continuation of every short pattern across several batches
        for n in 1..=n_per {
            for bits in 0..(1u64 << n) {
                idx += 1;
                if idx % SHARDS != sh {
                    continue;
                }
                let lead = ((bits as usize) + n) % 10;
                let len = 64 + ((bits as usize * 7 + n * 13) % 120);
                let mut ops: Vec<Operation> = (0..lead).map(|_| Operation::Mul).collect();
                for i in 0..len {
                    ops.push(if (bits >> (i % n)) & 1 == 1 {
                        Operation::Push(Felt::new(5000 + i as u64))
                    } else if i % 2 == 0 {
                        Operation::Add
                    } else {
                        Operation::Swap
                    });
                }
                span_via_api(&ops, &mut cov, &mut rep);
                rep.count("g_span_family", "periodic-patterns(api)");
                if thorough || bits % 4 == 0 {
                    let src = pattern_src(&ops[lead..]);
                    span_via_asm(&ops[lead..], &src, &mut cov, &mut rep);
                    rep.count("g_span_family", "periodic-patterns(asm)");
                }
            }
        }
        lap("periodic");
        // (a3) random opcode sequences up to 600 operations + single-position mutants
        for i in 0..n_rand {
            random_span_case(&mut rng, &plain, &mut cov, &mut rep);
            rep.count("g_span_family", "random(api)");
            if i % 50 == 0 {
                let ops = random_ops(&mut rng, &plain);
                model_self_check(&ops, &mut rep);
            }
        }

        lap("random");
        // (b)(c)(d) generated programs
        let mut proofs_left = if sh % n_proof_shards == 0 { n_proofs_per } else { 0 };
        for i in 0..n_prog {
            let size = if proofs_left > 0 && i < 8 { rng.gen_range(2..8) } else { rng.gen_range(2..40) };
            let mut gc = GenCfg::random(&mut rng, size);
            if i % 3 == 0 {
                // make sure the rarer node kinds keep coming
                gc.procs = true;
                gc.calls = true;
                gc.dynamic = true;
                gc.kernel = i % 2 == 0;
                gc.flow = true;
            }
            let mut case = gen_case(&mut rng, &gc);
            if i % 7 == 0 {
                case.debug_mode = true;
            }
            let want_proof = proofs_left > 0 && i < 8;
            let before = rep.get_count("proof_outcome", "accepted-for-program-hash");
            program_case(&case, "generated", &mut rng, &mut cov, &mut rep, true, true, want_proof);
            if rep.get_count("proof_outcome", "accepted-for-program-hash") > before {
                proofs_left -= 1;
            }
        }
        lap("generated");
        // hand-written corpus: all node kinds, invocation forms
        if sh < 8 {
            let c = corpus_case(rng.gen_range(2..1u64 << 40), rng.gen_range(2..1u64 << 40));
            program_case(&c, "corpus", &mut rng, &mut cov, &mut rep, true, false, false);
            deep_sensitivity(&mut rng, &mut rep);
        }
        lap("corpus");
        // repository examples
        for (i, p) in examples.iter().enumerate() {
            if i % SHARDS != sh {
                continue;
            }
            if let Ok(src) = std::fs::read_to_string(p) {
                let mut c = Case::new(src);
                c.stdlib = true;
                program_case(&c, "examples", &mut rng, &mut cov, &mut rep, false, false, false);
                rep.count("example_files", &p.display().to_string());
            }
        }
        lap("examples");
        cov.flush(&mut rep);
        rep
    });
    let mut rep = merge_all(reports);
    rep.note("bounds", json!({"exhaustive_pattern_length": n_exh, "periodic_pattern_length": n_per, "random_spans_per_shard": n_rand, "generated_programs_per_shard": n_prog, "shards": SHARDS, "stdlib_modules": stdm.len(), "stdlib_procedures": n_std_procs, "example_files": examples.len()}));

    // FLOORS
    let mut missing = vec![];
    for g in 1..=GROUPS_PER_BATCH {
        for o in 1..=OPS_PER_GROUP {
            if rep.get_count("accumulator_state(groups_in_use,ops_in_group)", &format!("g{g}o{o}")) == 0 {
                missing.push(format!("g{g}o{o}"));
            }
        }
    }
    rep.floor(missing.is_empty(), &format!("all-72-accumulator-states(missing:{})", missing.join(",")));
    let big: u64 = (4..=11).map(|i| rep.get_count("span_batches", &if i == 11 { ">10".to_string() } else { i.to_string() })).sum();
    rep.floor(big >= 1, "a-span-with-more-than-3-batches");
    for k in ["join", "split", "loop", "call", "syscall", "dyn", "span", "dyncall"] {
        rep.floor(rep.get_count("mast_node_kind", k) >= 1, &format!("mast-node-kind-{k}-hashed"));
    }
    for e in ["immediate-in-last-group-of-batch", "push-deferred-from-group-index-8", "new-batch:no-group-left-for-immediate", "new-batch:all-groups-full", "push-last-in-group-followed-by-noop"] {
        rep.floor(rep.get_count("batching_events", e) >= 1, &format!("batching-event-{e}"));
    }
    for e in EDITS_SAME.iter().chain(EDITS_DIFF.iter()) {
        rep.floor(rep.get_count("edit_evaluated", e) >= 20, &format!("edit-{e}-evaluated-20x"));
    }
    rep.floor(rep.get_count("exec_outcome", "ok") >= 50, "50-executions-compared");
    rep.floor(rep.get_count("exec_end_row_hash", "compared") >= 50, "50-decoder-end-rows-compared");
    rep.floor(rep.get_count("proof_outcome", "accepted-for-program-hash") >= 4, "4-proofs-verified-against-program-hash");
    let walked: u64 = rep.hist.get("stdlib_procedures_walked").map(|h| h.values().sum()).unwrap_or(0);
    rep.floor(walked as usize >= n_std_procs * 9 / 10 && n_std_procs > 0, "stdlib-procedures-walked");
    rep.floor(examples.is_empty() || rep.get_count("program_outcome", "examples:assembled") >= 1, "example-programs-walked");
    rep.floor(rep.get_count("span_sensitivity", "immediate") >= 20 && rep.get_count("span_sensitivity", "operation") >= 20, "span-mutants");
    rep
}

// REPLAY
// ================================================================================================

pub fn replay(v: &Value, rep: &mut Report) {
    let mut cov = Cov::default();
    let mut rng = rng_for(0, "C08-replay", 0);
    let parse_ops = |x: &Value| -> Vec<Operation> { x.as_array().map(|a| a.iter().filter_map(op_from_json).collect()).unwrap_or_default() };
    match v.get("kind").and_then(|k| k.as_str()).unwrap_or("") {
        "span" => {
            let ops = parse_ops(&v["ops"]);
            if ops.is_empty() {
                return;
            }
            span_via_api(&ops, &mut cov, rep);
            if let Some(src) = v.get("src").and_then(|s| s.as_str()) {
                span_via_asm(&ops, src, &mut cov, rep);
            }
        }
        "span-pair" => {
            let (a, b) = (parse_ops(&v["ops"]), parse_ops(&v["mutant"]));
            if let (Some(ha), Some(hb)) = (span_via_api(&a, &mut cov, rep), span_via_api(&b, &mut cov, rep)) {
                if ha == hb && a != b {
                    rep.violation("span/hash-insensitive-to-change", "two different operation sequences have the same span hash", v.clone());
                }
            }
        }
        "program" => {
            if let Some(case) = v.get("case").and_then(Case::from_json) {
                program_case(&case, v.get("family").and_then(|f| f.as_str()).unwrap_or("replay"), &mut rng, &mut cov, rep, false, true, false);
            }
        }
        "proof" => {
            if let Some(case) = v.get("case").and_then(Case::from_json) {
                program_case(&case, "replay", &mut rng, &mut cov, rep, false, true, true);
            }
        }
        "edit" => {
            let base = v.get("case").and_then(Case::from_json);
            let var = v.get("variant").and_then(Case::from_json);
            if let (Some(base), Some(var)) = (base, var) {
                if let AsmOutcome::Ok(bp) = base.assemble() {
                    let edit: &'static str = EDITS_SAME
                        .iter()
                        .chain(EDITS_DIFF.iter())
                        .copied()
                        .find(|e| Some(*e) == v.get("edit").and_then(|x| x.as_str()))
                        .unwrap_or("replayed-edit");
                    let variant = Variant {
                        edit,
                        case: var,
                        expect_same: v.get("expect").and_then(|e| e.as_str()) != Some("different"),
                        note: v.get("note").and_then(|e| e.as_str()).unwrap_or("").to_string(),
                    };
                    judge_variant(&base, &bp, &variant, "replay", rep);
                }
            }
        }
        "opcode-table" => opcode_table_check(rep),
        _ => {}
    }
}
