//! C11 — assembly is deterministic, history-independent and self-contained (HISTORY monitor).
//!
//! Four oracles share this module:
//!  1. history: one assembler instance compiles a random sequence of programs over a generated
//!     universe of libraries (+ kernel); every program is also compiled on a fresh instance; root
//!     hash, kernel, code-block table and execution must agree, and no statically referenced
//!     call / syscall / procref target may be missing from the code block table.
//!  2. library order: all permutations of `with_library` order give identical programs.
//!  3. re-export: a procedure reached through a re-export has the MAST root of the original.
//!  4. invalid corpus: every documented rejection class (docs/src/user_docs/assembly/*.md) with
//!     boundary parameters gives `Err` (no panic, not accepted); decorator-only bodies (valid per
//!     the docs) must not panic.

use crate::case::{build_lib, err_kind, AsmOutcome, Case, LibSrc};
use crate::host::QuietHost;
use crate::report::{merge_all, truncate, Cfg, Meta, Report};
use crate::util::{catch, felts, par_map, rng_for, PanicInfo, Rng8, P};
use assembly::{ast::ProgramAst, Assembler, MaslLibrary};
use processor::{
    DefaultHost, ExecutionError, ExecutionOptions, MemAdviceProvider, Process, Program, StackInputs,
};
use rand::seq::SliceRandom;
use rand::Rng;
use serde_json::{json, Value};
use std::collections::{BTreeMap, BTreeSet};
use vm_core::code_blocks::{CodeBlock, Dyn};
use vm_core::crypto::hash::RpoDigest;
use vm_core::Felt;

type W = [u64; 4];
const PROG: usize = usize::MAX;

fn to_w(d: RpoDigest) -> W {
    let e = d.as_elements();
    [e[0].as_int(), e[1].as_int(), e[2].as_int(), e[3].as_int()]
}
fn to_d(w: &W) -> RpoDigest {
    RpoDigest::from([Felt::new(w[0]), Felt::new(w[1]), Felt::new(w[2]), Felt::new(w[3])])
}
fn w_str(w: &W) -> String {
    format!("{}.{}.{}.{}", w[0], w[1], w[2], w[3])
}
fn w_parse(s: &str) -> Option<W> {
    let v: Vec<u64> = s.split('.').filter_map(|x| x.parse().ok()).collect();
    if v.len() == 4 {
        Some([v[0], v[1], v[2], v[3]])
    } else {
        None
    }
}

// UNIVERSE MODEL
// ================================================================================================

#[derive(Clone, Debug)]
struct Tgt {
    m: usize,
    name: String,
}

/// what follows a hash that was put on the stack
#[derive(Clone, Copy, Debug, PartialEq, Eq)]
enum Dk {
    No,
    Exec,
    Call,
}

impl Dk {
    fn text(&self) -> &'static str {
        match self {
            Dk::No => "",
            Dk::Exec => " dynexec",
            Dk::Call => " dyncall",
        }
    }
    fn bit(&self) -> u8 {
        match self {
            Dk::No => 0,
            Dk::Exec => 1,
            Dk::Call => 2,
        }
    }
    fn kind(&self) -> Option<&'static str> {
        match self {
            Dk::No => None,
            Dk::Exec => Some("dynexec"),
            Dk::Call => Some("dyncall"),
        }
    }
}

#[derive(Clone, Debug)]
enum Item {
    /// stack-neutral instruction text
    Plain(String),
    Exec(Tgt),
    Call(Tgt),
    Sys(String),
    /// `procref.t [dynexec|dyncall] dropw`
    Pref(Tgt, Dk),
    /// literal push of a MAST root (a *dynamic* reference), `[dynexec|dyncall] dropw`
    Lit(W, Dk),
    /// `exec.<pusher> [dynexec|dyncall] dropw` where the pusher leaves a MAST root on the stack
    Pusher(Tgt, Dk),
    If(bool, Vec<Item>, Vec<Item>),
    Rep(u32, Vec<Item>),
    While(bool, Vec<Item>),
}

#[derive(Clone, Debug)]
enum PK {
    Normal(Vec<Item>),
    /// body = `push.h0.h1.h2.h3`
    PushLit(W),
    /// body = `procref.t`
    PushRef(Tgt),
    /// body = `exec.<pusher>`
    PushWrap(Tgt),
    /// `export.<alias>::<orig>[->name]`
    ReExp(Tgt),
}

#[derive(Clone, Debug)]
struct Proc {
    name: String,
    export: bool,
    locals: u16,
    kind: PK,
}

#[derive(Clone, Debug, Default)]
struct Module {
    path: String,
    lib: usize,
    imports: Vec<(usize, Option<String>)>,
    procs: Vec<Proc>,
    main: Option<Vec<Item>>,
}

#[derive(Clone, Debug, Default)]
struct Universe {
    ns: Vec<String>,
    mods: Vec<Module>,
    kernel: Option<Module>,
    roots: BTreeMap<(usize, String), W>,
    kroots: BTreeMap<String, W>,
}

fn last_comp(path: &str) -> &str {
    path.rsplit("::").next().unwrap_or(path)
}

impl Universe {
    fn module<'a>(&'a self, idx: usize, prog: Option<&'a Module>) -> &'a Module {
        if idx == PROG {
            prog.expect("program module")
        } else {
            &self.mods[idx]
        }
    }

    fn find<'a>(&'a self, t: &Tgt, prog: Option<&'a Module>) -> Option<&'a Proc> {
        self.module(t.m, prog).procs.iter().find(|p| p.name == t.name)
    }

    /// follows re-exports
    fn resolve(&self, t: &Tgt, prog: Option<&Module>) -> Tgt {
        let mut cur = t.clone();
        for _ in 0..16 {
            match self.find(&cur, prog).map(|p| &p.kind) {
                Some(PK::ReExp(n)) => cur = n.clone(),
                _ => break,
            }
        }
        cur
    }

    fn is_pusher(&self, t: &Tgt, prog: Option<&Module>) -> bool {
        let r = self.resolve(t, prog);
        matches!(
            self.find(&r, prog).map(|p| &p.kind),
            Some(PK::PushLit(_)) | Some(PK::PushRef(_)) | Some(PK::PushWrap(_))
        )
    }

    fn qual(&self, m: &Module, self_idx: usize, t: &Tgt) -> String {
        if t.m == self_idx {
            t.name.clone()
        } else {
            let al = m
                .imports
                .iter()
                .find(|(i, _)| *i == t.m)
                .map(|(i, a)| a.clone().unwrap_or_else(|| last_comp(&self.mods[*i].path).to_string()))
                .unwrap_or_else(|| "missing_import".to_string());
            format!("{al}::{}", t.name)
        }
    }

    fn render_items(&self, m: &Module, idx: usize, items: &[Item], out: &mut String) {
        for it in items {
            match it {
                Item::Plain(s) => {
                    out.push_str(s);
                    out.push(' ');
                }
                Item::Exec(t) => out.push_str(&format!("exec.{} ", self.qual(m, idx, t))),
                Item::Call(t) => out.push_str(&format!("call.{} ", self.qual(m, idx, t))),
                Item::Sys(k) => out.push_str(&format!("syscall.{k} ")),
                Item::Pref(t, d) => {
                    out.push_str(&format!("procref.{}{} dropw ", self.qual(m, idx, t), d.text()))
                }
                Item::Lit(w, d) => out.push_str(&format!("push.{}{} dropw ", w_str(w), d.text())),
                Item::Pusher(t, d) => {
                    out.push_str(&format!("exec.{}{} dropw ", self.qual(m, idx, t), d.text()))
                }
                Item::If(taken, a, b) => {
                    out.push_str(&format!("push.{} if.true ", *taken as u8));
                    self.render_items(m, idx, a, out);
                    if !b.is_empty() {
                        out.push_str("else ");
                        self.render_items(m, idx, b, out);
                    }
                    out.push_str("end ");
                }
                Item::Rep(n, a) => {
                    out.push_str(&format!("repeat.{n} "));
                    self.render_items(m, idx, a, out);
                    out.push_str("end ");
                }
                Item::While(run, a) => {
                    out.push_str(&format!("push.{} while.true ", *run as u8));
                    self.render_items(m, idx, a, out);
                    out.push_str("push.0 end ");
                }
            }
        }
    }

    fn render_imports(&self, m: &Module, out: &mut String) {
        for (i, al) in &m.imports {
            match al {
                Some(a) => out.push_str(&format!("use.{}->{}\n", self.mods[*i].path, a)),
                None => out.push_str(&format!("use.{}\n", self.mods[*i].path)),
            }
        }
    }

    fn render_proc(&self, m: &Module, idx: usize, p: &Proc, as_internal: bool, out: &mut String) {
        let kw = if p.export && !as_internal { "export" } else { "proc" };
        let mut body = String::new();
        match &p.kind {
            PK::ReExp(_) => return,
            PK::Normal(items) => self.render_items(m, idx, items, &mut body),
            PK::PushLit(w) => body.push_str(&format!("push.{} ", w_str(w))),
            PK::PushRef(t) => body.push_str(&format!("procref.{} ", self.qual(m, idx, t))),
            PK::PushWrap(t) => body.push_str(&format!("exec.{} ", self.qual(m, idx, t))),
        }
        if p.locals > 0 {
            out.push_str(&format!("{kw}.{}.{}\n    {}\nend\n", p.name, p.locals, body.trim_end()));
        } else {
            out.push_str(&format!("{kw}.{}\n    {}\nend\n", p.name, body.trim_end()));
        }
    }

    /// full source of a library module, kernel module or program
    fn render(&self, m: &Module, idx: usize) -> String {
        let mut out = String::new();
        self.render_imports(m, &mut out);
        for p in &m.procs {
            if let PK::ReExp(t) = &p.kind {
                let q = self.qual(m, idx, t);
                if p.name == t.name {
                    out.push_str(&format!("export.{q}\n"));
                } else {
                    out.push_str(&format!("export.{q}->{}\n", p.name));
                }
            }
        }
        for p in &m.procs {
            self.render_proc(m, idx, p, false, &mut out);
        }
        if let Some(main) = &m.main {
            let mut body = String::new();
            self.render_items(m, idx, main, &mut body);
            out.push_str(&format!("begin\n    {}\nend\n", body.trim_end()));
        }
        out
    }

    /// the module rendered as a program whose body is `exec.<name>`: its hash is the MAST root of
    /// the procedure (all procedures up to `name` are rendered as internal ones)
    fn render_root_probe(&self, m: &Module, idx: usize, name: &str) -> String {
        let mut out = String::new();
        self.render_imports(m, &mut out);
        for p in &m.procs {
            self.render_proc(m, idx, p, true, &mut out);
            if p.name == name {
                break;
            }
        }
        out.push_str(&format!("begin exec.{name} end\n"));
        out
    }

    fn lib_srcs(&self, upto: usize) -> Vec<LibSrc> {
        let mut libs: Vec<LibSrc> =
            self.ns.iter().map(|n| LibSrc { namespace: n.clone(), modules: vec![] }).collect();
        for (i, m) in self.mods.iter().enumerate().take(upto) {
            libs[m.lib].modules.push((m.path.clone(), self.render(m, i)));
        }
        libs.retain(|l| !l.modules.is_empty());
        libs
    }

    fn kernel_src(&self) -> Option<String> {
        self.kernel.as_ref().map(|k| self.render(k, PROG - 1))
    }

    /// modules directly referenced by the procedures of module `m`
    fn direct_deps(&self, m: &Module) -> BTreeSet<usize> {
        fn items(it: &[Item], out: &mut BTreeSet<usize>) {
            for i in it {
                match i {
                    Item::Exec(t) | Item::Call(t) | Item::Pref(t, _) | Item::Pusher(t, _) => {
                        out.insert(t.m);
                    }
                    Item::If(_, a, b) => {
                        items(a, out);
                        items(b, out);
                    }
                    Item::Rep(_, a) | Item::While(_, a) => items(a, out),
                    _ => {}
                }
            }
        }
        let mut out = BTreeSet::new();
        for p in &m.procs {
            match &p.kind {
                PK::Normal(b) => items(b, &mut out),
                PK::PushRef(t) | PK::PushWrap(t) | PK::ReExp(t) => {
                    out.insert(t.m);
                }
                PK::PushLit(_) => {}
            }
        }
        if let Some(b) = &m.main {
            items(b, &mut out);
        }
        out.remove(&PROG);
        out
    }

    /// library modules the assembler has to load when compiling `prog` (transitively)
    fn load_closure(&self, prog: &Module) -> BTreeSet<usize> {
        let mut seen = BTreeSet::new();
        let mut todo: Vec<usize> = self.direct_deps(prog).into_iter().collect();
        while let Some(i) = todo.pop() {
            if i < self.mods.len() && seen.insert(i) {
                todo.extend(self.direct_deps(&self.mods[i]));
            }
        }
        seen
    }
}

// NEEDS (model of "statically referenced at run time")
// ================================================================================================

#[derive(Clone, Debug)]
struct Inv {
    kind: &'static str,
    loc: &'static str,
    /// resolved library module of the target (None: program-local / kernel / literal)
    tm: Option<usize>,
    root: Option<W>,
}

#[derive(Clone, Debug, Default)]
struct Needs {
    /// root -> registering instruction kind (call | syscall | procref)
    set: BTreeMap<W, (&'static str, BTreeSet<(Option<W>, &'static str)>)>,
    /// root -> bit 1: consumed by dynexec, bit 2: by dyncall
    dynk: BTreeMap<W, u8>,
    invs: Vec<Inv>,
    /// (module, name) already expanded
    seen: BTreeSet<(usize, String, Option<W>)>,
    /// a root was not known (harness problem)
    unknown_root: bool,
}

impl Universe {
    fn root_of(&self, t: &Tgt, proots: &BTreeMap<String, W>, n: &mut Needs) -> Option<W> {
        let r = if t.m == PROG {
            proots.get(&t.name).copied()
        } else {
            self.roots.get(&(t.m, t.name.clone())).copied()
        };
        if r.is_none() {
            n.unknown_root = true;
        }
        r
    }

    /// the root a pusher leaves on the stack
    fn pushed_root(&self, t: &Tgt, prog: &Module, proots: &BTreeMap<String, W>, n: &mut Needs) -> Option<W> {
        let r = self.resolve(t, Some(prog));
        match self.find(&r, Some(prog)).map(|p| p.kind.clone()) {
            Some(PK::PushLit(w)) => Some(w),
            Some(PK::PushRef(f)) => self.root_of(&f, proots, n),
            Some(PK::PushWrap(p)) => self.pushed_root(&p, prog, proots, n),
            _ => None,
        }
    }

    fn loc_of(&self, t: &Tgt, prog: &Module) -> &'static str {
        if t.m == PROG {
            "local"
        } else if matches!(self.find(t, Some(prog)).map(|p| &p.kind), Some(PK::ReExp(_))) {
            "re-exported"
        } else {
            "imported"
        }
    }

    fn inv(&self, kind: &'static str, t: &Tgt, prog: &Module, proots: &BTreeMap<String, W>, n: &mut Needs) {
        let r = self.resolve(t, Some(prog));
        let root = self.root_of(t, proots, n);
        n.invs.push(Inv { kind, loc: self.loc_of(t, prog), tm: if r.m == PROG { None } else { Some(r.m) }, root });
    }

    fn register(&self, w: W, kind: &'static str, par: Option<W>, n: &mut Needs) {
        let e = n.set.entry(w).or_insert((kind, BTreeSet::new()));
        if kind != "procref" {
            e.0 = kind;
        }
        e.1.insert((par, kind));
    }

    /// `par`: the nearest enclosing registered target (None = the program itself, through inlining)
    fn need_proc(&self, t: &Tgt, par: Option<W>, prog: &Module, proots: &BTreeMap<String, W>, n: &mut Needs) {
        let r = self.resolve(t, Some(prog));
        if !n.seen.insert((r.m, r.name.clone(), par)) {
            return;
        }
        match self.find(&r, Some(prog)).map(|p| p.kind.clone()) {
            Some(PK::Normal(items)) => self.need_items(&items, false, par, prog, proots, n),
            Some(PK::PushRef(f)) => {
                if let Some(w) = self.root_of(&f, proots, n) {
                    self.register(w, "procref", par, n);
                    self.need_proc(&f, Some(w), prog, proots, n);
                }
            }
            Some(PK::PushWrap(p)) => self.need_proc(&p, par, prog, proots, n),
            _ => {}
        }
    }

    fn need_items(&self, items: &[Item], top: bool, par: Option<W>, prog: &Module, proots: &BTreeMap<String, W>, n: &mut Needs) {
        for it in items {
            match it {
                Item::Plain(_) => {}
                Item::Exec(t) => {
                    if top {
                        self.inv("exec", t, prog, proots, n);
                    }
                    self.need_proc(t, par, prog, proots, n);
                }
                Item::Call(t) => {
                    if top {
                        self.inv("call", t, prog, proots, n);
                    }
                    if let Some(w) = self.root_of(t, proots, n) {
                        self.register(w, "call", par, n);
                        self.need_proc(t, Some(w), prog, proots, n);
                    }
                }
                Item::Sys(k) => {
                    let w = self.kroots.get(k).copied();
                    if top {
                        n.invs.push(Inv { kind: "syscall", loc: "kernel", tm: None, root: w });
                    }
                    match w {
                        Some(w) => self.register(w, "syscall", par, n),
                        None => n.unknown_root = true,
                    }
                }
                Item::Pref(t, d) => {
                    if top {
                        self.inv("procref", t, prog, proots, n);
                        if let Some(k) = d.kind() {
                            self.inv(k, t, prog, proots, n);
                        }
                    }
                    if let Some(w) = self.root_of(t, proots, n) {
                        self.register(w, "procref", par, n);
                        *n.dynk.entry(w).or_default() |= d.bit();
                        self.need_proc(t, Some(w), prog, proots, n);
                    }
                }
                Item::Lit(w, d) => {
                    if top {
                        if let Some(k) = d.kind() {
                            n.invs.push(Inv { kind: k, loc: "literal", tm: None, root: Some(*w) });
                        }
                    }
                    *n.dynk.entry(*w).or_default() |= d.bit();
                }
                Item::Pusher(t, d) => {
                    if top {
                        self.inv("exec", t, prog, proots, n);
                        if let Some(k) = d.kind() {
                            self.inv(k, t, prog, proots, n);
                        }
                    }
                    if let Some(w) = self.pushed_root(t, prog, proots, n) {
                        *n.dynk.entry(w).or_default() |= d.bit();
                    }
                    self.need_proc(t, par, prog, proots, n);
                }
                Item::If(_, a, b) => {
                    self.need_items(a, top, par, prog, proots, n);
                    self.need_items(b, top, par, prog, proots, n);
                }
                Item::Rep(_, a) | Item::While(_, a) => self.need_items(a, top, par, prog, proots, n),
            }
        }
    }

    fn needs_of_program(&self, prog: &Module, proots: &BTreeMap<String, W>) -> Needs {
        let mut n = Needs::default();
        // invocations written in program-local procedures are part of the program source, too
        for p in &prog.procs {
            match &p.kind {
                PK::Normal(items) => {
                    let mut tmp = Needs::default();
                    self.need_items(items, true, None, prog, proots, &mut tmp);
                    n.invs.extend(tmp.invs);
                }
                PK::PushRef(f) => self.inv("procref", f, prog, proots, &mut n),
                _ => {}
            }
        }
        if let Some(main) = &prog.main {
            self.need_items(main, true, None, prog, proots, &mut n);
        }
        n
    }
}

// WORLD: sources + built libraries
// ================================================================================================

#[derive(Clone, Debug, Default)]
struct World {
    libs: Vec<LibSrc>,
    kernel: Option<String>,
    /// stack inputs (top first) used to execute every program
    stack: Vec<u64>,
}

impl World {
    fn to_json(&self) -> Value {
        json!({
            "libs": self.libs.iter().map(|l| json!({"namespace": l.namespace, "modules": l.modules})).collect::<Vec<_>>(),
            "kernel": self.kernel,
            "stack_top_first": self.stack.iter().map(|v| v.to_string()).collect::<Vec<_>>(),
        })
    }
    fn from_json(v: &Value) -> Option<World> {
        let c = Case::from_json(&json!({
            "src": "",
            "kernel": v.get("kernel").cloned().unwrap_or(Value::Null),
            "libs": v.get("libs").cloned().unwrap_or(json!([])),
            "stack_top_first": v.get("stack_top_first").cloned().unwrap_or(json!([])),
        }))?;
        Some(World { libs: c.libs, kernel: c.kernel, stack: c.stack })
    }
    fn build(&self) -> Result<Vec<MaslLibrary>, String> {
        match catch(|| self.libs.iter().map(build_lib).collect::<Result<Vec<_>, _>>()) {
            Ok(r) => r,
            Err(p) => Err(format!("panic while building libraries: {} at {}", p.message, p.site())),
        }
    }
}

enum Built {
    Ok(Assembler),
    Err(String),
    Panic(PanicInfo),
}

/// a fresh assembler: libraries added in `order`, then the kernel
fn fresh(world: &World, built: &[MaslLibrary], order: &[usize]) -> Built {
    match catch(|| -> Result<Assembler, String> {
        let mut asm = Assembler::default();
        for &i in order {
            asm = asm.with_library(&built[i]).map_err(|e| e.to_string())?;
        }
        if let Some(k) = &world.kernel {
            asm = asm.with_kernel(k).map_err(|e| e.to_string())?;
        }
        Ok(asm)
    }) {
        Ok(Ok(a)) => Built::Ok(a),
        Ok(Err(e)) => Built::Err(e),
        Err(p) => Built::Panic(p),
    }
}

fn identity(n: usize) -> Vec<usize> {
    (0..n).collect()
}

enum Comp {
    Ok(Box<Program>),
    Err(String),
    Panic(PanicInfo),
}

impl Comp {
    fn class(&self) -> &'static str {
        match self {
            Comp::Ok(_) => "ok",
            Comp::Err(_) => "err",
            Comp::Panic(_) => "panic",
        }
    }
}

fn compile(asm: &Assembler, src: &str) -> Comp {
    match catch(|| -> Result<Program, String> {
        let ast = ProgramAst::parse(src).map_err(|e| e.to_string())?;
        asm.compile_ast(&ast).map_err(|e| e.to_string())
    }) {
        Ok(Ok(p)) => Comp::Ok(Box::new(p)),
        Ok(Err(e)) => Comp::Err(e),
        Err(p) => Comp::Panic(p),
    }
}

/// panics observed by helper probes that have no report at hand (site, message, source, world)
static PROBE_PANICS: std::sync::Mutex<Vec<(String, String, String, Value)>> = std::sync::Mutex::new(Vec::new());

/// hash of `src` compiled on a fresh instance (None if it does not compile)
fn fresh_hash(world: &World, built: &[MaslLibrary], src: &str) -> Option<W> {
    match fresh(world, built, &identity(built.len())) {
        Built::Ok(a) => match compile(&a, src) {
            Comp::Ok(p) => Some(to_w(p.hash())),
            Comp::Panic(pi) => {
                // never swallow a panic of the assembler: `run` reports these at the end
                PROBE_PANICS.lock().unwrap().push((pi.site(), pi.message.clone(), src.to_string(), world.to_json()));
                None
            }
            _ => None,
        },
        _ => None,
    }
}

/// outcome of running a program (no trace is built: only the result matters here)
enum Ex {
    Ok(Vec<u64>),
    Err(ExecutionError),
    Panic(PanicInfo),
}

impl Ex {
    fn class(&self) -> String {
        match self {
            Ex::Ok(_) => "ok".into(),
            Ex::Err(e) => format!("err:{}", err_kind(e)),
            Ex::Panic(p) => format!("panic:{}", p.site()),
        }
    }
}

fn execute(world: &World, prog: &Program) -> Ex {
    let mut st = felts(&world.stack);
    st.reverse();
    let host = QuietHost::new(DefaultHost::new(MemAdviceProvider::default()));
    match catch(|| {
        let mut process = Process::new(prog.kernel().clone(), StackInputs::new(st), host, crate::case::bounded_opts());
        process.execute(prog)
    }) {
        Ok(Ok(o)) => Ex::Ok(o.stack().to_vec()),
        Ok(Err(e)) => Ex::Err(e),
        Err(p) => Ex::Panic(p),
    }
}

// MAST WALK
// ================================================================================================

struct Walk {
    /// table entries reachable from the root and from the procref'd roots
    reached: BTreeSet<W>,
    /// call targets found in the MAST (excluding dyn)
    call_targets: BTreeSet<W>,
    /// statically referenced targets absent from the table, with the registering kind
    missing: BTreeMap<W, &'static str>,
}

fn walk(p: &Program, needed: &BTreeMap<W, String>) -> Walk {
    let tbl = p.cb_table();
    let mut w = Walk { reached: BTreeSet::new(), call_targets: BTreeSet::new(), missing: BTreeMap::new() };
    let mut stack: Vec<&CodeBlock> = vec![p.root()];
    for (r, kind) in needed {
        match tbl.get(to_d(r)) {
            Some(b) => {
                if w.reached.insert(*r) {
                    stack.push(b);
                }
            }
            None => {
                let k = match kind.as_str() {
                    "call" => "call",
                    "syscall" => "syscall",
                    _ => "procref",
                };
                w.missing.insert(*r, k);
            }
        }
    }
    while let Some(b) = stack.pop() {
        match b {
            CodeBlock::Join(j) => {
                stack.push(j.first());
                stack.push(j.second());
            }
            CodeBlock::Split(s) => {
                stack.push(s.on_true());
                stack.push(s.on_false());
            }
            CodeBlock::Loop(l) => stack.push(l.body()),
            CodeBlock::Call(c) => {
                let h = c.fn_hash();
                if h == Dyn::dyn_hash() {
                    continue;
                }
                let hw = to_w(h);
                w.call_targets.insert(hw);
                match tbl.get(h) {
                    Some(body) => {
                        if w.reached.insert(hw) {
                            stack.push(body);
                        }
                    }
                    None => {
                        w.missing.entry(hw).or_insert(if c.is_syscall() { "syscall" } else { "call" });
                    }
                }
            }
            _ => {}
        }
    }
    w
}

// ONE STEP OF THE HISTORY MONITOR
// ================================================================================================

#[derive(Clone, Debug, Default)]
struct SeqItem {
    src: String,
    /// root -> kind of the instruction which must have registered it
    needed: BTreeMap<W, String>,
    /// root -> enclosing registered targets through which it is referenced (None = program text)
    parents: BTreeMap<W, BTreeSet<(Option<W>, String)>>,
    /// root -> dyn consumers (bit 1 dynexec, bit 2 dyncall)
    dynk: BTreeMap<W, u8>,
    /// the generator meant this program to be valid
    expect_ok: bool,
    // coverage only (not serialised)
    invs: Vec<Inv>,
    /// library modules loaded into the instance's cache by compiling this program, and their roots
    loads: BTreeSet<usize>,
    load_roots: BTreeSet<W>,
}

impl SeqItem {
    fn to_json(&self) -> Value {
        json!({
            "src": self.src,
            "needed": self.needed.iter().map(|(w, k)| {
                let ps: Vec<Value> = self.parents.get(w).map(|s| s.iter().map(|(p, k)| json!([p.map(|p| w_str(&p)).unwrap_or_else(|| "program".into()), k])).collect()).unwrap_or_default();
                json!([w_str(w), k, ps])
            }).collect::<Vec<_>>(),
            "dyn": self.dynk.iter().map(|(w, k)| json!([w_str(w), k])).collect::<Vec<_>>(),
            "expect_ok": self.expect_ok,
        })
    }
    fn from_json(v: &Value) -> Option<SeqItem> {
        let mut it = SeqItem { src: v.get("src")?.as_str()?.to_string(), ..Default::default() };
        for e in v.get("needed").and_then(|x| x.as_array()).cloned().unwrap_or_default() {
            if let (Some(w), Some(k)) = (e[0].as_str().and_then(w_parse), e[1].as_str()) {
                it.needed.insert(w, k.to_string());
                if let Some(ps) = e.get(2).and_then(|x| x.as_array()) {
                    it.parents.insert(w, ps.iter().map(|p| (p[0].as_str().and_then(w_parse), p[1].as_str().unwrap_or("procref").to_string())).collect());
                }
            }
        }
        for e in v.get("dyn").and_then(|x| x.as_array()).cloned().unwrap_or_default() {
            if let (Some(w), Some(k)) = (e[0].as_str().and_then(w_parse), e[1].as_u64()) {
                it.dynk.insert(w, k as u8);
            }
        }
        it.expect_ok = v.get("expect_ok").and_then(|b| b.as_bool()).unwrap_or(true);
        Some(it)
    }
}

fn history_witness(world: &World, seq: &[&SeqItem], index: usize) -> Value {
    let mut v = world.to_json();
    let o = v.as_object_mut().unwrap();
    o.insert("kind".into(), json!("history"));
    o.insert("sequence".into(), json!(seq.iter().take(index + 1).map(|s| s.to_json()).collect::<Vec<_>>()));
    o.insert("index".into(), json!(index));
    v
}

fn exec_summary(o: &Ex) -> String {
    match o {
        Ex::Ok(_) => "ok".into(),
        Ex::Err(e) => format!("err:{}", truncate(&e.to_string(), 160)),
        Ex::Panic(p) => format!("panic:{}", p.site()),
    }
}

/// Which digest a run-time "code block not found" error names (None for other outcomes).
fn missing_at_runtime(o: &Ex) -> Option<(W, bool)> {
    match o {
        Ex::Err(ExecutionError::CodeBlockNotFound(d)) => Some((to_w(*d), false)),
        Ex::Err(ExecutionError::DynamicCodeBlockNotFound(d)) => Some((to_w(*d), true)),
        _ => None,
    }
}

/// Compiles `item` on the warm instance and on a fresh one, compares, executes both.
/// `universe_roots`: every procedure root of the universe (to compare table membership).
fn check_step(
    world: &World,
    built: &[MaslLibrary],
    warm: &Assembler,
    item: &SeqItem,
    universe_roots: &BTreeSet<W>,
    wit: &dyn Fn() -> Value,
    rep: &mut Report,
) {
    let warm_out = compile(warm, &item.src);
    let cold_asm = match fresh(world, built, &identity(built.len())) {
        Built::Ok(a) => a,
        Built::Err(e) => {
            rep.count("harness", "fresh-assembler-err");
            rep.count("fresh_assembler_err", &truncate(&e, 100));
            return;
        }
        Built::Panic(p) => {
            rep.violation(format!("panic/assembler-setup/{}", p.site()), format!("building the assembler panicked: {}", p.message), wit());
            return;
        }
    };
    let cold_out = compile(&cold_asm, &item.src);
    rep.count("compile_outcome", &format!("cold:{}/warm:{}", cold_out.class(), warm_out.class()));
    for (which, o) in [("cold", &cold_out), ("warm", &warm_out)] {
        if let Comp::Panic(p) = o {
            rep.violation(
                format!("panic/compile/{}", p.site()),
                format!("compiling a generated program panicked ({which} instance): {} at {}", p.message, p.location),
                wit(),
            );
        }
    }
    let is_mast_root_call = item.src.contains("call.0x");
    let (wp, cp) = match (&warm_out, &cold_out) {
        (Comp::Ok(w), Comp::Ok(c)) => (w, c),
        (Comp::Err(_), Comp::Err(e)) => {
            if item.expect_ok {
                rep.count("harness", "generated-program-rejected");
                rep.count("cold_err", &truncate(e, 90));
            }
            return;
        }
        (Comp::Panic(_), _) | (_, Comp::Panic(_)) => return,
        (w, c) => {
            let locals_conflict = [w, c].iter().any(|o| matches!(o, Comp::Err(e) if e.contains("different number of locals")));
            let sig = if is_mast_root_call {
                "history-dependence/outcome/call-mast-root"
            } else if locals_conflict {
                "history-dependence/outcome/after-conflicting-num-locals-error"
            } else {
                "history-dependence/outcome"
            };
            let txt = |o: &Comp| match o {
                Comp::Ok(_) => "Ok".to_string(),
                Comp::Err(e) => format!("Err({})", truncate(e, 160)),
                Comp::Panic(p) => format!("panic at {}", p.site()),
            };
            rep.violation(sig, format!("same source: fresh instance gives {}, used instance gives {}", txt(c), txt(w)), wit());
            return;
        }
    };

    // ---- compile-time comparison
    let mut differs = false;
    if wp.hash() != cp.hash() {
        differs = true;
        rep.violation("history-dependence/program-hash", format!("program hash differs: fresh {} vs used {}", w_str(&to_w(cp.hash())), w_str(&to_w(wp.hash()))), wit());
    } else if format!("{}", wp) != format!("{}", cp) {
        differs = true;
        rep.violation("history-dependence/mast-text", "printed MAST differs between fresh and used instance", wit());
    }
    if wp.kernel() != cp.kernel() {
        differs = true;
        rep.violation("history-dependence/kernel", "kernel differs between fresh and used instance", wit());
    }
    let ww = walk(wp, &item.needed);
    let cw = walk(cp, &item.needed);
    // model consistency: every call target in the MAST was predicted by the model
    if !item.needed.is_empty() || !cw.call_targets.is_empty() {
        let gap = cw.call_targets.iter().any(|t| !item.needed.contains_key(t))
            || (cw.missing.is_empty() && item.needed.iter().any(|(r, k)| k != "procref" && !cw.call_targets.contains(r)));
        rep.count("model_consistency", if gap { "gap" } else { "ok" });
    }
    let mut tbl_diff = vec![];
    let all: BTreeSet<W> = universe_roots
        .iter()
        .chain(item.needed.keys())
        .chain(item.dynk.keys())
        .chain(ww.call_targets.iter())
        .chain(cw.call_targets.iter())
        .copied()
        .collect();
    for r in &all {
        let (a, b) = (wp.cb_table().has(to_d(r)), cp.cb_table().has(to_d(r)));
        if a != b {
            tbl_diff.push(format!("{} {}", if b { "missing-on-used-instance" } else { "extra-on-used-instance" }, w_str(r)));
        }
    }
    if tbl_diff.is_empty() && (ww.reached != cw.reached || format!("{:?}", wp.cb_table()) != format!("{:?}", cp.cb_table())) {
        tbl_diff.push("table content differs".into());
    }
    if !tbl_diff.is_empty() {
        differs = true;
        rep.violation(
            "history-dependence/cb-table",
            format!("code block table differs between fresh and used instance: {}", truncate(&tbl_diff.join("; "), 300)),
            wit(),
        );
    }

    // ---- execution
    let ce = execute(world, cp);
    let we = execute(world, wp);
    rep.count("exec_outcome", &format!("cold:{}", ce.class()));
    rep.count("exec_outcome", &format!("warm:{}", we.class()));
    if let Ex::Ok(t) = &ce {
        let out = t.iter().take(16).copied().collect::<Vec<_>>();
        let mut exp = world.stack.clone();
        exp.resize(16, 0);
        rep.count("stack_neutral", if out == exp[..16] { "yes" } else { "no" });
    }

    // ---- statically referenced targets must be present (static check, run-time confirmation)
    let mut cold_missing = BTreeSet::new();
    for (state, w, e) in [("cold", &cw, &ce), ("warm", &ww, &we)] {
        let mut missing = w.missing.clone();
        if let Some((d, dynamic)) = missing_at_runtime(e) {
            let is_static = item.needed.contains_key(&d) || !dynamic;
            if is_static {
                missing.entry(d).or_insert(match item.needed.get(&d).map(|s| s.as_str()) {
                    Some("call") => "call",
                    Some("syscall") => "syscall",
                    Some(_) => "procref",
                    None => "call",
                });
            } else {
                rep.count("legit_dynamic_miss", state);
            }
        }
        let all_missing: BTreeSet<W> = missing.keys().copied().collect();
        for (d, kind) in &missing {
            // a target only referenced from inside other missing targets is a consequence
            // ... and the kind is that of the registrations which are not consequences
            let mut kind: &str = kind;
            if let Some(ps) = item.parents.get(d) {
                let live: Vec<&str> = ps.iter().filter(|(p, _)| !matches!(p, Some(p) if all_missing.contains(p))).map(|(_, k)| k.as_str()).collect();
                if !ps.is_empty() && live.is_empty() {
                    rep.count("missing_consequence", state);
                    continue;
                }
                if !live.is_empty() {
                    kind = if live.contains(&"call") { "call" } else if live.contains(&"syscall") { "syscall" } else { "procref" };
                }
            }
            if state == "cold" {
                cold_missing.insert(*d);
            } else if cold_missing.contains(d) {
                continue; // same observation as on the fresh instance
            }
            let how = match missing_at_runtime(e) {
                Some((rd, _)) if rd == *d => format!("execution fails: {}", exec_summary(e)),
                _ => format!("found statically (execution: {})", exec_summary(e)),
            };
            let consumers = match item.dynk.get(d).copied().unwrap_or(0) {
                1 => " [consumed by dynexec]",
                2 => " [consumed by dyncall]",
                3 => " [consumed by dynexec and dyncall]",
                _ => "",
            };
            rep.violation(
                format!("missing-code-block/{kind}/{state}"),
                format!("target {} registered by `{kind}` is not in the code block table of the program compiled on a {} instance{}; {}", w_str(d), if state == "cold" { "fresh" } else { "used" }, consumers, how),
                wit(),
            );
        }
    }

    // ---- run-time comparison (only reported when the compile-time comparison saw nothing)
    let same_exec = match (&ce, &we) {
        (Ex::Ok(a), Ex::Ok(b)) => a == b,
        (Ex::Err(a), Ex::Err(b)) => err_kind(a) == err_kind(b),
        (Ex::Panic(_), Ex::Panic(_)) => true,
        _ => false,
    };
    if !same_exec && !differs {
        rep.violation(
            "history-dependence/execution",
            format!("execution differs: fresh {} vs used {}", exec_summary(&ce), exec_summary(&we)),
            wit(),
        );
    }
    for (st, e) in [("cold", &ce), ("warm", &we)] {
        match e {
            Ex::Err(x) => rep.count("exec_errors", &format!("{st}:{}", err_kind(x))),
            Ex::Panic(p) => rep.count("exec_panics", &format!("{st}:{}", p.site())),
            _ => {}
        }
    }
}

/// Runs a whole sequence on one warm instance. `only`: check only this index (replay / shrink).
fn run_sequence(
    world: &World,
    built: &[MaslLibrary],
    seq: &[&SeqItem],
    only: Option<usize>,
    universe_roots: &BTreeSet<W>,
    rep: &mut Report,
) {
    let warm = match fresh(world, built, &identity(built.len())) {
        Built::Ok(a) => a,
        Built::Err(e) => {
            rep.count("harness", "fresh-assembler-err");
            rep.count("fresh_assembler_err", &truncate(&e, 100));
            return;
        }
        Built::Panic(p) => {
            rep.violation(format!("panic/assembler-setup/{}", p.site()), format!("building the assembler panicked: {}", p.message), history_witness(world, seq, 0));
            return;
        }
    };
    for (i, item) in seq.iter().enumerate() {
        match only {
            Some(o) if o != i => {
                let _ = compile(&warm, &item.src);
            }
            _ => {
                let wit = || history_witness(world, seq, i);
                check_step(world, built, &warm, item, universe_roots, &wit, rep);
            }
        }
    }
}

/// After a violation at `idx`: look for a shorter history (just the program, or one predecessor)
/// showing the same signature; the report keeps the smallest witness per signature.
fn shrink_history(
    world: &World,
    built: &[MaslLibrary],
    seq: &[&SeqItem],
    idx: usize,
    sigs: &[String],
    universe_roots: &BTreeSet<W>,
    rep: &mut Report,
) {
    let mut cands: Vec<Vec<&SeqItem>> = vec![vec![seq[idx]]];
    for j in 0..idx {
        cands.push(vec![seq[j], seq[idx]]);
    }
    let mut open: BTreeSet<&String> = sigs.iter().collect();
    for c in cands {
        if open.is_empty() {
            break;
        }
        let mut tmp = Report::new();
        run_sequence(world, built, &c, Some(c.len() - 1), universe_roots, &mut tmp);
        for v in tmp.violations {
            if open.remove(&v.sig) {
                // does not change the count much; it only provides a smaller witness
                rep.violation(v.sig, v.what, v.replay);
            }
        }
    }
}

// GENERATORS
// ================================================================================================

/// what a generated body may refer to
#[derive(Clone, Debug, Default)]
struct Env {
    normals: Vec<Tgt>,
    pushers: Vec<Tgt>,
    ksys: Vec<String>,
    lits: Vec<W>,
    locals: u16,
}

fn gen_plain(rng: &mut Rng8, locals: u16) -> String {
    let v = rng.gen_range(2..1000u64);
    match rng.gen_range(0..10) {
        0 => format!("push.{v} drop"),
        1 => format!("push.{v} push.{} add drop", rng.gen_range(2..99u64)),
        2 => "swap swap".into(),
        3 => "dup drop".into(),
        4 => "padw dropw".into(),
        5 => format!("push.{v} neg drop"),
        6 => format!("push.{} u32split drop drop", rng.gen::<u64>() % P),
        7 => format!("push.{v}.{} mul drop", rng.gen_range(2..99u64)),
        8 if locals > 0 => {
            let i = rng.gen_range(0..locals);
            format!("push.{v} loc_store.{i} loc_load.{i} drop")
        }
        9 if locals > 0 => format!("locaddr.{} drop", rng.gen_range(0..locals)),
        _ => format!("push.{v} push.{v} eq drop"),
    }
}

fn gen_dk(rng: &mut Rng8) -> Dk {
    match rng.gen_range(0..5) {
        0 => Dk::No,
        1 | 2 => Dk::Exec,
        _ => Dk::Call,
    }
}

fn gen_item(rng: &mut Rng8, env: &Env, depth: u32) -> Item {
    for _ in 0..20 {
        match rng.gen_range(0..18) {
            0..=2 => return Item::Plain(gen_plain(rng, env.locals)),
            3 | 4 if !env.normals.is_empty() => return Item::Exec(env.normals.choose(rng).unwrap().clone()),
            5 | 6 if !env.normals.is_empty() => return Item::Call(env.normals.choose(rng).unwrap().clone()),
            7 | 8 if !env.ksys.is_empty() => return Item::Sys(env.ksys.choose(rng).unwrap().clone()),
            9..=11 if !env.normals.is_empty() => return Item::Pref(env.normals.choose(rng).unwrap().clone(), gen_dk(rng)),
            12 | 13 if !env.pushers.is_empty() => return Item::Pusher(env.pushers.choose(rng).unwrap().clone(), gen_dk(rng)),
            14 if !env.lits.is_empty() => {
                // mostly without a consumer: a dyn on a never-registered root legitimately fails
                let d = if rng.gen_range(0..6) == 0 { gen_dk(rng) } else { Dk::No };
                return Item::Lit(*env.lits.choose(rng).unwrap(), d);
            }
            15 if depth < 2 => {
                let a = gen_items(rng, env, depth + 1, 1, 2);
                let b = if rng.gen_bool(0.6) { gen_items(rng, env, depth + 1, 1, 2) } else { vec![] };
                return Item::If(rng.gen_bool(0.5), a, b);
            }
            16 if depth < 2 => return Item::Rep(rng.gen_range(1..4), gen_items(rng, env, depth + 1, 1, 2)),
            17 if depth < 2 => return Item::While(rng.gen_bool(0.5), gen_items(rng, env, depth + 1, 1, 2)),
            _ => {}
        }
    }
    Item::Plain(gen_plain(rng, env.locals))
}

fn gen_items(rng: &mut Rng8, env: &Env, depth: u32, lo: usize, hi: usize) -> Vec<Item> {
    let n = rng.gen_range(lo..=hi);
    (0..n).map(|_| gen_item(rng, env, depth)).collect()
}

const ALIASES: [&str; 6] = ["zz", "q", "alpha", "m_x", "lib2", "u64"];

fn gen_imports(rng: &mut Rng8, avail: &[usize], lo: usize, hi: usize) -> Vec<(usize, Option<String>)> {
    if avail.is_empty() {
        return vec![];
    }
    let n = rng.gen_range(lo..=hi).min(avail.len());
    let mut picks: Vec<usize> = avail.to_vec();
    picks.shuffle(rng);
    picks.truncate(n);
    picks
        .into_iter()
        .enumerate()
        .map(|(k, i)| (i, if rng.gen_bool(0.4) { Some(format!("{}{}", ALIASES[rng.gen_range(0..ALIASES.len())], k)) } else { None }))
        .collect()
}

/// procedures of imported modules a body of module `m` may refer to
fn env_for(u: &Universe, m: &Module, self_idx: usize, prog: Option<&Module>) -> Env {
    let mut env = Env::default();
    for (i, _) in &m.imports {
        for p in &u.mods[*i].procs {
            if !p.export {
                continue;
            }
            let t = Tgt { m: *i, name: p.name.clone() };
            if u.is_pusher(&t, prog) {
                env.pushers.push(t);
            } else {
                env.normals.push(t);
            }
        }
    }
    if let Some(k) = &u.kernel {
        if self_idx != PROG - 1 {
            env.ksys = k.procs.iter().filter(|p| p.export).map(|p| p.name.clone()).collect();
        }
    }
    // literal roots: roots of normal procedures known so far
    for ((mi, name), w) in &u.roots {
        let t = Tgt { m: *mi, name: name.clone() };
        if *mi < u.mods.len() && !u.is_pusher(&t, None) {
            env.lits.push(*w);
        }
    }
    env
}

fn gen_kernel(rng: &mut Rng8) -> Module {
    let mut k = Module { path: "#kernel".into(), ..Default::default() };
    let n = rng.gen_range(1..=3);
    let mut locals_env = Env::default();
    for i in 0..n {
        let internal = i == 0 && n > 1 && rng.gen_bool(0.5);
        let locals = if rng.gen_bool(0.3) { rng.gen_range(1..3) } else { 0 };
        locals_env.locals = locals;
        let mut items = vec![Item::Plain(gen_plain(rng, locals))];
        if rng.gen_bool(0.5) {
            items.push(Item::Plain("padw caller dropw".into()));
        }
        if !locals_env.normals.is_empty() && rng.gen_bool(0.5) {
            items.push(Item::Exec(locals_env.normals.choose(rng).unwrap().clone()));
        }
        let name = format!("k{i}");
        k.procs.push(Proc { name: name.clone(), export: !internal, locals, kind: PK::Normal(items) });
        locals_env.normals.push(Tgt { m: PROG - 1, name });
    }
    k
}

/// computes the MAST roots of all procedures of module `idx` (module must be rendered in `world`)
fn compute_roots(u: &mut Universe, idx: usize, world: &World, built: &[MaslLibrary], rep: &mut Report) -> bool {
    let m = u.mods[idx].clone();
    let mut ok = true;
    let mut failed_reexp: Vec<(String, String, Tgt)> = vec![];
    let mut normal_failed = 0;
    for p in &m.procs {
        let is_reexp = matches!(p.kind, PK::ReExp(_));
        let src = match &p.kind {
            PK::ReExp(_) => format!("use.{}->zq9\nbegin exec.zq9::{} end", m.path, p.name),
            _ => u.render_root_probe(&m, idx, &p.name),
        };
        let comp = match fresh(world, built, &identity(built.len())) {
            Built::Ok(a) => compile(&a, &src),
            _ => Comp::Err("assembler-unavailable".into()),
        };
        match comp {
            Comp::Ok(prog) => {
                u.roots.insert((idx, p.name.clone()), to_w(prog.hash()));
            }
            Comp::Panic(pi) => {
                // a one-line program that only invokes a procedure of a successfully built
                // library must never panic the assembler, whatever the library looks like
                let mut w = world.to_json();
                w["kind"] = json!("probe");
                w["program"] = json!(src);
                let kind = if is_reexp { "re-export" } else { "procedure" };
                rep.violation(format!("panic/root-probe/{kind}/{}", pi.site()), format!("assembler panicked compiling `{}` against successfully built libraries: {}", src.replace('\n', " "), pi.message), w);
                rep.count("root_probe_fail", &format!("panic:{}", pi.site()));
                ok = false;
            }
            Comp::Err(e) => {
                rep.count("root_probe_fail", &format!("{}:{}", if is_reexp { "re-export" } else { "procedure" }, truncate(&e, 60)));
                ok = false;
                // errors here normally come from the 'same MAST, different number of locals' rule
                // hitting a generated module: the universe is discarded. A re-export is judged
                // below, once it is known whether the rest of its module compiles.
                if let PK::ReExp(t) = &p.kind {
                    failed_reexp.push((src.clone(), e.clone(), u.resolve(t, None)));
                } else {
                    normal_failed += 1;
                }
            }
        }
    }
    // re-export-specific failure: every normal procedure of the module (at least one) compiles, the
    // original compiles when invoked directly, but the re-exported name does not
    let module_ok = m.procs.iter().find(|p| p.export && !matches!(p.kind, PK::ReExp(_))).map(|p| {
        let through = format!("use.{}->zq9\nbegin exec.zq9::{} end", m.path, p.name);
        match fresh(world, built, &identity(built.len())) {
            Built::Ok(a) => matches!(compile(&a, &through), Comp::Ok(_)),
            _ => false,
        }
    });
    if normal_failed == 0 && module_ok == Some(true) {
        for (src, e, orig) in failed_reexp {
            let direct = format!("use.{}->zq9\nbegin exec.zq9::{} end", u.mods[orig.m].path, orig.name);
            let dcomp = match fresh(world, built, &identity(built.len())) {
                Built::Ok(a) => compile(&a, &direct),
                _ => Comp::Err("assembler-unavailable".into()),
            };
            rep.count("root_probe_fail_direct", dcomp.class());
            if matches!(dcomp, Comp::Ok(_)) {
                let mut w = world.to_json();
                w["kind"] = json!("reexport");
                w["via"] = json!(src);
                w["direct"] = json!(direct);
                rep.violation("re-export/outcome/exec", format!("`{}` fails ({}) while its module's own procedures and the original `{}` compile", src.replace('\n', " "), truncate(&e, 80), direct.replace('\n', " ")), w);
            }
        }
    }
    ok
}

fn world_of(u: &Universe, upto: usize, stack: &[u64]) -> World {
    World { libs: u.lib_srcs(upto), kernel: u.kernel_src(), stack: stack.to_vec() }
}

/// Generates a universe: 2–4 libraries, 3–7 modules forming a DAG, optional kernel.
fn gen_universe(rng: &mut Rng8, rep: &mut Report) -> Option<Universe> {
    let mut u = Universe::default();
    let n_libs = rng.gen_range(2..=4usize);
    u.ns = ["la", "lb", "lc", "ld"][..n_libs].iter().map(|s| s.to_string()).collect();
    let n_mods = rng.gen_range(n_libs.max(3)..=7usize);
    if rng.gen_bool(0.7) {
        u.kernel = Some(gen_kernel(rng));
        // kernel roots: `begin syscall.k end` is a single SYSCALL block whose target is the root
        let w = World { libs: vec![], kernel: u.kernel_src(), stack: vec![] };
        for p in u.kernel.clone().unwrap().procs.iter().filter(|p| p.export) {
            let r = match fresh(&w, &[], &[]) {
                Built::Ok(a) => match compile(&a, &format!("begin syscall.{} end", p.name)) {
                    Comp::Ok(prog) => match prog.root() {
                        CodeBlock::Call(c) => Some(to_w(c.fn_hash())),
                        _ => None,
                    },
                    _ => None,
                },
                _ => None,
            };
            match r {
                Some(r) => {
                    u.kroots.insert(p.name.clone(), r);
                }
                None => {
                    rep.count("harness", "kernel-root-unavailable");
                    if let Built::Err(e) = fresh(&w, &[], &[]) {
                        rep.count("kernel_err", &truncate(&e, 100));
                    }
                    return None;
                }
            }
        }
    }
    // pair plans: (module of the literal pusher `a`, module of the procref pusher `b`)
    let mut plans: Vec<(usize, usize)> = vec![];
    for _ in 0..rng.gen_range(1..=3) {
        plans.push((rng.gen_range(1..n_mods), rng.gen_range(1..n_mods)));
    }
    // a pool of bodies shared verbatim by procedures of different modules (equal MAST roots)
    let shared: Vec<String> = (0..3).map(|_| format!("{} {}", gen_plain(rng, 0), gen_plain(rng, 0))).collect();

    let mut pair_no = 0;
    for idx in 0..n_mods {
        let lib = if idx < n_libs { idx } else { rng.gen_range(0..n_libs) };
        let path = if rng.gen_bool(0.2) { format!("{}::sub::m{idx}", u.ns[lib]) } else { format!("{}::m{idx}", u.ns[lib]) };
        let avail: Vec<usize> = (0..idx).collect();
        let mut m = Module { path, lib, imports: gen_imports(rng, &avail, 1, 3), ..Default::default() };
        let env0 = env_for(&u, &m, idx, None);

        // re-exports
        if !env0.normals.is_empty() || !env0.pushers.is_empty() {
            for r in 0..rng.gen_range(0..=2) {
                let all: Vec<&Tgt> = env0.normals.iter().chain(env0.pushers.iter()).collect();
                let t = (*all.choose(rng).unwrap()).clone();
                let name = if rng.gen_bool(0.5) { t.name.clone() } else { format!("r{idx}_{r}") };
                if m.procs.iter().any(|p| p.name == name) {
                    continue;
                }
                m.procs.push(Proc { name, export: true, locals: 0, kind: PK::ReExp(t) });
            }
        }
        // normal procedures
        let mut env = env0.clone();
        let n_procs = rng.gen_range(2..=4);
        for i in 0..n_procs {
            let is_shared = rng.gen_bool(0.25);
            let locals = if !is_shared && rng.gen_bool(0.25) { rng.gen_range(1..4) } else { 0 };
            env.locals = locals;
            let items = if is_shared {
                vec![Item::Plain(shared.choose(rng).unwrap().clone())]
            } else {
                gen_items(rng, &env, 0, 1, 3)
            };
            let name = format!("p{idx}_{i}");
            let export = i == n_procs - 1 || rng.gen_bool(0.7);
            m.procs.push(Proc { name: name.clone(), export, locals, kind: PK::Normal(items) });
            env.normals.push(Tgt { m: idx, name });
        }
        // pushers of the pair plans
        for (am, bm) in plans.clone() {
            if am != idx && bm != idx {
                continue;
            }
            // foo: an exported normal procedure of an imported module
            let foos: Vec<&Tgt> = env0.normals.iter().collect();
            if foos.is_empty() {
                continue;
            }
            let foo = (*foos.choose(rng).unwrap()).clone();
            let Some(root) = u.roots.get(&(foo.m, foo.name.clone())).copied() else { continue };
            let mut add = vec![];
            if am == idx {
                add.push(Proc { name: format!("a{idx}_{pair_no}"), export: true, locals: 0, kind: PK::PushLit(root) });
            }
            if bm == idx {
                add.push(Proc { name: format!("b{idx}_{pair_no}"), export: true, locals: 0, kind: PK::PushRef(foo.clone()) });
            }
            if add.len() == 2 && rng.gen_bool(0.5) {
                add.swap(0, 1);
            }
            for p in add {
                let t = Tgt { m: idx, name: p.name.clone() };
                m.procs.push(p);
                env.pushers.push(t.clone());
                if rng.gen_bool(0.3) {
                    let wname = format!("w{idx}_{pair_no}_{}", m.procs.len());
                    m.procs.push(Proc { name: wname.clone(), export: true, locals: 0, kind: PK::PushWrap(t) });
                    env.pushers.push(Tgt { m: idx, name: wname });
                }
            }
            pair_no += 1;
            // a normal procedure using the pushers of this module
            if rng.gen_bool(0.5) {
                let t = env.pushers.last().unwrap().clone();
                let name = format!("u{idx}_{pair_no}");
                m.procs.push(Proc { name: name.clone(), export: true, locals: 0, kind: PK::Normal(vec![Item::Pusher(t, gen_dk(rng)), Item::Plain(gen_plain(rng, 0))]) });
                env.normals.push(Tgt { m: idx, name });
            }
        }
        u.mods.push(m);
        let world = world_of(&u, idx + 1, &[]);
        let built = match world.build() {
            Ok(b) => b,
            Err(e) => {
                rep.count("harness", "library-build-failed");
                rep.count("library_build_err", &truncate(&e, 100));
                return None;
            }
        };
        if !compute_roots(&mut u, idx, &world, &built, rep) {
            rep.count("harness", "root-unavailable");
            return None;
        }
    }
    Some(u)
}

/// Generates a program over the universe; returns the model and its local procedure roots.
fn gen_program(rng: &mut Rng8, u: &Universe) -> Module {
    let avail: Vec<usize> = (0..u.mods.len()).collect();
    let mut m = Module { path: "#exec".into(), imports: gen_imports(rng, &avail, 1, 3), ..Default::default() };
    let mut env = env_for(u, &m, PROG, None);
    for i in 0..rng.gen_range(0..=2) {
        let name = format!("loc{i}");
        match rng.gen_range(0..6) {
            0 if !env.normals.is_empty() => {
                let f = env.normals.choose(rng).unwrap().clone();
                m.procs.push(Proc { name: name.clone(), export: false, locals: 0, kind: PK::PushRef(f) });
                env.pushers.push(Tgt { m: PROG, name });
            }
            1 if !env.lits.is_empty() => {
                m.procs.push(Proc { name: name.clone(), export: false, locals: 0, kind: PK::PushLit(*env.lits.choose(rng).unwrap()) });
                env.pushers.push(Tgt { m: PROG, name });
            }
            _ => {
                let locals = if rng.gen_bool(0.3) { rng.gen_range(1..3) } else { 0 };
                env.locals = locals;
                let items = gen_items(rng, &env, 0, 1, 3);
                m.procs.push(Proc { name: name.clone(), export: false, locals, kind: PK::Normal(items) });
                env.normals.push(Tgt { m: PROG, name });
            }
        }
    }
    env.locals = 0;
    m.main = Some(gen_items(rng, &env, 0, 1, 5));
    m
}

/// A program exercising one pusher (the same-root pairs), biased to appear in every universe.
fn gen_pusher_program(rng: &mut Rng8, u: &Universe) -> Option<Module> {
    let mut all = vec![];
    for (i, md) in u.mods.iter().enumerate() {
        for p in &md.procs {
            let t = Tgt { m: i, name: p.name.clone() };
            if p.export && u.is_pusher(&t, None) {
                all.push(t);
            }
        }
    }
    let t = all.choose(rng)?.clone();
    let al = if rng.gen_bool(0.5) { Some("px".to_string()) } else { None };
    let mut m = Module { path: "#exec".into(), imports: vec![(t.m, al)], ..Default::default() };
    let mut main = vec![Item::Pusher(t, gen_dk(rng))];
    if rng.gen_bool(0.3) {
        main.insert(0, Item::Plain(gen_plain(rng, 0)));
    }
    m.main = Some(main);
    Some(m)
}

fn seq_item(u: &Universe, prog: &Module, world: &World, built: &[MaslLibrary], rep: &mut Report) -> Option<SeqItem> {
    // roots of program-local procedures
    let mut proots = BTreeMap::new();
    for p in &prog.procs {
        let src = u.render_root_probe(prog, PROG, &p.name);
        match fresh_hash(world, built, &src) {
            Some(w) => {
                proots.insert(p.name.clone(), w);
            }
            None => {
                rep.count("harness", "local-root-unavailable");
                return None;
            }
        }
    }
    let n = u.needs_of_program(prog, &proots);
    if n.unknown_root {
        rep.count("harness", "unknown-root-in-model");
        return None;
    }
    let loads = u.load_closure(prog);
    let load_roots = u.roots.iter().filter(|((m, _), _)| loads.contains(m)).map(|(_, w)| *w).collect();
    Some(SeqItem {
        src: u.render(prog, PROG),
        needed: n.set.iter().map(|(w, k)| (*w, k.0.to_string())).collect(),
        parents: n.set.iter().map(|(w, k)| (*w, k.1.iter().map(|(p, k)| (*p, k.to_string())).collect())).collect(),
        dynk: n.dynk.clone(),
        expect_ok: true,
        invs: n.invs,
        loads,
        load_roots,
    })
}

// HISTORY DRIVER
// ================================================================================================

const KINDS: [&str; 6] = ["exec", "call", "syscall", "procref", "dynexec", "dyncall"];

fn kinds_sig(invs: &[Inv]) -> String {
    let s: BTreeSet<String> = invs.iter().map(|i| format!("{}/{}", i.kind, i.loc)).collect();
    s.into_iter().collect::<Vec<_>>().join(",")
}

/// cache-state class of one invocation on the warm instance
fn cache_class(inv: &Inv, loaded: &BTreeSet<usize>, cached_roots: &BTreeSet<W>) -> &'static str {
    if inv.loc == "kernel" {
        return "warm-same-module"; // the kernel is compiled when the instance is built
    }
    match inv.tm {
        Some(m) if loaded.contains(&m) => "warm-same-module",
        _ => match inv.root {
            Some(r) if cached_roots.contains(&r) => "warm-different-module-equal-root",
            _ => "warm-uncached",
        },
    }
}

fn history_for_universe(rng: &mut Rng8, u: &Universe, n_seqs: usize, rep: &mut Report) {
    let stack: Vec<u64> = (0..rng.gen_range(0..=16)).map(|_| crate::util::biased_felt(rng)).collect();
    let world = world_of(u, u.mods.len(), &stack);
    let built = match world.build() {
        Ok(b) => b,
        Err(_) => {
            rep.count("harness", "library-build-failed");
            return;
        }
    };
    let universe_roots: BTreeSet<W> = u.roots.values().chain(u.kroots.values()).copied().collect();
    rep.count("universe", &format!("libs={} mods={} kernel={}", u.ns.len(), u.mods.len(), u.kernel.is_some()));

    // program pool
    let mut pool: Vec<SeqItem> = vec![];
    for k in 0..rng.gen_range(5..=8) {
        let prog = if k < 3 { gen_pusher_program(rng, u).unwrap_or_else(|| gen_program(rng, u)) } else { gen_program(rng, u) };
        if let Some(mut it) = seq_item(u, &prog, &world, &built, rep) {
            // a history element that fails to compile: must fail on both instances
            if rng.gen_range(0..12) == 0 {
                if let Some((i, _)) = prog.imports.first() {
                    let al = u.qual(&prog, PROG, &Tgt { m: *i, name: "nope_zz".into() });
                    it.src = it.src.replacen("begin\n", &format!("begin\n    exec.{al}\n"), 1);
                    it.expect_ok = false;
                }
            }
            pool.push(it);
        }
    }
    // undocumented `call.<mast root>`: depends on what is cached (own signature)
    if rng.gen_range(0..8) == 0 {
        let normal: Vec<&W> = u.roots.iter().filter(|((m, n), _)| !u.is_pusher(&Tgt { m: *m, name: n.clone() }, None)).map(|(_, w)| w).collect();
        if let Some(w) = normal.choose(rng) {
            let mut needed = BTreeMap::new();
            needed.insert(**w, "call".to_string());
            pool.push(SeqItem { src: format!("begin call.{} end", to_d(w).to_hex()), needed, expect_ok: false, ..Default::default() });
        }
    }
    if pool.is_empty() {
        return;
    }
    if rep.samples.len() < 3 {
        rep.sample(json!({"kind": "history", "libs": world.to_json()["libs"], "kernel": world.kernel, "program": pool[0].src}));
    }

    // re-export: same root as the original; call through a re-export needs the same table entry
    for (i, md) in u.mods.iter().enumerate() {
        for p in &md.procs {
            if let PK::ReExp(t) = &p.kind {
                let orig = u.resolve(t, None);
                let (a, b) = (u.roots.get(&(i, p.name.clone())), u.roots.get(&(orig.m, orig.name.clone())));
                rep.eval("re-export|exec");
                rep.count("re_export", "exec");
                let via = format!("use.{}->zq9\nbegin exec.zq9::{} end", md.path, p.name);
                let direct = format!("use.{}->zq9\nbegin exec.zq9::{} end", u.mods[orig.m].path, orig.name);
                if a != b {
                    let mut w = world.to_json();
                    w["kind"] = json!("reexport");
                    w["via"] = json!(via);
                    w["direct"] = json!(direct);
                    rep.violation("re-export/root-mismatch/exec", format!("{}::{} re-exports {}::{} but compiles to a different MAST root", md.path, p.name, u.mods[orig.m].path, orig.name), w);
                }
                if !u.is_pusher(t, None) {
                    let via = via.replace("exec.", "call.");
                    let direct = direct.replace("exec.", "call.");
                    check_reexport_call(&world, &built, &via, &direct, rep);
                }
            }
        }
    }

    // library order
    order_check(rng, &world, &built, &pool, rep);

    // sequences
    let kroots: BTreeSet<W> = u.kroots.values().copied().collect();
    for _ in 0..n_seqs {
        let len = rng.gen_range(3..=9);
        let idxs: Vec<usize> = (0..len).map(|_| rng.gen_range(0..pool.len())).collect();
        let seq: Vec<&SeqItem> = idxs.iter().map(|&i| &pool[i]).collect();
        drive_sequence(&world, &built, &seq, &universe_roots, &kroots, rep);
    }
}

/// One warm instance, one sequence: coverage bookkeeping + check of every step + shrinking.
fn drive_sequence(
    world: &World,
    built: &[MaslLibrary],
    seq: &[&SeqItem],
    universe_roots: &BTreeSet<W>,
    kroots: &BTreeSet<W>,
    rep: &mut Report,
) {
    let warm = match fresh(world, built, &identity(built.len())) {
        Built::Ok(a) => a,
        Built::Err(e) => {
            rep.count("harness", "fresh-assembler-err");
            rep.count("fresh_assembler_err", &truncate(&e, 100));
            return;
        }
        Built::Panic(p) => {
            rep.violation(format!("panic/assembler-setup/{}", p.site()), format!("building the assembler panicked: {}", p.message), history_witness(world, seq, 0));
            return;
        }
    };
    rep.count("sequence_len", &seq.len().to_string());
    let mut loaded: BTreeSet<usize> = BTreeSet::new();
    let mut cached_roots: BTreeSet<W> = kroots.clone();
    let mut shrunk: BTreeSet<String> = BTreeSet::new();
    for (i, item) in seq.iter().enumerate() {
        // coverage
        let ks = kinds_sig(&item.invs);
        let mut classes = BTreeSet::new();
        for inv in &item.invs {
            rep.count("coverage", &format!("cold/{}/{}", inv.kind, inv.loc));
            let c = if i == 0 { "warm-first-compile" } else { cache_class(inv, &loaded, &cached_roots) };
            rep.count("coverage", &format!("{c}/{}/{}", inv.kind, inv.loc));
            rep.count("cache_class", c);
            rep.count("kind_cold", inv.kind);
            if i > 0 {
                rep.count("kind_warm", inv.kind);
            }
            classes.insert(c);
        }
        let pc = ["warm-different-module-equal-root", "warm-same-module", "warm-uncached", "warm-first-compile"]
            .iter()
            .find(|c| classes.contains(*c))
            .copied()
            .unwrap_or("warm-no-invocation");
        rep.eval(&format!("cold|{ks}"));
        rep.eval(&format!("{pc}|{ks}"));
        let before: BTreeMap<String, u64> = rep.violation_counts.clone();
        let wit = || history_witness(world, seq, i);
        check_step(world, built, &warm, item, universe_roots, &wit, rep);
        // shrink new signatures once per sequence
        let new_sigs: Vec<String> = rep
            .violation_counts
            .iter()
            .filter(|(s, c)| before.get(*s).copied().unwrap_or(0) < **c && !shrunk.contains(*s))
            .map(|(s, _)| s.clone())
            .collect();
        if !new_sigs.is_empty() && i > 1 {
            for s in &new_sigs {
                shrunk.insert(s.clone());
            }
            shrink_history(world, built, seq, i, &new_sigs, universe_roots, rep);
        }
        // model of the cache after this compile
        loaded.extend(item.loads.iter().copied());
        cached_roots.extend(item.load_roots.iter().copied());
    }
}

fn check_reexport_call(world: &World, built: &[MaslLibrary], via: &str, direct: &str, rep: &mut Report) {
    let (Built::Ok(a1), Built::Ok(a2)) = (fresh(world, built, &identity(built.len())), fresh(world, built, &identity(built.len()))) else {
        return;
    };
    rep.eval("re-export|call");
    rep.count("re_export", "call");
    let mut w = world.to_json();
    w["kind"] = json!("reexport");
    w["via"] = json!(via);
    w["direct"] = json!(direct);
    match (compile(&a1, via), compile(&a2, direct)) {
        (Comp::Ok(v), Comp::Ok(d)) => {
            if v.hash() != d.hash() {
                rep.violation("re-export/root-mismatch/call", "calling through a re-export gives a different program than calling the original", w);
            } else if let CodeBlock::Call(c) = d.root() {
                if v.cb_table().has(c.fn_hash()) != d.cb_table().has(c.fn_hash()) || !v.cb_table().has(c.fn_hash()) {
                    rep.violation("re-export/cb-table/call", "call target reached through a re-export is not in the code block table", w);
                }
            }
        }
        (Comp::Panic(p), _) | (_, Comp::Panic(p)) => rep.violation(format!("panic/compile/{}", p.site()), format!("compile panicked: {}", p.message), w),
        (v, d) => {
            if v.class() != d.class() {
                rep.violation("re-export/outcome/call", format!("call through re-export: {}, direct: {}", v.class(), d.class()), w);
            } else {
                rep.count("harness", "reexport-probe-rejected");
            }
        }
    }
}

fn permutations(n: usize) -> Vec<Vec<usize>> {
    fn rec(cur: &mut Vec<usize>, used: &mut Vec<bool>, n: usize, out: &mut Vec<Vec<usize>>) {
        if cur.len() == n {
            out.push(cur.clone());
            return;
        }
        for i in 0..n {
            if !used[i] {
                used[i] = true;
                cur.push(i);
                rec(cur, used, n, out);
                cur.pop();
                used[i] = false;
            }
        }
    }
    let mut out = vec![];
    rec(&mut vec![], &mut vec![false; n], n, &mut out);
    out
}

struct Fingerprint {
    class: &'static str,
    hash: Option<W>,
    kernel: String,
    table: String,
}

fn fingerprint(c: &Comp) -> Fingerprint {
    match c {
        Comp::Ok(p) => Fingerprint { class: "ok", hash: Some(to_w(p.hash())), kernel: format!("{:?}", p.kernel()), table: format!("{:?}", p.cb_table()) },
        o => Fingerprint { class: o.class(), hash: None, kernel: String::new(), table: String::new() },
    }
}

fn order_one(world: &World, built: &[MaslLibrary], src: &str, perm: &[usize], base: &Fingerprint, rep: &mut Report) {
    let mut w = world.to_json();
    w["kind"] = json!("order");
    w["src"] = json!(src);
    w["perm"] = json!(perm);
    let asm = match fresh(world, built, perm) {
        Built::Ok(a) => a,
        Built::Err(e) => {
            rep.violation("library-order/assembler-setup", format!("adding the libraries in order {perm:?} fails: {e}"), w);
            return;
        }
        Built::Panic(p) => {
            rep.violation(format!("panic/assembler-setup/{}", p.site()), format!("with_library order {perm:?} panicked: {}", p.message), w);
            return;
        }
    };
    let c = compile(&asm, src);
    if let Comp::Panic(p) = &c {
        rep.violation(format!("panic/compile/{}", p.site()), format!("compile panicked: {}", p.message), w);
        return;
    }
    let f = fingerprint(&c);
    let what = if f.class != base.class {
        Some("outcome")
    } else if f.hash != base.hash {
        Some("program-hash")
    } else if f.kernel != base.kernel {
        Some("kernel")
    } else if f.table != base.table {
        Some("cb-table")
    } else {
        None
    };
    if let Some(what) = what {
        rep.violation(format!("library-order/{what}"), format!("with_library order {perm:?} gives a different {what} than order 0..n"), w);
    }
}

fn order_check(rng: &mut Rng8, world: &World, built: &[MaslLibrary], pool: &[SeqItem], rep: &mut Report) {
    let n = built.len();
    if n > 4 || n < 2 {
        return;
    }
    let perms = permutations(n);
    let k = pool.len().min(3);
    let mut picks: Vec<usize> = (0..pool.len()).collect();
    picks.shuffle(rng);
    for &pi in picks.iter().take(k) {
        let item = &pool[pi];
        if item.src.contains("call.0x") {
            continue;
        }
        let base = match fresh(world, built, &perms[0]) {
            Built::Ok(a) => fingerprint(&compile(&a, &item.src)),
            _ => return,
        };
        for perm in perms.iter().skip(1) {
            rep.eval(&format!("order|libs={n}|{}", kinds_sig(&item.invs)));
            rep.count("library_order", &format!("libs={n}"));
            order_one(world, built, &item.src, perm, &base, rep);
        }
    }
}

// DIRECTED SCENARIOS (minimal worlds for the equal-root cache classes)
// ================================================================================================

fn lib1(ns: &str, path: &str, src: &str) -> LibSrc {
    LibSrc { namespace: ns.into(), modules: vec![(path.into(), src.into())] }
}

fn directed(rep: &mut Report) {
    // foo and its root
    let la = lib1("la", "la::m0", "export.foo\n    push.7 drop\nend\n");
    let w0 = World { libs: vec![la.clone()], ..Default::default() };
    let Ok(b0) = w0.build() else {
        rep.count("harness", "directed-build-failed");
        return;
    };
    let Some(root) = fresh_hash(&w0, &b0, "use.la::m0 begin exec.m0::foo end") else {
        rep.count("harness", "directed-root-unavailable");
        return;
    };
    let h = w_str(&root);
    let lb = lib1("lb", "lb::m1", &format!("export.a\n    push.{h}\nend\n"));
    let lc = lib1("lc", "lc::m2", "use.la::m0\nexport.b\n    procref.m0::foo\nend\n");
    let ld = lib1("ld", "ld::m3", &format!("use.la::m0\nexport.a2\n    push.{h}\nend\nexport.b2\n    procref.m0::foo\nend\n"));
    // world A: `a` and `b` in different modules; world B: both in one module (`a2` first)
    let world = World { libs: vec![la.clone(), lb, lc], kernel: None, stack: vec![] };
    let world_b = World { libs: vec![la.clone(), ld], kernel: None, stack: vec![] };
    let (Ok(built), Ok(built_b)) = (world.build(), world_b.build()) else {
        rep.count("harness", "directed-build-failed");
        return;
    };
    let Some(r_ab) = fresh_hash(&world, &built, "use.lb::m1 begin exec.m1::a end") else {
        rep.count("harness", "directed-root-unavailable");
        return;
    };
    rep.count("directed", if fresh_hash(&world, &built, "use.lc::m2 begin exec.m2::b end") == Some(r_ab) { "a-and-b-share-root" } else { "a-and-b-differ" });
    let inv = |kind: &'static str, tm: usize, r: W| Inv { kind, loc: "imported", tm: Some(tm), root: Some(r) };
    let mk = |src: &str, procref: bool, dk: u8, invs: Vec<Inv>, loads: &[usize], roots: &[W]| {
        let mut it = SeqItem { src: src.to_string(), expect_ok: true, invs, ..Default::default() };
        if procref {
            it.needed.insert(root, "procref".into());
            it.parents.insert(root, [(None, "procref".to_string())].into_iter().collect());
        }
        if dk != 0 {
            it.dynk.insert(root, dk);
        }
        it.loads = loads.iter().copied().collect();
        it.load_roots = roots.iter().copied().collect();
        it
    };
    let pa = mk("use.lb::m1\nbegin\n    exec.m1::a dropw\nend\n", false, 0, vec![inv("exec", 1, r_ab)], &[1], &[r_ab]);
    let pa_dyn = mk("use.lb::m1\nbegin\n    exec.m1::a dynexec dropw\nend\n", false, 1, vec![inv("exec", 1, r_ab), inv("dynexec", 1, r_ab)], &[1], &[r_ab]);
    let pb_exec = mk("use.lc::m2\nbegin\n    exec.m2::b dynexec dropw\nend\n", true, 1, vec![inv("exec", 2, r_ab), inv("dynexec", 2, r_ab)], &[0, 2], &[r_ab, root]);
    let pb_call = mk("use.lc::m2\nbegin\n    exec.m2::b dyncall dropw\nend\n", true, 2, vec![inv("exec", 2, r_ab), inv("dyncall", 2, r_ab)], &[0, 2], &[r_ab, root]);
    let pd = mk("use.ld::m3\nbegin\n    exec.m3::b2 dynexec dropw\nend\n", true, 1, vec![inv("exec", 3, r_ab), inv("dynexec", 3, r_ab)], &[0, 3], &[r_ab, root]);
    let mut pcall = mk("use.la::m0\nbegin\n    call.m0::foo\nend\n", false, 0, vec![inv("call", 0, root)], &[0], &[root]);
    pcall.needed.insert(root, "call".into());
    pcall.parents.insert(root, [(None, "call".to_string())].into_iter().collect());
    let pexec = mk("use.la::m0\nbegin\n    exec.m0::foo\nend\n", false, 0, vec![inv("exec", 0, root)], &[0], &[root]);
    // undocumented `call.<mast root>`: accepted only if the root happens to be cached
    let mut proot = SeqItem { src: format!("begin\n    call.{}\nend\n", to_d(&root).to_hex()), expect_ok: false, ..Default::default() };
    proot.needed.insert(root, "call".into());
    let roots: BTreeSet<W> = [root, r_ab].into_iter().collect();
    let none = BTreeSet::new();
    let seqs: Vec<Vec<&SeqItem>> = vec![
        vec![&pa, &pb_exec],
        vec![&pa, &pb_call],
        vec![&pb_exec, &pa_dyn],
        vec![&pb_exec, &pb_exec],
        vec![&pa, &pcall, &pb_exec],
        vec![&pcall, &pb_call, &pa],
    ];
    for s in &seqs {
        rep.count("directed", "sequence");
        drive_sequence(&world, &built, s, &roots, &none, rep);
    }
    rep.count("directed", "sequence");
    drive_sequence(&world_b, &built_b, &[&pd], &roots, &none, rep);
    let world_c = World { libs: vec![la], kernel: None, stack: vec![] };
    if let Ok(built_c) = world_c.build() {
        for s in [vec![&pexec, &proot], vec![&proot, &pexec]] {
            rep.count("directed", "sequence");
            drive_sequence(&world_c, &built_c, &s, &roots, &none, rep);
        }
    }

    // a module whose compilation fails while its procedures are being added to the cache
    // (wrapper `w` has the MAST root of `q` but a different number of locals)
    let world2 = World {
        libs: vec![lib1("la", "la::m0", "export.q.1\n    push.5 loc_store.0\nend\nexport.w\n    exec.q\nend\n")],
        kernel: None,
        stack: vec![],
    };
    if let Ok(built2) = world2.build() {
        let s1 = SeqItem { src: "use.la::m0\nbegin\n    exec.m0::w\nend\n".into(), expect_ok: false, ..Default::default() };
        let s2 = SeqItem { src: "use.la::m0\nbegin\n    exec.m0::q\nend\n".into(), expect_ok: false, ..Default::default() };
        for s in [vec![&s1, &s2], vec![&s2, &s1], vec![&s1, &s1]] {
            rep.count("directed", "sequence");
            drive_sequence(&world2, &built2, &s, &none, &none, rep);
        }
    }
}

// INVALID CORPUS (rejection classes taken from docs/src/user_docs/assembly/*.md)
// ================================================================================================

#[derive(Clone, Copy, Debug, PartialEq, Eq)]
enum Expect {
    /// documented as invalid: must be `Err`
    Reject,
    /// valid or unspecified: only "no panic" is required
    NoPanic,
    /// valid neighbour of a rejected case (guards the corpus against typos): must be `Ok`
    Accept,
}

#[derive(Clone, Debug)]
struct InvCase {
    class: String,
    variant: String,
    tpl: &'static str,
    case: Case,
    expect: Expect,
}

const TPL_NAMES: [&str; 8] = ["begin", "proc", "proc-if", "proc-repeat", "proc-while", "library", "kernel", "begin-mid"];

/// Puts instruction text `i` into one of eight contexts. `locals`: None = `proc.p`, Some(n) = `proc.p.n`.
fn tpl(t: usize, i: &str, locals: Option<u16>) -> Option<Case> {
    let suffix = match locals {
        None => String::new(),
        Some(n) => format!(".{n}"),
    };
    let has_locals = matches!(locals, Some(n) if n > 0);
    Some(match t {
        0 => {
            if has_locals {
                return None;
            }
            Case::new(format!("begin\n    {i}\nend\n"))
        }
        1 => Case::new(format!("proc.p{suffix}\n    {i}\nend\nbegin\n    exec.p\nend\n")),
        2 => Case::new(format!("proc.p{suffix}\n    push.1 if.true {i} else push.2 drop end\nend\nbegin\n    exec.p\nend\n")),
        3 => Case::new(format!("proc.p{suffix}\n    repeat.2 {i} end\nend\nbegin\n    exec.p\nend\n")),
        4 => Case::new(format!("proc.p{suffix}\n    push.0 while.true {i} push.0 end\nend\nbegin\n    exec.p\nend\n")),
        5 => {
            let mut c = Case::new("use.la::m\nbegin\n    exec.m::e\nend\n");
            c.libs = vec![lib1("la", "la::m", &format!("export.e{suffix}\n    {i}\nend\n"))];
            c
        }
        6 => {
            let mut c = Case::new("begin\n    syscall.k\nend\n");
            c.kernel = Some(format!("export.k{suffix}\n    {i}\nend\n"));
            c
        }
        _ => {
            if has_locals {
                return None;
            }
            Case::new(format!("begin\n    push.1 {i} drop\nend\n"))
        }
    })
}

struct Corpus {
    cases: Vec<InvCase>,
}

impl Corpus {
    /// instruction-level case in the given templates
    fn instr(&mut self, class: &str, i: &str, locals: Option<u16>, expect: Expect, tpls: &[usize]) {
        for &t in tpls {
            if let Some(case) = tpl(t, i, locals) {
                let variant = match locals {
                    Some(n) => format!("{i} [locals={n}]"),
                    None => i.to_string(),
                };
                self.cases.push(InvCase { class: class.into(), variant, tpl: TPL_NAMES[t], case, expect });
            }
        }
    }
    fn whole(&mut self, class: &str, variant: &str, case: Case, expect: Expect) {
        self.cases.push(InvCase { class: class.into(), variant: variant.into(), tpl: "whole-source", case, expect });
    }
    fn src(&mut self, class: &str, src: &str, expect: Expect) {
        self.whole(class, src, Case::new(src), expect);
    }
}

const LIB_M: &str = "proc.internal\n    push.1 drop\nend\nexport.foo\n    push.2 drop\nend\n";

fn with_lib(src: &str) -> Case {
    let mut c = Case::new(src);
    c.libs = vec![lib1("la", "la::m", LIB_M)];
    c
}
fn with_kernel(kernel: &str, src: &str) -> Case {
    let mut c = Case::new(src);
    c.kernel = Some(kernel.into());
    c
}

/// `tpls(class_no)` picks the templates for instruction-level cases (all of them in the
/// exhaustive pass, random ones in the random passes).
fn invalid_corpus(pick: &mut dyn FnMut(&[usize]) -> Vec<usize>) -> Corpus {
    use Expect::*;
    let mut c = Corpus { cases: vec![] };
    const ALL: [usize; 8] = [0, 1, 2, 3, 4, 5, 6, 7];
    const NOKERNEL: [usize; 7] = [0, 1, 2, 3, 4, 5, 7];
    const PROCS: [usize; 6] = [1, 2, 3, 4, 5, 6];

    // --- division by a zero immediate (field_operations.md, u32_operations.md: "Fails if b = 0")
    for op in ["div", "u32div", "u32mod", "u32divmod"] {
        c.instr(&format!("div-zero-imm/{op}"), &format!("{op}.0"), None, Reject, &pick(&ALL));
        c.instr(&format!("div-zero-imm/{op}"), &format!("{op}.1"), None, Accept, &pick(&ALL));
    }
    // --- shift / rotate immediates (u32_operations.md: b > 31 is outside the defined range)
    for op in ["u32shl", "u32shr", "u32rotl", "u32rotr"] {
        for b in ["32", "33", "64", "255", "4294967295"] {
            c.instr(&format!("shift-imm/{op}"), &format!("{op}.{b}"), None, Reject, &pick(&ALL));
        }
        for b in ["31", "1"] {
            c.instr(&format!("shift-imm/{op}"), &format!("{op}.{b}"), None, Accept, &pick(&ALL));
        }
    }
    // --- exp.uXX (field_operations.md: exp is exp.u64, larger bit sizes fail)
    for b in ["65", "66", "128", "255"] {
        c.instr("exp-bits", &format!("exp.u{b}"), None, Reject, &pick(&ALL));
    }
    for b in ["64", "1", "32"] {
        c.instr("exp-bits", &format!("exp.u{b}"), None, Accept, &pick(&ALL));
    }
    // --- push of a non-field value (io_operations.md: "All values must be valid field elements")
    for v in [
        "18446744069414584321",
        "18446744069414584322",
        "18446744073709551615",
        "18446744073709551616",
        "0xffffffff00000001",
        "0xffffffffffffffff",
        "1.18446744069414584321",
        "0x01000000ffffffff000000000000000000000000000000000000000000000000",
    ] {
        c.instr("push-out-of-field", &format!("push.{v}"), None, Reject, &pick(&ALL));
    }
    for v in ["18446744069414584320", "0xffffffff00000000", "1.18446744069414584320", "0x00000000ffffffff000000000000000000000000000000000000000000000000"] {
        c.instr("push-out-of-field", &format!("push.{v}"), None, Accept, &pick(&ALL));
    }
    c.instr("push-too-many", "push.1.2.3.4.5.6.7.8.9.10.11.12.13.14.15.16.17", None, Reject, &pick(&ALL));
    c.instr("push-too-many", "push.1.2.3.4.5.6.7.8.9.10.11.12.13.14.15.16", None, Accept, &pick(&ALL));
    // --- stack manipulation indices (stack_manipulation.md "Valid for n in {...}")
    for (op, bad, good) in [
        ("dup", vec!["16", "17", "255"], vec!["15", "0"]),
        ("dupw", vec!["4", "5"], vec!["3", "0"]),
        ("swap", vec!["16", "17"], vec!["15", "1"]),
        ("swapw", vec!["4", "5"], vec!["3", "1"]),
        ("movup", vec!["1", "16", "17"], vec!["2", "15"]),
        ("movdn", vec!["1", "16", "17"], vec!["2", "15"]),
        ("movupw", vec!["1", "4"], vec!["2", "3"]),
        ("movdnw", vec!["1", "4"], vec!["2", "3"]),
    ] {
        for b in bad {
            c.instr(&format!("stack-index/{op}"), &format!("{op}.{b}"), None, Reject, &pick(&ALL));
        }
        for g in good {
            c.instr(&format!("stack-index/{op}"), &format!("{op}.{g}"), None, Accept, &pick(&ALL));
        }
    }
    for op in ["swap", "swapw", "movup", "movdn", "movupw", "movdnw"] {
        c.instr(&format!("stack-index-zero/{op}"), &format!("{op}.0"), None, Reject, &pick(&ALL));
    }
    // --- adv_push.n valid for n in 1..16 (io_operations.md)
    for n in ["0", "17", "18", "255"] {
        c.instr("adv-push-count", &format!("adv_push.{n}"), None, Reject, &pick(&ALL));
    }
    for n in ["1", "16"] {
        c.instr("adv-push-count", &format!("adv_push.{n}"), None, Accept, &pick(&ALL));
    }
    // --- unknown instructions / malformed parameters
    for i in ["foo", "pusha", "add.1.2", "u32shl.x", "push", "mem_load.x", "exec", "dup.x", "push.0x", "push.-1", "loc_load", "adv_push", "u32wrapping_add.4294967296"] {
        c.instr("unknown-instruction", i, None, Reject, &pick(&ALL));
    }
    c.instr("unknown-instruction", "add.1", None, Accept, &pick(&ALL));
    c.instr("unknown-instruction", "u32wrapping_add.4294967295", None, Accept, &pick(&ALL));
    // --- locals (io_operations.md: "trying to access more locals than was declared will result
    //     in a compile-time error"; "available only in procedure context")
    for op in ["loc_load", "loc_store", "loc_loadw", "loc_storew", "locaddr"] {
        for n in [1u32, 2, 3, 255, 65535] {
            let mut bad = vec![n, n + 1, 65535, 65536];
            bad.retain(|b| *b >= n);
            bad.dedup();
            for b in bad {
                if n == 65535 && b == 65535 {
                    continue;
                }
                c.instr(&format!("local-index/{op}"), &format!("{op}.{b}"), Some(n as u16), Reject, &pick(&PROCS));
            }
            if n == 65535 {
                c.instr(&format!("local-index/{op}"), &format!("{op}.65536"), Some(65535), Reject, &pick(&PROCS));
            }
            c.instr(&format!("local-index/{op}"), &format!("{op}.{}", n - 1), Some(n as u16), Accept, &pick(&PROCS));
            c.instr(&format!("local-index/{op}"), &format!("{op}.0"), Some(n as u16), Accept, &pick(&PROCS));
        }
        for idx in ["0", "1", "65535"] {
            c.instr(&format!("locals-zero/{op}"), &format!("{op}.{idx}"), None, Reject, &pick(&ALL));
            c.instr(&format!("locals-zero/{op}"), &format!("{op}.{idx}"), Some(0), Reject, &pick(&ALL));
        }
        c.instr(&format!("locals-zero/{op}"), &format!("{op}.0"), Some(1), Accept, &pick(&PROCS));
    }
    for n in ["65537", "4294967296"] {
        c.src("num-locals", &format!("proc.p.{n}\n    push.1 drop\nend\nbegin\n    exec.p\nend\n"), Reject);
    }
    c.src("num-locals", "proc.p.65535\n    push.1 drop\nend\nbegin\n    exec.p\nend\n", Accept);
    // --- caller outside a kernel (execution_contexts.md: only kernel procedures can use `caller`)
    c.instr("caller-outside-kernel", "caller", None, Reject, &pick(&NOKERNEL));
    c.instr("caller-outside-kernel", "caller", None, Accept, &[6]);
    // --- call / syscall inside a kernel module (execution_contexts.md)
    let prog = "begin\n    push.1 drop\nend\n";
    for (v, k) in [
        ("call-local", "proc.h\n    push.1 drop\nend\nexport.k\n    call.h\nend\n"),
        ("syscall", "export.k1\n    push.1 drop\nend\nexport.k2\n    syscall.k1\nend\n"),
        ("call-in-if", "proc.h\n    push.1 drop\nend\nexport.k\n    push.1 if.true call.h else push.1 drop end\nend\n"),
        ("call-in-repeat", "proc.h\n    push.1 drop\nend\nexport.k\n    repeat.2 call.h end\nend\n"),
        ("call-in-internal", "proc.h\n    push.1 drop\nend\nproc.g\n    call.h\nend\nexport.k\n    exec.g\nend\n"),
    ] {
        c.whole("call-in-kernel", v, with_kernel(k, prog), Reject);
    }
    {
        let mut cs = with_lib(prog);
        cs.kernel = Some("use.la::m\nexport.k\n    call.m::foo\nend\n".into());
        c.whole("call-in-kernel", "call-imported", cs, Reject);
        let mut cs = with_lib(prog);
        cs.kernel = Some("use.la::m\nexport.k\n    exec.m::foo\nend\n".into());
        c.whole("call-in-kernel", "exec-imported", cs, Accept);
    }
    c.whole("call-in-kernel", "exec-local", with_kernel("proc.h\n    push.1 drop\nend\nexport.k\n    exec.h\nend\n", prog), Accept);
    // --- undefined procedures (code_organization.md)
    for i in ["exec.nope", "call.nope", "procref.nope", "syscall.nope", "exec.m::foo", "call.m::foo", "procref.m::foo"] {
        c.instr("undefined-procedure", i, None, Reject, &pick(&NOKERNEL));
    }
    c.whole("undefined-procedure", "syscall-not-in-kernel", with_kernel("export.k\n    push.1 drop\nend\n", "begin\n    syscall.other\nend\n"), Reject);
    c.whole("undefined-procedure", "syscall-in-kernel", with_kernel("export.k\n    push.1 drop\nend\n", "begin\n    syscall.k\nend\n"), Accept);
    c.whole("undefined-procedure", "syscall-internal-kernel-proc", with_kernel("proc.h\n    push.1 drop\nend\nexport.k\n    exec.h\nend\n", "begin\n    syscall.h\nend\n"), Reject);
    c.src("undefined-procedure", "proc.a\n    exec.b\nend\nproc.b\n    push.1 drop\nend\nbegin\n    exec.a\nend\n", Reject);
    c.src("undefined-procedure", "proc.a\n    exec.a\nend\nbegin\n    exec.a\nend\n", Reject);
    c.src("undefined-procedure", "proc.a\n    call.a\nend\nbegin\n    exec.a\nend\n", Reject);
    c.src("undefined-procedure", "proc.b\n    push.1 drop\nend\nproc.a\n    exec.b\nend\nbegin\n    exec.a\nend\n", Accept);
    for (v, src, e) in [
        ("imported-missing-proc", "use.la::m\nbegin\n    exec.m::nope\nend\n", Reject),
        ("imported-missing-proc-call", "use.la::m\nbegin\n    call.m::nope\nend\n", Reject),
        ("imported-missing-proc-procref", "use.la::m\nbegin\n    procref.m::nope\nend\n", Reject),
        ("imported-internal-proc", "use.la::m\nbegin\n    exec.m::internal\nend\n", Reject),
        ("missing-module", "use.la::other\nbegin\n    exec.other::foo\nend\n", Reject),
        ("missing-library", "use.zz::m\nbegin\n    exec.m::foo\nend\n", Reject),
        ("alias-not-used", "use.la::m->q\nbegin\n    exec.m::foo\nend\n", Reject),
        ("imported-ok", "use.la::m\nbegin\n    exec.m::foo call.m::foo procref.m::foo dropw\nend\n", Accept),
        ("imported-alias-ok", "use.la::m->q\nbegin\n    exec.q::foo\nend\n", Accept),
    ] {
        c.whole("undefined-procedure", v, with_lib(src), e);
    }
    {
        let mut cs = Case::new("use.lb::n\nbegin\n    exec.n::e\nend\n");
        cs.libs = vec![lib1("la", "la::m", LIB_M), lib1("lb", "lb::n", "use.la::m\nexport.e\n    exec.m::nope\nend\n")];
        c.whole("undefined-procedure", "nested-import-missing-proc", cs, Reject);
        let mut cs = Case::new("use.lb::n\nbegin\n    exec.n::nope\nend\n");
        cs.libs = vec![lib1("la", "la::m", LIB_M), lib1("lb", "lb::n", "use.la::m\nexport.m::nope\n")];
        c.whole("undefined-procedure", "re-export-of-missing-proc", cs, Reject);
    }
    // --- duplicate procedure names
    c.src("duplicate-procedure", "proc.f\n    push.1 drop\nend\nproc.f\n    push.2 drop\nend\nbegin\n    exec.f\nend\n", Reject);
    c.src("duplicate-procedure", "proc.f\n    push.1 drop\nend\nproc.f\n    push.1 drop\nend\nbegin\n    exec.f\nend\n", Reject);
    c.src("duplicate-procedure", "proc.f\n    push.1 drop\nend\nproc.g\n    push.1 drop\nend\nbegin\n    exec.f exec.g\nend\n", Accept);
    for (v, m) in [
        ("library-export-export", "export.f\n    push.1 drop\nend\nexport.f\n    push.2 drop\nend\n"),
        ("library-proc-export", "proc.f\n    push.1 drop\nend\nexport.f\n    push.2 drop\nend\n"),
    ] {
        let mut cs = Case::new("use.la::d\nbegin\n    exec.d::f\nend\n");
        cs.libs = vec![lib1("la", "la::d", m)];
        c.whole("duplicate-procedure", v, cs, Reject);
    }
    c.whole("duplicate-procedure", "kernel", with_kernel("export.k\n    push.1 drop\nend\nexport.k\n    push.2 drop\nend\n", "begin\n    syscall.k\nend\n"), Reject);
    // --- export in an executable module ("A program cannot contain any exported procedures")
    c.src("export-in-executable", "export.f\n    push.1 drop\nend\nbegin\n    exec.f\nend\n", Reject);
    c.src("export-in-executable", "export.f\n    push.1 drop\nend\nbegin\n    push.1 drop\nend\n", Reject);
    c.src("export-in-executable", "proc.g\n    push.1 drop\nend\nexport.f\n    exec.g\nend\nbegin\n    exec.g\nend\n", Reject);
    c.whole("export-in-executable", "re-export", with_lib("use.la::m\nexport.m::foo\nbegin\n    push.1 drop\nend\n"), Reject);
    // --- repeat.<count>: "count must be an integer ... greater than 0" (flow_control.md)
    for body in ["push.1 drop", "push.1"] {
        c.instr("repeat.0", &format!("repeat.0 {body} end"), None, Reject, &pick(&ALL));
        c.instr("repeat.0", &format!("repeat.1 {body} end"), None, Accept, &pick(&ALL));
    }
    // --- block structure
    for src in [
        "begin\n    push.1 drop\n",
        "begin\n    push.1 if.true push.2 drop end\n",
        "begin\n    push.1 if.true push.2 drop else push.3 drop end\n",
        "begin\n    repeat.2 push.1 drop\nend\n",
        "begin\n    push.0 while.true push.0 end\n",
        "proc.f\n    push.1 drop\nbegin\n    exec.f\nend\n",
        "proc.f\n    push.1 drop\nend\n",
        "",
        "begin\n    push.1 drop\nend\nend\n",
        "begin\n    else push.1 drop end\nend\n",
        "begin\n    push.1 drop\nend\nbegin\n    push.1 drop\nend\n",
        "begin\n    push.1 drop\nend\nproc.f\n    push.1 drop\nend\n",
        "begin\n    push.1 drop\nend\npush.1\n",
        "begin\n    proc.f push.1 drop end\nend\n",
        "begin\n    push.1 if.false push.2 drop end\nend\n",
        "begin\n    push.1 while.false push.0 end\nend\n",
        "begin\n    #! doc comment inside a body\n    push.1 drop\nend\n",
    ] {
        c.src("block-structure", src, Reject);
    }
    c.src("block-structure", "# comment\nproc.f\n    push.1 drop\nend\nbegin\n    exec.f\nend\n# trailing comment\n", Accept);
    // --- labels and constants (code_organization.md)
    let l100 = "a".repeat(100);
    let l101 = "a".repeat(101);
    let c100 = "A".repeat(100);
    let c101 = "A".repeat(101);
    let l256 = "a".repeat(256);
    let c256 = "A".repeat(256);
    for (cl, src, e) in [
        ("label/syntax", "proc.1abc\n    push.1 drop\nend\nbegin\n    exec.1abc\nend\n".to_string(), Reject),
        ("label/syntax", "proc._abc\n    push.1 drop\nend\nbegin\n    exec._abc\nend\n".to_string(), Reject),
        ("label/syntax", "proc.a-b\n    push.1 drop\nend\nbegin\n    exec.a-b\nend\n".to_string(), Reject),
        ("label/length-101", format!("proc.{l101}\n    push.1 drop\nend\nbegin\n    exec.{l101}\nend\n"), Reject),
        ("label/length-256", format!("proc.{l256}\n    push.1 drop\nend\nbegin\n    exec.{l256}\nend\n"), Reject),
        ("label/length-101", format!("proc.{l100}\n    push.1 drop\nend\nbegin\n    exec.{l100}\nend\n"), Accept),
        ("label/syntax", "proc.aB_9\n    push.1 drop\nend\nbegin\n    exec.aB_9\nend\n".to_string(), Accept),
    ] {
        c.src(cl, &src, e);
    }
    for (cl, src, e) in [
        ("constant/name", "const.abc=1\nbegin\n    push.abc drop\nend\n".to_string(), Reject),
        ("constant/value", "const.A=18446744069414584321\nbegin\n    push.A drop\nend\n".to_string(), Reject),
        ("constant/value", "const.A=18446744073709551616\nbegin\n    push.A drop\nend\n".to_string(), Reject),
        ("constant/name-length-101", format!("const.{c101}=1\nbegin\n    push.{c101} drop\nend\n"), Reject),
        ("constant/name-length-256", format!("const.{c256}=1\nbegin\n    push.{c256} drop\nend\n"), Reject),
        ("constant/duplicate", "const.A=1\nconst.A=2\nbegin\n    push.A drop\nend\n".to_string(), Reject),
        ("constant/undefined", "begin\n    push.UNDEFINED drop\nend\n".to_string(), Reject),
        ("constant/position", "proc.f\n    push.1 drop\nend\nconst.A=1\nbegin\n    push.A drop\nend\n".to_string(), Reject),
        ("constant/name-length-101", format!("const.{c100}=1\nbegin\n    push.{c100} drop\nend\n"), Accept),
        ("constant/value", "const.A=18446744069414584320\nconst.B_2=A-1\nbegin\n    push.A.B_2 drop drop\nend\n".to_string(), Accept),
    ] {
        c.src(cl, &src, e);
    }
    // --- documented parameter ranges of decorators / error codes (debugging.md, events.md, ...)
    for (i, e) in [
        ("debug.stack.0", Reject),
        ("debug.stack.256", Reject),
        ("debug.stack.1", Accept),
        ("debug.stack.255", Accept),
        ("debug.local.65536", Reject),
        ("debug.local.0.65536", Reject),
        ("debug.local.3.2", Reject),
        ("debug.mem.5.4", Reject),
        ("debug.mem.4294967296", Reject),
        ("debug.mem.4.4", Accept),
        ("debug.local.65535", Accept),
        ("emit.4294967296", Reject),
        ("emit.4294967295", Accept),
        ("trace.4294967296", Reject),
        ("trace.4294967295", Accept),
        ("adv.insert_hdword.256", Reject),
        ("adv.insert_hdword.255", Accept),
        ("assert.err=4294967296", Reject),
        ("assert.err=4294967295", Accept),
        ("u32assert.err=4294967296", Reject),
        ("adv.push_mapval.5", NoPanic),
        ("adv.push_sig.unknown_scheme", Reject),
    ] {
        for dm in [false, true] {
            if let Some(mut cs) = tpl(7, i, None) {
                cs.debug_mode = dm;
                let cut = i.char_indices().find(|(k, ch)| *ch == '=' || (*ch == '.' && i[k + 1..].starts_with(|d: char| d.is_ascii_digit()))).map(|(k, _)| k).unwrap_or(i.len());
                let base = i[..cut].to_string();
                c.cases.push(InvCase { class: format!("decorator-parameter/{base}"), variant: format!("{i} [debug_mode={dm}]"), tpl: TPL_NAMES[7], case: cs, expect: e });
            }
        }
    }
    // --- decorator-only bodies: VALID per the docs (decorators are instructions) => no panic
    for i in ["emit.1", "trace.1", "adv.push_mapval", "adv.insert_mem", "adv.push_u64div", "debug.stack", "emit.1 trace.2 adv.push_mapvaln"] {
        for dm in [false, true] {
            for t in pick(&ALL) {
                if let Some(mut cs) = tpl(t, i, None) {
                    if t == 7 {
                        continue;
                    }
                    cs.debug_mode = dm;
                    c.cases.push(InvCase { class: "decorator-only-body".into(), variant: format!("{i} [debug_mode={dm}]"), tpl: TPL_NAMES[t], case: cs, expect: NoPanic });
                }
            }
        }
    }
    for (src, dm) in [
        ("begin\n    push.1 if.true trace.1 else debug.stack end\nend\n", false),
        ("begin\n    push.1 if.true trace.1 else debug.stack end\nend\n", true),
        ("begin\n    push.1 if.true push.1 drop else emit.3 end\nend\n", false),
        ("begin\n    push.1 if.true emit.3 end\nend\n", false),
        ("proc.p\n    adv.push_mapval\nend\nbegin\n    exec.p\nend\n", false),
        ("proc.p\n    adv.push_mapval\nend\nbegin\n    call.p\nend\n", false),
        ("proc.p.2\n    emit.1\nend\nbegin\n    exec.p\nend\n", false),
        ("begin\n    push.1 drop repeat.2 emit.1 end\nend\n", false),
        ("begin\n    push.1 drop emit.1\nend\n", false),
        ("begin\n    emit.1 push.1 drop\nend\n", false),
        ("begin\n    debug.stack\nend\n", false),
        ("begin\n    debug.stack debug.mem\nend\n", true),
    ] {
        let mut cs = Case::new(src);
        cs.debug_mode = dm;
        c.whole("decorator-only-body", &format!("{src} [debug_mode={dm}]"), cs, NoPanic);
    }
    // --- empty bodies: not specified by the docs => no panic
    for src in ["begin\nend\n", "proc.f\nend\nbegin\n    exec.f\nend\n", "begin\n    push.1 if.true end\nend\n", "begin\n    repeat.3 end\nend\n", "begin\n    push.0 while.true end\nend\n", "begin\n    push.1 if.true push.1 drop else end\nend\n"] {
        c.src("empty-body", src, NoPanic);
    }
    c
}

/// all five local-memory instructions share one address computation: one finding, not five
fn sig_class(class: &str) -> &str {
    if class.starts_with("locals-zero/") {
        "locals-zero"
    } else if class.starts_with("local-index/") {
        "local-index"
    } else {
        class
    }
}

fn eval_invalid(ic: &InvCase, rep: &mut Report) {
    rep.eval(&format!("invalid|{}|{}|{:?}", ic.class, ic.tpl, ic.expect));
    rep.count("invalid_class", &format!("{}:{}", ic.class, match ic.expect { Expect::Reject => "reject", Expect::NoPanic => "no-panic", Expect::Accept => "control" }));
    rep.count("invalid_template", ic.tpl);
    let wit = || json!({"kind": "invalid", "class": ic.class, "variant": ic.variant, "template": ic.tpl, "expect": format!("{:?}", ic.expect), "case": ic.case.to_json()});
    let out = ic.case.assemble();
    let oc = match &out {
        AsmOutcome::Ok(_) => "ok",
        AsmOutcome::Err(_) => "err",
        AsmOutcome::Panic(_) => "panic",
    };
    rep.count("invalid_outcome", &format!("{:?}:{oc}", ic.expect));
    match (ic.expect, out) {
        (Expect::Reject, AsmOutcome::Err(_)) | (Expect::Accept, AsmOutcome::Ok(_)) => {}
        (Expect::NoPanic, AsmOutcome::Ok(_)) | (Expect::NoPanic, AsmOutcome::Err(_)) => {
            rep.count("unspecified_outcome", &format!("{}:{oc}", ic.class));
        }
        (Expect::Reject, AsmOutcome::Ok(_)) => {
            rep.count("invalid_accepted_variants", &format!("{} :: {}", ic.class, truncate(&ic.variant.replace('\n', " "), 70)));
            rep.violation(
            format!("invalid-accepted/{}", sig_class(&ic.class)),
            format!("`{}` ({} context) is documented as invalid but assembles", truncate(&ic.variant, 120), ic.tpl),
            wit(),
        )}
        (Expect::Reject, AsmOutcome::Panic(p)) => {
            rep.count("invalid_panic_variants", &format!("{} :: {}", ic.class, truncate(&ic.variant.replace('\n', " "), 70)));
            rep.violation(
            format!("invalid-panic/{}/{}", sig_class(&ic.class), p.site()),
            format!("`{}` ({} context) must be rejected with an error but the assembler panics: {} at {}", truncate(&ic.variant, 120), ic.tpl, p.message, p.location),
            wit(),
        )}
        (Expect::NoPanic, AsmOutcome::Panic(p)) => rep.violation(
            format!("panic/{}/{}", ic.class, p.site()),
            format!("`{}` ({} context) panics the assembler: {} at {}", truncate(&ic.variant, 120), ic.tpl, p.message, p.location),
            wit(),
        ),
        (Expect::Accept, AsmOutcome::Err(e)) => {
            // a control that does not assemble means the corpus entry is wrong, not the assembler
            rep.count("control_rejected", &format!("{} / {} / {}", ic.class, truncate(&ic.variant, 60), truncate(&e, 80)));
            rep.inconclusive(format!("invalid-corpus-control-rejected:{}", ic.class));
        }
        (Expect::Accept, AsmOutcome::Panic(p)) => rep.violation(
            format!("panic/compile/{}", p.site()),
            format!("valid control `{}` ({} context) panics the assembler: {}", truncate(&ic.variant, 120), ic.tpl, p.message),
            wit(),
        ),
    }
}

// MODULE INTERFACE
// ================================================================================================

pub fn meta() -> Meta {
    Meta {
        level: "exploration",
        rule: "history: one evaluation = one program of a random compile sequence on ONE assembler instance (generated universe of 2-4 libraries / 3-7 modules forming an import DAG with aliases, re-exports, shared MAST roots, literal-hash vs procref procedures, optional kernel) compared against the same source compiled on a FRESH instance: outcome, program hash, printed MAST, kernel, code-block-table membership of every universe root + full table dump, presence of every statically referenced call/syscall/procref target (MAST walk through the table + model of the sources), and the result of executing both programs; each step counts twice (cold, warm); distinct = distinct (cache-state class of the step, set of invocation kind x locality in the program source). order: one evaluation = one (program, permutation of with_library order) vs order 0..n. re-export: one evaluation = one re-exported procedure vs its original (exec root, call program + table). invalid: one evaluation = one (rejection class from docs/src/user_docs/assembly, boundary variant, syntactic context) assembled in this build; distinct = (class, context, expectation)".into(),
        assumptions: vec![
            "MAST roots used by the model are obtained from fresh assembler instances (`begin exec.p end`), i.e. a cold single compilation is trusted for root hashes (not for call sets)".into(),
            "rejection classes and their boundaries are taken from the user docs; where the docs leave behaviour open (empty bodies, decorator-only bodies are valid) only 'no panic' is required".into(),
            "code block tables cannot be enumerated through the public API: membership is probed for every root of the universe and the Debug dump is compared".into(),
        ],
    }
}

fn all_templates(avail: &[usize]) -> Vec<usize> {
    avail.to_vec()
}

pub fn run(cfg: &Cfg) -> Report {
    let shards = 64;
    let universes = cfg.n(48, 1500);
    let reports = par_map(shards, |sh| {
        let mut rng = rng_for(cfg.seed, "C11", sh as u64);
        let mut rep = Report::new();
        let t0 = std::time::Instant::now();
        // invalid corpus: shard 0 = every class x variant x context, others = random contexts
        if sh == 0 {
            directed(&mut rep);
            let corpus = invalid_corpus(&mut all_templates);
            for ic in &corpus.cases {
                eval_invalid(ic, &mut rep);
            }
            if let Some(ic) = corpus.cases.iter().find(|c| c.expect == Expect::Reject) {
                rep.sample(json!({"kind": "invalid", "class": ic.class, "template": ic.tpl, "src": ic.case.src}));
            }
        } else if sh % 8 == 1 {
            let mut r2 = rng_for(cfg.seed, "C11-corpus", sh as u64);
            let mut pick = |avail: &[usize]| -> Vec<usize> { vec![avail[r2.gen_range(0..avail.len())]] };
            let corpus = invalid_corpus(&mut pick);
            for ic in &corpus.cases {
                eval_invalid(ic, &mut rep);
            }
        }
        for _ in 0..universes {
            if let Some(u) = gen_universe(&mut rng, &mut rep) {
                let n_seqs = rng.gen_range(2..=3);
                history_for_universe(&mut rng, &u, n_seqs, &mut rep);
            }
        }
        if std::env::var("VERIF_C11_TIMING").is_ok() {
            eprintln!("shard {sh}: {:.2}s", t0.elapsed().as_secs_f64());
        }
        rep
    });
    let mut rep = merge_all(reports);
    for (site, msg, src, world) in PROBE_PANICS.lock().unwrap().drain(..) {
        let mut w = world;
        w["kind"] = json!("probe");
        w["program"] = json!(src);
        rep.violation(format!("panic/probe/{site}"), format!("assembler panicked compiling `{}`: {msg}", src.replace('\n', " ")), w);
    }
    // floors
    for k in KINDS {
        rep.floor(rep.get_count("kind_cold", k) >= 20, &format!("{k}-compiled-cold"));
        rep.floor(rep.get_count("kind_warm", k) >= 20, &format!("{k}-compiled-warm"));
    }
    for c in ["warm-same-module", "warm-different-module-equal-root", "warm-uncached"] {
        rep.floor(rep.get_count("cache_class", c) >= 10, &format!("cache-class-{c}"));
    }
    for k in ["exec", "call", "procref", "dynexec", "dyncall"] {
        for l in ["local", "imported", "re-exported"] {
            rep.floor(rep.get_count("coverage", &format!("cold/{k}/{l}")) >= 1, &format!("{k}-{l}"));
        }
    }
    let classes: BTreeSet<String> = invalid_corpus(&mut all_templates).cases.iter().map(|c| format!("{}:{}", c.class, match c.expect { Expect::Reject => "reject", Expect::NoPanic => "no-panic", Expect::Accept => "control" })).collect();
    for c in &classes {
        rep.floor(rep.get_count("invalid_class", c) >= 1, &format!("invalid-class-{c}"));
    }
    let ok_exec = rep.get_count("exec_outcome", "cold:ok");
    rep.floor(ok_exec >= 200, "at-least-200-successful-executions");
    rep.floor(rep.get_count("library_order", "libs=2") + rep.get_count("library_order", "libs=3") + rep.get_count("library_order", "libs=4") >= 100, "library-order-permutations");
    rep.floor(rep.get_count("re_export", "exec") >= 20 && rep.get_count("re_export", "call") >= 10, "re-exports");
    // the generator must produce valid, stack-neutral programs and a consistent model
    let rejected = rep.get_count("harness", "generated-program-rejected");
    let compiled = rep.get_count("compile_outcome", "cold:ok/warm:ok");
    rep.floor(rejected * 50 <= compiled.max(1), "generated-programs-compile");
    rep.floor(rep.get_count("model_consistency", "gap") == 0, "model-predicts-every-call-target");
    rep.floor(rep.get_count("stack_neutral", "no") == 0, "generated-programs-stack-neutral");
    rep.floor(rep.get_count("legit_dynamic_miss", "cold") >= 1, "dynamic-miss-observable");
    rep
}

pub fn replay(v: &Value, rep: &mut Report) {
    match v.get("kind").and_then(|k| k.as_str()).unwrap_or("") {
        "history" => {
            let Some(world) = World::from_json(v) else { return };
            let Ok(built) = world.build() else { return };
            let items: Vec<SeqItem> = v.get("sequence").and_then(|s| s.as_array()).map(|a| a.iter().filter_map(SeqItem::from_json).collect()).unwrap_or_default();
            if items.is_empty() {
                return;
            }
            let idx = v.get("index").and_then(|i| i.as_u64()).map(|i| i as usize).unwrap_or(items.len() - 1).min(items.len() - 1);
            let seq: Vec<&SeqItem> = items.iter().collect();
            let mut roots: BTreeSet<W> = BTreeSet::new();
            for it in &items {
                roots.extend(it.needed.keys().copied());
                roots.extend(it.dynk.keys().copied());
            }
            rep.eval("replay|history");
            run_sequence(&world, &built, &seq, Some(idx), &roots, rep);
        }
        "order" => {
            let Some(world) = World::from_json(v) else { return };
            let Ok(built) = world.build() else { return };
            let src = v.get("src").and_then(|s| s.as_str()).unwrap_or("");
            let perm: Vec<usize> = v.get("perm").and_then(|p| p.as_array()).map(|a| a.iter().filter_map(|x| x.as_u64().map(|x| x as usize)).collect()).unwrap_or_default();
            if perm.len() != built.len() || perm.iter().any(|i| *i >= built.len()) {
                return;
            }
            rep.eval("replay|order");
            if let Built::Ok(a) = fresh(&world, &built, &identity(built.len())) {
                let base = fingerprint(&compile(&a, src));
                order_one(&world, &built, src, &perm, &base, rep);
            }
        }
        "reexport" => {
            let Some(world) = World::from_json(v) else { return };
            let Ok(built) = world.build() else { return };
            let (via, direct) = (v.get("via").and_then(|s| s.as_str()).unwrap_or(""), v.get("direct").and_then(|s| s.as_str()).unwrap_or(""));
            rep.eval("replay|reexport");
            if via.contains("call.") {
                check_reexport_call(&world, &built, via, direct, rep);
            } else if fresh_hash(&world, &built, via) != fresh_hash(&world, &built, direct) {
                rep.violation("re-export/root-mismatch/exec", "re-exported procedure compiles to a different MAST root", v.clone());
            }
        }
        "probe" => {
            let Some(world) = World::from_json(v) else { return };
            let Ok(built) = world.build() else { return };
            let src = v.get("program").and_then(|s| s.as_str()).unwrap_or("");
            rep.eval("replay|probe");
            if let Built::Ok(a) = fresh(&world, &built, &identity(built.len())) {
                if let Comp::Panic(pi) = compile(&a, src) {
                    rep.violation(format!("panic/root-probe/{}", pi.site()), format!("assembler panicked: {}", pi.message), v.clone());
                }
            }
        }
        "invalid" => {
            let Some(case) = v.get("case").and_then(Case::from_json) else { return };
            let expect = match v.get("expect").and_then(|e| e.as_str()).unwrap_or("") {
                "Reject" => Expect::Reject,
                "Accept" => Expect::Accept,
                _ => Expect::NoPanic,
            };
            let tplname = v.get("template").and_then(|t| t.as_str()).unwrap_or("");
            let tpl = TPL_NAMES.iter().copied().find(|n| *n == tplname).unwrap_or("whole-source");
            let ic = InvCase {
                class: v.get("class").and_then(|c| c.as_str()).unwrap_or("").to_string(),
                variant: v.get("variant").and_then(|c| c.as_str()).unwrap_or("").to_string(),
                tpl,
                case,
                expect,
            };
            eval_invalid(&ic, rep);
        }
        _ => {}
    }
}
