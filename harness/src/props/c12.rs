//! C12 — all lookups between trace components balance.
//!
//! T-bus: challenge-free multiset recount of requests vs. responses on the main trace (tbus.rs).
//! T-aux: the seven real auxiliary columns, built by the real `build_aux_segment` for random
//! challenges, must start and end at their specified values.

use crate::case::{AsmOutcome, Case, ExecOutcome};
use crate::gen::{gen_case, tree_info, GenCfg};
use crate::props::c03::{rand_quad, Quad};
use crate::report::{merge_all, Cfg, Meta, Report};
use crate::tbus::check_buses;
use crate::tview::*;
use crate::util::{catch, par_map, rng_for, Rng8, P};
use processor::ExecutionTrace;
use rand::Rng;
use serde_json::json;
use vm_core::{ExtensionOf, Felt, FieldElement, StarkField};
use winter_prover::Trace;

pub fn meta() -> Meta {
    Meta {
        level: "exploration",
        rule: "each evaluation = one successful execution whose main trace was recounted by T-bus (every memory / bitwise / kernel-ROM / hasher request of decoder and stack rows matched as a tuple against the chiplet rows, range-check requests against the range table multiplicities) and whose 7 aux columns (real build_aux_segment, 2 random challenge vectors) were checked at the first and last row against their specified values; distinct = distinct (program feature class, set of bus message kinds present)".into(),
        assumptions: vec![
            "message tuple formats are taken from docs/src/design; the RESPAN absorb message is compared as 'absorbed batch = rate of the next hasher row'".into(),
            "aux columns are not constrained by the AIR of this version (except b_range and the stack overflow column), so T-aux judges the column builders only".into(),
        ],
    }
}

const AUX_NAMES: [&str; 7] = ["dec_p1", "dec_p2", "dec_p3", "stack_p1", "b_range", "vt_chip", "b_chip"];

/// Features of a trace that matter for the aux-column builders (used to name T-aux findings).
pub fn features(tv: &TV, kernel_procs: usize) -> Vec<&'static str> {
    let mut f = vec![];
    let mut has = |name: &str| (0..tv.cycles).any(|r| crate::tair::op_name(tv.op(r)) == name);
    if has("RESPAN") {
        f.push("respan");
    }
    if has("PIPE") {
        f.push("pipe");
    }
    if has("DYN") {
        f.push("dyn");
    }
    if has("CALL") {
        f.push("call");
    }
    if has("SYSCALL") {
        f.push("syscall");
    }
    if kernel_procs >= 1 {
        f.push(if kernel_procs >= 2 { "kernel>=2" } else { "kernel=1" });
    }
    f
}

pub fn check_trace(case: &Case, trace: &mut ExecutionTrace, class: &str, rng: &mut Rng8, rep: &mut Report) {
    let kernel_procs = trace.program_info().kernel().proc_hashes().len();
    let kernel: Vec<[u64; 4]> = trace
        .program_info()
        .kernel()
        .proc_hashes()
        .iter()
        .map(|d| {
            let w: [Felt; 4] = (*d).into();
            [w[0].as_int(), w[1].as_int(), w[2].as_int(), w[3].as_int()]
        })
        .collect();
    let prog_hash: [Felt; 4] = (*trace.program_hash()).into();
    let len = trace.length();
    // ---- T-bus
    let mut bus_unbalanced = false;
    let (feats, kinds, msgs) = {
        let tv = TV::new(trace);
        let (unmatched, stats, msgs) = crate::tbus::check_buses_full(&tv);
        for (k, n) in &stats.kinds {
            rep.count_n("bus_requests", k, *n);
        }
        bus_unbalanced = unmatched.iter().any(|u| u.relation != "range");
        for u in unmatched.iter().take(12) {
            rep.violation(
                u.sig(),
                format!("{} {} {} at row {}: tuple {:?} has no counterpart", u.relation, u.side, u.kind, u.row, u.tuple),
                json!({"kind": "case", "case": case.to_json(), "row": u.row}),
            );
        }
        let mut kinds: Vec<String> = stats.kinds.keys().cloned().collect();
        kinds.sort();
        (features(&tv, kernel_procs), kinds, msgs)
    };
    rep.eval(&format!("{class}|{}", kinds.join(",")));
    rep.count("class", class);
    // ---- T-aux
    for _ in 0..2 {
        let a: Vec<Quad> = rand_quad(rng);
        let aux = match catch(|| trace.build_aux_segment::<Quad>(&[], &a)) {
            Ok(Some(x)) => x,
            Ok(None) => continue,
            Err(p) => {
                rep.violation(format!("aux-build-panic/{}", p.site()), p.message, json!({"kind": "case", "case": case.to_json()}));
                return;
            }
        };
        let last = len - 2;
        // expected terminal values
        let mut expect_first = [Quad::ONE; 7];
        let mut expect_last = [Quad::ONE; 7];
        // block hash table starts with the row of the program's root block: (parent 0, hash, 0, 0)
        expect_first[1] = a[0] + a[2].mul_base(prog_hash[0]) + a[3].mul_base(prog_hash[1]) + a[4].mul_base(prog_hash[2]) + a[5].mul_base(prog_hash[3]);
        // chiplets virtual table ends with one row per kernel procedure: (idx, root)
        let mut vt = Quad::ONE;
        for (i, k) in kernel.iter().enumerate() {
            vt *= a[0]
                + a[1].mul_base(Felt::new(i as u64))
                + a[2].mul_base(Felt::new(k[0]))
                + a[3].mul_base(Felt::new(k[1]))
                + a[4].mul_base(Felt::new(k[2]))
                + a[5].mul_base(Felt::new(k[3]));
        }
        expect_last[5] = vt;
        // row-level attribution (taux.rs): which operation / table event makes a column deviate
        let mut findings = vec![];
        let absorb_skipped;
        {
            let tv = TV::new(trace);
            absorb_skipped = crate::taux::check_b_chip(&tv, &aux, &a, &msgs, &mut findings);
            crate::taux::check_decoder_tables(&tv, &aux, &mut findings);
            crate::taux::check_vt_chip(&tv, &aux, &a, &kernel, &mut findings);
        }
        let mut attributed = [false; 7];
        // an imbalance of the main trace itself (reported by T-bus) explains a wrong b_chip terminal
        attributed[6] = bus_unbalanced;
        for f in &findings {
            for (c, n) in AUX_NAMES.iter().enumerate() {
                if f.sig.starts_with(n) {
                    attributed[c] = true;
                }
            }
            rep.violation(f.sig.clone(), f.what.clone(), json!({"kind": "case", "case": case.to_json(), "row": f.row}));
        }
        for c in [0usize, 1, 2, 5, 6] {
            rep.count("aux_checked", AUX_NAMES[c]);
            let first_ok = aux.get(c, 0) == expect_first[c];
            let last_ok = aux.get(c, last) == expect_last[c];
            if !first_ok {
                rep.violation(
                    format!("aux-initial/{}", AUX_NAMES[c]),
                    format!("{} does not start at its specified value", AUX_NAMES[c]),
                    json!({"kind": "case", "case": case.to_json()}),
                );
            }
            if !last_ok && !attributed[c] && c == 6 && absorb_skipped {
                // the only rows that could not be analysed in isolation carry RESPAN absorb messages
                rep.violation(
                    "b_chip/absorb-pair-unbalanced@RESPAN".to_string(),
                    "b_chip terminal value wrong; the unanalysed rows carry RESPAN absorb messages".to_string(),
                    json!({"kind": "case", "case": case.to_json()}),
                );
            } else if !last_ok && !attributed[c] {
                // terminal value wrong although every row-level check passed
                let tag = if feats.is_empty() { "plain".to_string() } else { feats.join("+") };
                rep.violation(
                    format!("aux-terminal-unattributed/{}", AUX_NAMES[c]),
                    format!("{} does not reach its specified terminal value and no row-level check explains it (program features: {tag})", AUX_NAMES[c]),
                    json!({"kind": "case", "case": case.to_json()}),
                );
            }
            if last_ok {
                rep.count("aux_terminal_ok", AUX_NAMES[c]);
            } else {
                rep.count("aux_terminal_wrong", AUX_NAMES[c]);
            }
        }
    }
    let _ = P;
}

/// Programs aimed at one talker each.
pub fn feature_case(rng: &mut Rng8, which: usize) -> (String, Case) {
    let f = |rng: &mut Rng8| rng.gen::<u64>() % P;
    let u = |rng: &mut Rng8| rng.gen::<u32>() as u64;
    let names = ["plain", "mem", "mem-stream", "pipe", "hperm", "bitwise", "u32-range", "respan", "loop", "split", "call", "syscall1", "syscall3-unused", "dynexec", "dyncall", "mtree", "deep", "locals", "rcomb", "nested-calls"];
    let name = names[which % names.len()];
    let mut c = Case::default();
    match name {
        "plain" => c.src = format!("begin push.{} push.{} add mul swap drop end", f(rng), f(rng)),
        "mem" => {
            let a = rng.gen_range(0..4u64);
            c.src = format!("begin push.{} mem_store.{a} mem_load.{a} padw mem_loadw.{} push.1.2.3.4 mem_storew.{a} dropw mem_load.{} push.{} mem_load drop drop drop dropw end", f(rng), a + 1, a, a)
        }
        "mem-stream" => c.src = format!("begin push.1.2.3.4 mem_storew.10 dropw push.5.6.7.8 mem_storew.11 dropw push.10 padw padw padw mem_stream hperm mem_stream dropw dropw dropw drop end"),
        "pipe" => {
            c.advice_stack = (0..16).map(|_| f(rng)).collect();
            c.src = "begin push.20 padw padw padw adv_pipe hperm adv_pipe dropw dropw dropw drop mem_load.21 drop end".into()
        }
        "hperm" => c.src = format!("begin push.{}.{}.{}.{} hperm hmerge push.{} hperm hash dropw end", f(rng), f(rng), f(rng), f(rng), f(rng)),
        "bitwise" => c.src = format!("begin push.{} push.{} u32and push.{} u32xor push.{} u32or push.{} u32not u32popcnt drop end", u(rng), u(rng), u(rng), u(rng), u(rng)),
        "u32-range" => c.src = format!("begin push.{} push.{} u32wrapping_add push.{} u32overflowing_mul drop push.{} u32split drop u32divmod.7 drop drop push.{} u32assert drop end", u(rng), u(rng), u(rng), f(rng), u(rng)),
        "respan" => {
            let n = rng.gen_range(70..300);
            let body: String = (0..n).map(|i| if i % 3 == 0 { format!("push.{} ", f(rng)) } else { "add ".to_string() }).collect();
            c.src = format!("begin {body} end")
        }
        "loop" => c.src = format!("begin push.{} dup.0 neq.0 while.true sub.1 dup.0 neq.0 end drop end", rng.gen_range(0..6)),
        "split" => c.src = format!("begin push.{} if.true push.3 else push.4 push.5 add end drop end", rng.gen_range(0..2)),
        "call" => c.src = "proc.f push.7 add end begin call.f push.2 mul call.f end".into(),
        "syscall1" => {
            c.kernel = Some("export.k0 push.3 add end".into());
            c.src = "begin syscall.k0 syscall.k0 end".into()
        }
        "syscall3-unused" => {
            c.kernel = Some("export.k0 push.3 add end export.k1 push.4 mul end export.k2 push.5 drop end".into());
            c.src = if rng.gen_bool(0.5) { "begin syscall.k1 end".into() } else { "begin push.1 drop end".into() }
        }
        "dynexec" => c.src = "proc.f push.7 add end begin procref.f dynexec dropw end".into(),
        "dyncall" => c.src = "proc.f push.7 drop end begin procref.f dyncall dropw end".into(),
        "mtree" => {
            let d = rng.gen_range(1..5usize);
            let leaves: Vec<[u64; 4]> = (0..1usize << d).map(|_| [f(rng), f(rng), f(rng), f(rng)]).collect();
            let (depth, root) = tree_info(&leaves);
            let i = rng.gen_range(0..leaves.len());
            let nv = [f(rng), f(rng), f(rng), f(rng)];
            c.merkle_trees = vec![leaves];
            c.src = format!(
                "begin push.{}.{}.{}.{} push.{i} push.{depth} mtree_get dropw push.{}.{}.{}.{} swapw push.{i} push.{depth} mtree_set dropw dropw end",
                root[0], root[1], root[2], root[3], nv[0], nv[1], nv[2], nv[3]
            )
        }
        "deep" => {
            c.stack = (0..rng.gen_range(17..40)).map(|_| f(rng)).collect();
            c.src = "begin push.1 push.2 push.3 swap drop add movup.9 end".into()
        }
        "locals" => c.src = "proc.f.2 push.5 loc_store.0 push.1.2.3.4 loc_storew.1 dropw loc_load.0 padw loc_loadw.1 dropw drop end begin exec.f exec.f end".into(),
        "rcomb" => c.src = "begin padw padw padw push.1000 push.1001 push.1002 movdn.14 movdn.14 movdn.14 rcomb_base rcomb_base dropw dropw dropw end".into(),
        _ => {
            c.kernel = Some("export.k0 push.3 add end".into());
            c.src = "proc.g push.1 add syscall.k0 end proc.f call.g push.2 add end begin call.f call.g end".into()
        }
    }
    (name.to_string(), c)
}

pub fn run_case(case: &Case, class: &str, rng: &mut Rng8, rep: &mut Report) {
    let prog = match case.assemble() {
        AsmOutcome::Ok(p) => p,
        _ => {
            rep.count("outcome", &format!("asm-fail:{class}"));
            return;
        }
    };
    let mut trace = match case.execute(&prog) {
        ExecOutcome::Ok(t) => t,
        other => {
            rep.count("outcome", &format!("{}:{class}", other.class()));
            return;
        }
    };
    rep.count("outcome", "ok");
    check_trace(case, &mut trace, class, rng, rep);
    if rep.samples.len() < 3 {
        rep.sample(json!({"class": class, "src": crate::report::truncate(&case.src, 200), "trace_len": trace.length()}));
    }
}

pub fn run(cfg: &Cfg) -> Report {
    let shards = 64;
    let per = cfg.n(1500, 30000);
    let reports = par_map(shards, |sh| {
        let mut rng = rng_for(cfg.seed, "C12", sh as u64);
        let mut rep = Report::new();
        for i in 0..per {
            if i % 2 == 0 {
                let (name, case) = feature_case(&mut rng, sh + i / 2);
                run_case(&case, &name, &mut rng, &mut rep);
            } else {
                let size = rng.gen_range(4..50);
                let mut gc = GenCfg::random(&mut rng, size);
                gc.mem |= i % 4 == 1;
                gc.crypto |= i % 4 == 3;
                let case = gen_case(&mut rng, &gc);
                run_case(&case, "generated", &mut rng, &mut rep);
            }
        }
        if sh % 16 == 2 {
            // trace-length boundary sweep: the last chiplet / range row next to the random row
            for c in crate::props::c01::boundary_cases(&mut rng) {
                run_case(&c, "boundary", &mut rng, &mut rep);
            }
        }
        rep
    });
    let mut rep = merge_all(reports);
    rep.floor(rep.hist_len("bus_requests") >= 20, "at-least-20-bus-message-kinds");
    rep.floor(rep.hist_len("class") >= 18, "at-least-18-feature-classes");
    rep.floor(rep.get_count("outcome", "ok") >= 200, "200-traces");
    rep
}

pub fn replay(v: &serde_json::Value, rep: &mut Report) {
    if let Some(case) = v.get("case").and_then(Case::from_json) {
        let mut rng = rng_for(0, "C12-replay", 0);
        run_case(&case, "replay", &mut rng, rep);
    }
}
