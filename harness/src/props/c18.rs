//! C18 — standard-library memory, stack and collection utilities keep their contracts.
//!
//! (a) `std::sys::truncate_stack` for every depth 16..=80, (b) `std::mem::{memcopy, pipe_*}` against a
//! word-level memory model, (c) `std::collections::{smt, mmr}` in lock-step with miden-crypto's native
//! `Smt` / `Mmr`. Contracts are the header comments of the `.masm` files and
//! `docs/src/user_docs/stdlib/*.md`; the oracle for (c) is the native data structure.

use crate::case::{err_kind, exec_host, AsmOutcome, Case, ExecOutcome};
use crate::host::QuietHost;
use crate::report::{merge_all, truncate, Cfg, Meta, Report};
use crate::util::{par_map, rng_for, PanicInfo, Rng8, P};
use processor::{DefaultHost, ExecutionOptions, ExecutionTrace, MemAdviceProvider, Program};
use rand::Rng;
use serde_json::{json, Value};
use std::collections::{BTreeMap, BTreeSet, HashMap};
use vm_core::crypto::hash::{Rpo256, RpoDigest};
use vm_core::crypto::merkle::{MerkleStore, Mmr, Smt};
use vm_core::{Felt, Word};

type W = [u64; 4];
const TWO32: u64 = 1 << 32;

// SMALL HELPERS
// ================================================================================================

fn sm64(seed: u64, i: u64) -> u64 {
    let mut z = seed
        .wrapping_mul(0x9E37_79B9_7F4A_7C15)
        .wrapping_add(i.wrapping_mul(0xD1B5_4A32_D192_ED03))
        .wrapping_add(0x2545_F491_4F6C_DD1D);
    z = (z ^ (z >> 30)).wrapping_mul(0xBF58_476D_1CE4_E5B9);
    z = (z ^ (z >> 27)).wrapping_mul(0x94D0_49BB_1331_11EB);
    z ^ (z >> 31)
}

/// deterministic non-zero field element
fn val(seed: u64, i: u64) -> u64 {
    let v = sm64(seed, i) % P;
    if v == 0 {
        1
    } else {
        v
    }
}

fn wordv(seed: u64, i: u64) -> W {
    [val(seed, 4 * i), val(seed, 4 * i + 1), val(seed, 4 * i + 2), val(seed, 4 * i + 3)]
}

fn to_word(w: &W) -> Word {
    [Felt::new(w[0]), Felt::new(w[1]), Felt::new(w[2]), Felt::new(w[3])]
}

fn to_digest(w: &W) -> RpoDigest {
    RpoDigest::new(to_word(w))
}

fn from_word(w: &Word) -> W {
    [w[0].as_int(), w[1].as_int(), w[2].as_int(), w[3].as_int()]
}

fn from_digest(d: &RpoDigest) -> W {
    let w: Word = (*d).into();
    from_word(&w)
}

/// pushes a word so that it is a proper stack word when the vector is read TOP FIRST
fn push_word_top_first(v: &mut Vec<u64>, w: &W) {
    v.extend_from_slice(&[w[3], w[2], w[1], w[0]]);
}

/// reads a word from a TOP-FIRST stack slice
fn word_at(stack: &[u64], off: usize) -> W {
    let g = |i: usize| stack.get(off + i).copied().unwrap_or(0);
    [g(3), g(2), g(1), g(0)]
}

fn jw(w: &W) -> Value {
    json!(w.iter().map(|x| x.to_string()).collect::<Vec<_>>())
}

fn ju(v: &Value, k: &str) -> Option<u64> {
    let x = v.get(k)?;
    x.as_u64().or_else(|| x.as_str().and_then(|s| s.parse().ok()))
}

fn jword(v: &Value) -> Option<W> {
    let a = v.as_array()?;
    if a.len() != 4 {
        return None;
    }
    let mut w = [0u64; 4];
    for (i, e) in a.iter().enumerate() {
        w[i] = e.as_u64().or_else(|| e.as_str().and_then(|s| s.parse().ok()))?;
    }
    Some(w)
}

fn trim(v: &[u64]) -> &[u64] {
    let mut n = v.len();
    while n > 0 && v[n - 1] == 0 {
        n -= 1;
    }
    &v[..n]
}

// EXECUTION CONTEXT (program cache, execution with an explicit Merkle store)
// ================================================================================================

pub enum Out {
    Ok(Vec<u64>, Box<ExecutionTrace>),
    Err(String, String),
    Panic(PanicInfo),
}

impl Out {
    fn class(&self) -> String {
        match self {
            Out::Ok(..) => "ok".into(),
            Out::Err(k, _) => format!("err:{k}"),
            Out::Panic(p) => format!("panic:{}", p.site()),
        }
    }
}

pub type Shared = std::sync::Arc<HashMap<String, Box<Program>>>;

pub struct Ctx {
    shared: Option<Shared>,
    progs: HashMap<String, Option<Box<Program>>>,
    monitored: BTreeSet<String>,
    sampled: BTreeSet<String>,
    pub sampling: bool,
    pub rng: Rng8,
    pub side_monitor: bool,
}

impl Ctx {
    pub fn new(rng: Rng8) -> Self {
        Ctx {
            shared: None,
            progs: HashMap::new(),
            monitored: BTreeSet::new(),
            sampled: BTreeSet::new(),
            sampling: true,
            rng,
            side_monitor: true,
        }
    }

    pub fn with_shared(mut self, shared: Shared) -> Self {
        self.shared = Some(shared);
        self
    }

    /// assembles each distinct program text once (per shard)
    fn prog(&mut self, src: &str, rep: &mut Report) -> Option<Box<Program>> {
        if let Some(p) = self.shared.as_ref().and_then(|s| s.get(src)) {
            return Some(p.clone());
        }
        if !self.progs.contains_key(src) {
            let mut c = Case::new(src.to_string());
            c.stdlib = true;
            let p = match c.assemble() {
                AsmOutcome::Ok(p) => {
                    rep.count("assembled_programs", "in-shard");
                    Some(p)
                }
                AsmOutcome::Err(e) => {
                    rep.inconclusive(format!("harness-program-did-not-assemble: {}", truncate(&e, 160)));
                    None
                }
                AsmOutcome::Panic(p) => {
                    rep.inconclusive(format!("harness-program-assembly-panicked: {}", p.site()));
                    None
                }
            };
            self.progs.insert(src.to_string(), p);
        }
        self.progs.get(src).and_then(|p| p.clone())
    }

    /// runs `case` (source already assembled into `prog`) with an optional explicit Merkle store
    fn exec(&mut self, prog: &Program, case: &Case, store: Option<&MerkleStore>) -> Out {
        let mut adv = case.advice_inputs();
        if let Some(s) = store {
            adv = adv.with_merkle_store(s.clone());
        }
        let host = QuietHost::new(DefaultHost::new(MemAdviceProvider::from(adv)));
        match exec_host(prog, case.stack_inputs(), host, crate::case::bounded_opts()) {
            ExecOutcome::Ok(t) => {
                let s = t.stack_outputs().stack().to_vec();
                Out::Ok(s, t)
            }
            ExecOutcome::Err(e) => Out::Err(err_kind(&e), truncate(&format!("{e:?}"), 200)),
            ExecOutcome::Panic(p) => Out::Panic(p),
        }
    }

    /// keeps one sample per group (the report keeps the first six overall)
    fn sample(&mut self, group: &str, rep: &mut Report, v: Value) {
        if self.sampling && self.sampled.insert(group.to_string()) {
            rep.sample(v);
        }
    }

    /// pipes the first successful execution of each `kind` (per shard) through the C03 AIR monitor
    fn side(&mut self, kind: &str, case: &Case, trace: &mut ExecutionTrace, rep: &mut Report) {
        if !self.side_monitor || self.monitored.contains(kind) {
            return;
        }
        self.monitored.insert(kind.to_string());
        rep.count("air_side_monitor", kind);
        let mut rng = self.rng.clone();
        crate::props::c03::monitor_trace(case, trace, &mut rng, 1, 0, rep);
    }
}

fn mk_case(src: &str, stack: Vec<u64>, advice: Vec<u64>) -> Case {
    let mut c = Case::new(src.to_string());
    c.stdlib = true;
    c.stack = stack;
    c.advice_stack = advice;
    c
}

/// Reports an outcome that is not allowed to be a panic; returns true if it was a panic.
fn no_panic(out: &Out, proc_: &str, class: &str, wit: &Value, rep: &mut Report) -> bool {
    if let Out::Panic(p) = out {
        rep.violation(
            format!("{proc_}/panic/{class}/{}", p.site()),
            format!("{proc_} ({class}) panicked: {} at {}", p.message, p.location),
            wit.clone(),
        );
        true
    } else {
        false
    }
}

// MEMORY SCAFFOLD: advice-driven init / read-back loops (one program text per procedure)
// ================================================================================================

/// advice section per word: 1, w0, w1, w2, w3, addr ; terminated by 0
const INIT: &str = "adv_push.1 while.true padw adv_loadw adv_push.1 mem_storew dropw adv_push.1 end";
/// advice section per word: 1, addr ; terminated by 0. Leaves the words on the stack.
const READ: &str = "adv_push.1 while.true padw adv_push.1 mem_loadw adv_push.1 end";

fn scaffold(uses: &str, body: &str) -> String {
    format!("{uses}\nbegin\n  {INIT}\n  {body}\n  {READ}\nend")
}

fn init_section(adv: &mut Vec<u64>, mem: &BTreeMap<u64, W>) {
    for (a, w) in mem {
        adv.push(1);
        adv.extend_from_slice(w);
        adv.push(*a);
    }
    adv.push(0);
}

fn read_section(adv: &mut Vec<u64>, addrs: &[u64]) {
    for a in addrs {
        adv.push(1);
        adv.push(*a);
    }
    adv.push(0);
}

/// splits a final stack into (words read back in `addrs` order, rest of the stack top-first)
fn split_readback(stack: &[u64], n_addrs: usize) -> (Vec<W>, Vec<u64>) {
    let mut words = vec![[0u64; 4]; n_addrs];
    for j in 0..n_addrs {
        words[n_addrs - 1 - j] = word_at(stack, 4 * j);
    }
    let rest = if stack.len() > 4 * n_addrs { stack[4 * n_addrs..].to_vec() } else { vec![] };
    (words, rest)
}

fn sentinels(seed: u64, n: usize) -> Vec<u64> {
    (0..n).map(|i| val(seed, 900_000 + i as u64)).collect()
}

/// window of valid addresses around [base, base+n) with one guard word on each side
fn window(set: &mut BTreeSet<u64>, base: u64, n: u64) {
    let lo = base.saturating_sub(1);
    let hi = base + n; // inclusive guard
    let mut a = lo;
    while a <= hi {
        if a < TWO32 {
            set.insert(a);
        }
        a += 1;
    }
}

/// harness self check: init followed by read-back is the identity
fn scaffold_selfcheck(ctx: &mut Ctx, rep: &mut Report) {
    let src = format!("begin\n  {INIT}\n  {READ}\nend");
    let Some(prog) = ctx.prog(&src, rep) else { return };
    let mut mem = BTreeMap::new();
    for a in [0u64, 1, 77, TWO32 - 1] {
        mem.insert(a, wordv(4242, a));
    }
    let addrs: Vec<u64> = vec![TWO32 - 1, 77, 5, 1, 0];
    let mut adv = vec![];
    init_section(&mut adv, &mem);
    read_section(&mut adv, &addrs);
    let sent = sentinels(1, 16);
    let case = mk_case(&src, sent.clone(), adv);
    match ctx.exec(&prog, &case, None) {
        Out::Ok(stack, _) => {
            let (words, rest) = split_readback(&stack, addrs.len());
            let ok = addrs.iter().zip(&words).all(|(a, w)| mem.get(a).copied().unwrap_or([0; 4]) == *w) && rest == sent;
            if !ok {
                rep.inconclusive("harness-selfcheck: memory scaffold is not the identity");
            }
            rep.count("selfcheck", "scaffold-identity-ok");
        }
        o => rep.inconclusive(format!("harness-selfcheck: scaffold failed: {}", o.class())),
    }
}

// (a) TRUNCATE_STACK
// ================================================================================================

const TRUNC_INPUTS: &str = "use.std::sys\nbegin\n  exec.sys::truncate_stack\nend";
/// builds the depth with pushes driven by the advice stack: 1 v 1 v ... 0
const TRUNC_PUSHES: &str =
    "use.std::sys\nbegin\n  adv_push.1 while.true adv_push.1 adv_push.1 end\n  exec.sys::truncate_stack\nend";
/// same, but called from inside a procedure that owns locals itself (non-trivial fmp); the caller's
/// local must survive
const TRUNC_NESTED: &str = "use.std::sys\nproc.wrap.3\n  push.7 loc_store.1\n  exec.sys::truncate_stack\n  loc_load.1 push.7 assert_eq\nend\nbegin\n  exec.wrap\nend";

fn unique_vals(seed: u64, n: usize) -> Vec<u64> {
    let mut seen = BTreeSet::new();
    let mut out = vec![];
    let mut i = 0u64;
    while out.len() < n {
        // a few boundary values mixed in, all distinct
        let v = match i {
            3 => 0,
            9 => P - 1,
            14 => TWO32,
            _ => val(seed, i),
        };
        i += 1;
        if seen.insert(v) {
            out.push(v);
        }
    }
    out
}

pub fn check_truncate(ctx: &mut Ctx, depth: usize, variant: &str, seed: u64, rep: &mut Report) {
    let vals = unique_vals(seed, depth); // top first
    let (src, stack, adv) = match variant {
        "pushes" => {
            // inputs: the deepest 16 (or fewer) elements; the rest pushed (deepest first)
            let base = depth.min(16);
            let stack = vals[depth - base..].to_vec();
            let mut adv = vec![];
            for i in (0..depth - base).rev() {
                adv.push(1);
                adv.push(vals[i]);
            }
            adv.push(0);
            (TRUNC_PUSHES, stack, adv)
        }
        "nested" => (TRUNC_NESTED, vals.clone(), vec![]),
        _ => (TRUNC_INPUTS, vals.clone(), vec![]),
    };
    let Some(prog) = ctx.prog(src, rep) else { return };
    let case = mk_case(src, stack, adv);
    let wit = json!({"kind": "truncate", "depth": depth, "variant": variant, "seed": seed.to_string(), "case": case.to_json()});
    rep.eval(&format!("truncate_stack|{variant}|{depth}"));
    rep.count("procedure", "sys::truncate_stack");
    rep.count("truncate_depth", &format!("{depth:02}"));
    rep.count("truncate_variant", variant);
    let out = ctx.exec(&prog, &case, None);
    rep.count("outcome", &format!("truncate_stack:{}", out.class()));
    match out {
        Out::Ok(stack, mut t) => {
            if stack.len() != 16 {
                rep.violation(
                    format!("sys::truncate_stack/final-depth-not-16/{variant}"),
                    format!("depth {depth}: final stack depth {} instead of 16", stack.len()),
                    wit.clone(),
                );
            }
            if stack.len() < 16 || stack[..16] != vals[..16] {
                rep.violation(
                    format!("sys::truncate_stack/top16-changed/{variant}"),
                    format!("depth {depth}: top 16 = {:?}, expected {:?}", &stack[..stack.len().min(16)], &vals[..16]),
                    wit.clone(),
                );
            }
            if depth == 80 || depth == 17 {
                ctx.side(&format!("truncate-{variant}-{depth}"), &case, &mut t, rep);
            }
            ctx.sample("truncate", rep, json!({"proc": "sys::truncate_stack", "depth": depth, "variant": variant, "final_depth": stack.len(), "top16": truncate(&format!("{:?}", &stack[..stack.len().min(16)]), 200)}));
        }
        Out::Err(k, e) => rep.violation(
            format!("sys::truncate_stack/fails/{variant}/{k}"),
            format!("depth {depth}: truncate_stack failed: {e}"),
            wit,
        ),
        o @ Out::Panic(_) => {
            no_panic(&o, "sys::truncate_stack", variant, &wit, rep);
        }
    }
}

// (b) MEMCOPY
// ================================================================================================

#[derive(Clone, Debug)]
pub struct McParams {
    pub n: u64,
    pub src: u64,
    pub dst: u64,
    pub seed: u64,
}

fn size_class(n: u64) -> &'static str {
    match n {
        0 => "n0",
        1 => "n1",
        2..=4 => "n2-4",
        5..=16 => "n5-16",
        _ => "n17+",
    }
}

fn addr_class(lo: u64, n: u64) -> &'static str {
    if lo + n > TWO32 {
        "crosses-2^32"
    } else if lo + n == TWO32 {
        "ends-at-2^32"
    } else if lo + n + 64 >= TWO32 {
        "near-2^32"
    } else if lo == 0 {
        "addr0"
    } else {
        "mid"
    }
}

fn overlap_class(p: &McParams) -> &'static str {
    if p.n == 0 {
        "n0"
    } else if p.src == p.dst {
        "same"
    } else if p.dst > p.src && p.dst < p.src + p.n {
        "overlap-dst-above-src"
    } else if p.src > p.dst && p.src < p.dst + p.n {
        "overlap-dst-below-src"
    } else if p.dst == p.src + p.n || p.src == p.dst + p.n {
        "adjacent"
    } else {
        "disjoint"
    }
}

fn memcopy_src() -> String {
    scaffold("use.std::mem", "exec.mem::memcopy")
}

pub fn check_memcopy(ctx: &mut Ctx, p: &McParams, rep: &mut Report) {
    let src_text = memcopy_src();
    let Some(prog) = ctx.prog(&src_text, rep) else { return };
    let mut set = BTreeSet::new();
    window(&mut set, p.src, p.n);
    window(&mut set, p.dst, p.n);
    let mem: BTreeMap<u64, W> = set.iter().map(|a| (*a, wordv(p.seed, *a))).collect();
    let addrs: Vec<u64> = set.iter().copied().collect();
    let mut adv = vec![];
    init_section(&mut adv, &mem);
    read_section(&mut adv, &addrs);
    let sent = sentinels(p.seed, 13);
    let mut stack = vec![p.n, p.src, p.dst];
    stack.extend_from_slice(&sent);
    let case = mk_case(&src_text, stack, adv);
    let ov = overlap_class(p);
    let crossing = p.src + p.n > TWO32 || p.dst + p.n > TWO32;
    let ac = if crossing {
        "crosses-2^32"
    } else {
        let (a, b) = (addr_class(p.src, p.n), addr_class(p.dst, p.n));
        if a != "mid" {
            a
        } else {
            b
        }
    };
    let wit = json!({"kind": "memcopy", "n": p.n, "src": p.src, "dst": p.dst, "seed": p.seed.to_string(), "case": case.to_json()});
    rep.eval(&format!("memcopy|{}|{ov}|{ac}", size_class(p.n)));
    rep.count("procedure", "mem::memcopy");
    rep.count("memcopy_n", if p.n == 0 { "n=0" } else { "n>0" });
    rep.count("memcopy_class", &format!("{}|{ov}|{ac}", size_class(p.n)));
    let out = ctx.exec(&prog, &case, None);
    rep.count("outcome", &format!("memcopy[{ov},{ac}]:{}", out.class()));
    if no_panic(&out, "mem::memcopy", &format!("{ov}/{ac}"), &wit, rep) {
        return;
    }
    if crossing {
        // the copy would have to touch an address >= 2^32, which is not a memory address
        if let Out::Ok(..) = out {
            rep.violation(
                "mem::memcopy/range-crossing-2^32-succeeds",
                format!("memcopy n={} src={} dst={} touches addresses >= 2^32 but succeeded", p.n, p.src, p.dst),
                wit,
            );
        }
        return;
    }
    let overlapping = ov.starts_with("overlap");
    match out {
        Out::Ok(stack, mut t) => {
            let (words, rest) = split_readback(&stack, addrs.len());
            let got: BTreeMap<u64, W> = addrs.iter().copied().zip(words.iter().copied()).collect();
            // model: simultaneous copy (dst[i] = old src[i])
            let mut exp = mem.clone();
            for i in 0..p.n {
                exp.insert(p.dst + i, mem[&(p.src + i)]);
            }
            if overlapping {
                // contract silent about overlap: only record what happened
                let mut fwd = mem.clone();
                for i in 0..p.n {
                    let w = fwd[&(p.src + i)];
                    fwd.insert(p.dst + i, w);
                }
                let sem = if got == exp {
                    "memmove-like"
                } else if got == fwd {
                    "forward-word-copy"
                } else {
                    "other"
                };
                rep.count("memcopy_overlap_semantics", &format!("{ov}:{sem}"));
            } else {
                if got != exp {
                    let bad = addrs.iter().find(|a| got[a] != exp[a]).copied().unwrap_or(0);
                    let where_ = if bad >= p.dst && bad < p.dst + p.n { "destination-wrong" } else { "outside-destination-modified" };
                    rep.violation(
                        format!("mem::memcopy/{where_}/{ov}"),
                        format!("memcopy n={} src={} dst={}: word at {bad} = {:?}, expected {:?}", p.n, p.src, p.dst, got[&bad], exp[&bad]),
                        wit.clone(),
                    );
                }
                if trim(&rest) != trim(&sent) {
                    rep.violation(
                        format!("mem::memcopy/stack-transition/{ov}"),
                        format!("memcopy n={}: stack below the arguments not preserved: {:?}", p.n, rest),
                        wit.clone(),
                    );
                }
            }
            if p.n > 0 {
                ctx.side("memcopy", &case, &mut t, rep);
            }
            if p.n > 1 {
                ctx.sample("memcopy", rep, json!({"proc": "mem::memcopy", "n": p.n, "src": p.src, "dst": p.dst, "class": ov, "address_class": ac}));
            }
        }
        Out::Err(k, e) => {
            if !overlapping {
                rep.violation(
                    format!("mem::memcopy/fails/{ov}/{k}"),
                    format!("memcopy n={} src={} dst={} failed: {e}", p.n, p.src, p.dst),
                    wit,
                );
            }
        }
        Out::Panic(_) => {}
    }
}

pub fn gen_memcopy(rng: &mut Rng8, big: bool) -> McParams {
    let n = match rng.gen_range(0..10) {
        0..=1 => 0,
        2 => 1,
        3..=6 => rng.gen_range(2..9),
        7..=8 => rng.gen_range(9..20),
        _ => {
            if big {
                rng.gen_range(20..70)
            } else {
                rng.gen_range(17..26)
            }
        }
    };
    let seed = rng.gen::<u64>();
    let base = match rng.gen_range(0..6) {
        0 => 0,
        1 => rng.gen_range(0..4),
        2 => rng.gen_range(0..TWO32 / 2),
        3 => TWO32 - 2 * n - rng.gen_range(0..4), // both ranges fit just below 2^32
        _ => rng.gen_range(1..1u64 << 31),
    };
    let (src, dst) = match rng.gen_range(0..12) {
        0 => (base, base),                                                     // same
        1 | 2 if n > 1 => (base, base + rng.gen_range(1..n)),                  // dst above src
        3 | 4 if n > 1 => (base + rng.gen_range(1..n), base),                  // dst below src
        5 => (base, base + n),                                                 // adjacent
        6 => (base + n, base),                                                 // adjacent
        7 => (TWO32 - n, rng.gen_range(0..1u64 << 20)),                        // src ends exactly at 2^32
        8 => (rng.gen_range(0..1u64 << 20), TWO32 - n),                        // dst ends exactly at 2^32
        9 if n > 0 => {
            // crossing 2^32 on one side
            let c = TWO32 - rng.gen_range(0..n);
            if rng.gen() {
                (c.min(TWO32 - 1), rng.gen_range(0..1u64 << 20))
            } else {
                (rng.gen_range(0..1u64 << 20), c.min(TWO32 - 1))
            }
        }
        _ => {
            if rng.gen() {
                (base, base + n + rng.gen_range(1..1000))
            } else {
                (base + n + rng.gen_range(1..1000), base)
            }
        }
    };
    McParams { n, src: src.min(TWO32 - 1), dst: dst.min(TWO32 - 1), seed }
}

// (b) PIPE_* PROCEDURES
// ================================================================================================

#[derive(Clone, Debug)]
pub struct PipeParams {
    /// "words" | "double" | "preimage-ok" | "preimage-bad-com" | "preimage-bad-data"
    pub variant: String,
    pub n: u64,
    pub ptr: u64,
    pub seed: u64,
}

fn hash_elems(d: &[u64]) -> W {
    let f: Vec<Felt> = d.iter().map(|x| Felt::new(*x)).collect();
    from_digest(&Rpo256::hash_elements(&f))
}

fn pipe_src(variant: &str) -> String {
    let body = match variant {
        "words" => "exec.mem::pipe_words_to_memory",
        "double" => "exec.mem::pipe_double_words_to_memory",
        _ => "exec.mem::pipe_preimage_to_memory",
    };
    scaffold("use.std::mem", body)
}

pub fn check_pipe(ctx: &mut Ctx, p: &PipeParams, rep: &mut Report) {
    let procname = match p.variant.as_str() {
        "words" => "mem::pipe_words_to_memory",
        "double" => "mem::pipe_double_words_to_memory",
        _ => "mem::pipe_preimage_to_memory",
    };
    let src_text = pipe_src(&p.variant);
    let Some(prog) = ctx.prog(&src_text, rep) else { return };
    let n = p.n;
    let mut data: Vec<u64> = (0..4 * n).map(|i| val(p.seed, 5_000_000 + i)).collect();
    let good_hash = hash_elems(&data);
    let mut set = BTreeSet::new();
    window(&mut set, p.ptr, n);
    let mem: BTreeMap<u64, W> = set.iter().map(|a| (*a, wordv(p.seed, *a))).collect();
    let addrs: Vec<u64> = set.iter().copied().collect();
    let crossing = p.ptr + n > TWO32;

    // stack inputs and expected outputs (top first, before the sentinels)
    let mut stack = vec![];
    let mut exp_out = vec![];
    let n_sent;
    let mut must_fail = false;
    match p.variant.as_str() {
        "words" => {
            stack.extend_from_slice(&[n, p.ptr]);
            push_word_top_first(&mut exp_out, &good_hash);
            exp_out.push(p.ptr + n);
            n_sent = 14;
        }
        "double" => {
            // arbitrary hasher state [A (capacity), B, C]; model: overwrite the rate with each
            // pair of words, then permute
            let mut st: Vec<u64> = (0..12).map(|i| val(p.seed, 7_000_000 + i)).collect();
            if p.seed % 3 == 0 {
                st = vec![0; 12];
            }
            for i in 0..12 {
                stack.push(st[11 - i]);
            }
            stack.extend_from_slice(&[p.ptr, p.ptr + n]);
            let mut state = [Felt::new(0); 12];
            for i in 0..12 {
                state[i] = Felt::new(st[i]);
            }
            for pair in data.chunks(8) {
                for (j, v) in pair.iter().enumerate() {
                    state[4 + j] = Felt::new(*v);
                }
                Rpo256::apply_permutation(&mut state);
            }
            for i in 0..12 {
                exp_out.push(state[11 - i].as_int());
            }
            exp_out.push(p.ptr + n);
            n_sent = 6;
        }
        v => {
            let mut com = good_hash;
            if v == "preimage-bad-com" {
                let i = (p.seed % 4) as usize;
                com[i] = (com[i] + 1) % P;
                must_fail = true;
            }
            if v == "preimage-bad-data" {
                let i = (p.seed % (4 * n).max(1)) as usize;
                if let Some(x) = data.get_mut(i) {
                    *x = (*x + 1) % P;
                } else {
                    // n = 0: nothing to corrupt; corrupt the commitment instead
                    com[0] = (com[0] + 1) % P;
                }
                must_fail = true;
            }
            stack.extend_from_slice(&[n, p.ptr]);
            push_word_top_first(&mut stack, &com);
            exp_out.push(p.ptr + n);
            n_sent = 10;
        }
    }
    let sent = sentinels(p.seed, n_sent);
    stack.extend_from_slice(&sent);
    let mut adv = vec![];
    init_section(&mut adv, &mem);
    adv.extend_from_slice(&data);
    read_section(&mut adv, &addrs);
    let case = mk_case(&src_text, stack, adv);
    let parity = if n % 2 == 0 { "even" } else { "odd" };
    let ac = addr_class(p.ptr, n);
    let wit = json!({"kind": "pipe", "variant": p.variant, "n": n, "ptr": p.ptr, "seed": p.seed.to_string(), "case": case.to_json()});
    rep.eval(&format!("{procname}|{}|{}|{parity}|{ac}", p.variant, size_class(n)));
    rep.count("procedure", procname);
    rep.count("pipe_class", &format!("{}|{}|{parity}|{ac}", p.variant, size_class(n)));
    let out = ctx.exec(&prog, &case, None);
    rep.count("outcome", &format!("{}[{ac}]:{}", p.variant, out.class()));
    // at the top edge of the address space the three procedures share one mechanism (the adv_pipe
    // loop), so they share one signature family there
    let edge = ac == "ends-at-2^32" || ac == "crosses-2^32";
    let signame = if edge { "mem::pipe_*" } else { procname };
    if no_panic(&out, signame, ac, &wit, rep) {
        return;
    }
    if must_fail {
        match out {
            Out::Ok(..) => rep.violation(
                format!("{procname}/wrong-preimage-accepted/{}", p.variant),
                format!("pipe_preimage_to_memory n={n} accepted a preimage that does not hash to COM"),
                wit,
            ),
            _ => rep.count("wrong_preimage_rejected", &p.variant),
        }
        return;
    }
    if crossing {
        if let Out::Ok(..) = out {
            rep.violation(
                format!("{procname}/range-crossing-2^32-succeeds"),
                format!("{procname} n={n} ptr={} writes to addresses >= 2^32 but succeeded", p.ptr),
                wit,
            );
        }
        return;
    }
    match out {
        Out::Ok(stack, mut t) => {
            let (words, rest) = split_readback(&stack, addrs.len());
            let got: BTreeMap<u64, W> = addrs.iter().copied().zip(words.iter().copied()).collect();
            let mut exp = mem.clone();
            for k in 0..n {
                let o = 4 * k as usize;
                exp.insert(p.ptr + k, [data[o], data[o + 1], data[o + 2], data[o + 3]]);
            }
            if got != exp {
                let bad = addrs.iter().find(|a| got[a] != exp[a]).copied().unwrap_or(0);
                let where_ = if bad >= p.ptr && bad < p.ptr + n { "memory-wrong" } else { "outside-range-modified" };
                rep.violation(
                    format!("{procname}/{where_}/{parity}"),
                    format!("{procname} n={n} ptr={}: word at {bad} = {:?}, expected {:?}", p.ptr, got[&bad], exp[&bad]),
                    wit.clone(),
                );
            }
            let no = exp_out.len();
            let got_out = &rest[..no.min(rest.len())];
            if got_out != &exp_out[..] {
                let what = if p.variant == "preimage-ok" {
                    "returned-pointer"
                } else if got_out.len() == no && got_out[no - 1] != exp_out[no - 1] {
                    "returned-pointer"
                } else {
                    "returned-hash"
                };
                rep.violation(
                    format!("{procname}/{what}-mismatch/{parity}"),
                    format!("{procname} n={n} ptr={}: outputs {:?}, expected {:?}", p.ptr, got_out, exp_out),
                    wit.clone(),
                );
            }
            let below = if rest.len() > no { &rest[no..] } else { &[][..] };
            if trim(below) != trim(&sent) {
                rep.violation(
                    format!("{procname}/stack-transition/{parity}"),
                    format!("{procname} n={n}: stack below the outputs not preserved: {:?}", below),
                    wit.clone(),
                );
            }
            ctx.side(&format!("pipe-{}-{parity}", p.variant), &case, &mut t, rep);
            if n > 2 {
                ctx.sample("pipe", rep, json!({"proc": procname, "n": n, "ptr": p.ptr, "hash_of_piped_words": jw(&good_hash), "returned": truncate(&format!("{:?}", got_out), 200)}));
            }
        }
        Out::Err(k, e) => rep.violation(
            if edge { format!("{signame}/fails/{ac}") } else { format!("{procname}/fails/{ac}/{parity}") },
            format!("{procname} n={n} ptr={} (all addresses < 2^32) failed with {k}: {e}", p.ptr),
            wit,
        ),
        Out::Panic(_) => {}
    }
}

pub fn gen_pipe(rng: &mut Rng8, big: bool) -> PipeParams {
    let variant = match rng.gen_range(0..10) {
        0..=3 => "words",
        4..=5 => "double",
        6..=7 => "preimage-ok",
        8 => "preimage-bad-com",
        _ => "preimage-bad-data",
    };
    let mut n: u64 = match rng.gen_range(0..8) {
        0 => 0,
        1 => 1,
        2 => 2,
        3..=5 => rng.gen_range(3..12),
        _ => rng.gen_range(12..if big { 80 } else { 30 }),
    };
    if variant == "double" {
        // documented precondition: positive and even
        n = (n + n % 2).max(2);
    }
    let ptr = match rng.gen_range(0..8) {
        0 => 0,
        1 => rng.gen_range(0..3),
        2 => TWO32 - n,                                        // last word written is 2^32-1
        3 => (TWO32 - n).saturating_sub(rng.gen_range(1..5)),  // just below
        4 if n > 1 => TWO32 - rng.gen_range(1..n), // crossing 2^32 (ptr itself is a valid address)
        _ => rng.gen_range(1..1u64 << 31),
    };
    PipeParams { variant: variant.to_string(), n, ptr: ptr.min(TWO32 - 1), seed: rng.gen() }
}

// (c) SPARSE MERKLE TREE — lock-step against miden-crypto's `Smt`
// ================================================================================================

const SMT_SET: &str = "use.std::collections::smt\nbegin\n  exec.smt::set\nend";
const SMT_GET: &str = "use.std::collections::smt\nbegin\n  exec.smt::get\nend";
/// [V, K, R, ...] -> set -> get(K) under the new root, using the advice state left behind by `set`
/// final stack: [V_now, R_new, V_old, ...]
const SMT_SET_GET: &str = "use.std::collections::smt\nbegin\n  dupw.1 movdnw.3\n  exec.smt::set\n  movupw.2 movupw.2 swapw\n  exec.smt::get\nend";

const EMPTY: W = [0; 4];

fn smt_from(entries: &[(W, W)]) -> Option<Smt> {
    Smt::with_entries(entries.iter().map(|(k, v)| (to_digest(k), to_word(v)))).ok()
}

fn smt_entries(smt: &Smt) -> Vec<(W, W)> {
    smt.entries().map(|(k, v)| (from_digest(k), from_word(v))).collect()
}

fn smt_advice(smt: &Smt) -> (MerkleStore, Vec<(W, Vec<u64>)>) {
    let store = MerkleStore::from(smt);
    let map = smt
        .leaves()
        .map(|(_, leaf)| (from_digest(&leaf.hash()), leaf.to_elements().iter().map(|f| f.as_int()).collect()))
        .collect();
    (store, map)
}

fn leaf_state(smt: &Smt, key: &W) -> &'static str {
    match smt.get_leaf(&to_digest(key)).num_entries() {
        0 => "empty",
        1 => "single",
        _ => "multiple",
    }
}

fn entries_json(e: &[(W, W)]) -> Value {
    json!(e.iter().map(|(k, v)| json!({"k": jw(k), "v": jw(v)})).collect::<Vec<_>>())
}

fn smt_case(src: &str, words: &[&W], map: Vec<(W, Vec<u64>)>, sent: &[u64]) -> Case {
    let mut stack = vec![];
    for w in words {
        push_word_top_first(&mut stack, w);
    }
    stack.extend_from_slice(sent);
    let mut c = mk_case(src, stack, vec![]);
    c.advice_map = map;
    c
}

/// One `smt::set` step checked against the native tree; `smt` is advanced natively.
pub fn check_smt_set(ctx: &mut Ctx, smt: &mut Smt, key: &W, value: &W, with_get: bool, rep: &mut Report) {
    let Some(prog) = ctx.prog(SMT_SET, rep) else { return };
    let entries = smt_entries(smt);
    let before = leaf_state(smt, key);
    let present = from_word(&smt.get_value(&to_digest(key))) != EMPTY;
    let (store, map) = smt_advice(smt);
    let root0 = from_digest(&smt.root());
    let old = from_word(&smt.insert(to_digest(key), to_word(value)));
    let after = leaf_state(smt, key);
    let root1 = from_digest(&smt.root());
    let kind = match (*value != EMPTY, present) {
        (true, false) => "insert",
        (true, true) => "update",
        (false, true) => "remove",
        (false, false) => "remove-absent",
    };
    let trans = format!("{before}-to-{after}");
    let sent = sentinels(root0[0] ^ key[0], 4);
    let case = smt_case(SMT_SET, &[value, key, &root0], map.clone(), &sent);
    let wit = json!({"kind": "smt-step", "op": "set", "entries": entries_json(&entries), "key": jw(key), "value": jw(value), "case": case.to_json(),
        "note": "Merkle store = MerkleStore::from(Smt::with_entries(entries)); advice map = leaf hash -> leaf elements"});
    rep.eval(&format!("smt::set|{trans}|{kind}"));
    rep.count("procedure", "smt::set");
    rep.count("smt_leaf_transition", &trans);
    rep.count("smt_set_kind", &format!("{trans}|{kind}"));
    rep.count("smt_tree_size", &format!("{:02}", entries.len().min(40)));
    let out = ctx.exec(&prog, &case, Some(&store));
    rep.count("outcome", &format!("smt::set[{trans}|{kind}]:{}", out.class()));
    if no_panic(&out, "smt::set", &trans, &wit, rep) {
        return;
    }
    let mut exp = vec![];
    push_word_top_first(&mut exp, &old);
    push_word_top_first(&mut exp, &root1);
    exp.extend_from_slice(&sent);
    match out {
        Out::Ok(stack, mut t) => {
            let mut good = true;
            if word_at(&stack, 0) != old {
                good = false;
                rep.violation(
                    format!("smt::set/old-value-mismatch/{trans}/{kind}"),
                    format!("smt::set returned old value {:?}, native Smt::insert returned {:?}", word_at(&stack, 0), old),
                    wit.clone(),
                );
            }
            if word_at(&stack, 4) != root1 {
                good = false;
                rep.violation(
                    format!("smt::set/root-mismatch/{trans}/{kind}"),
                    format!("smt::set returned root {:?}, native root {:?}", word_at(&stack, 4), root1),
                    wit.clone(),
                );
            }
            if good && trim(&stack) != trim(&exp) {
                good = false;
                rep.violation(
                    format!("smt::set/stack-transition/{trans}"),
                    format!("smt::set final stack {:?}, expected {:?}", stack, exp),
                    wit.clone(),
                );
            }
            ctx.side(&format!("smt-set-{trans}"), &case, &mut t, rep);
            if entries.len() > 2 {
                ctx.sample("smt-set", rep, json!({"proc": "smt::set", "leaf_transition": trans, "kind": kind, "tree_entries": entries.len(), "key": jw(key), "old_value": jw(&old), "new_root": jw(&root1)}));
            }
            if good && with_get {
                check_smt_get_after_set(ctx, smt, &store, map, key, value, &root0, &old, &root1, &wit, rep);
            }
        }
        Out::Err(k, e) => rep.violation(
            format!("smt::set/fails/{trans}"),
            format!("smt::set ({kind}, leaf {trans}) failed with {k} where native Smt::insert succeeds: {e}"),
            wit,
        ),
        Out::Panic(_) => {}
    }
}

#[allow(clippy::too_many_arguments)]
fn check_smt_get_after_set(
    ctx: &mut Ctx,
    smt_after: &Smt,
    store0: &MerkleStore,
    map0: Vec<(W, Vec<u64>)>,
    key: &W,
    value: &W,
    root0: &W,
    old: &W,
    root1: &W,
    set_wit: &Value,
    rep: &mut Report,
) {
    let Some(prog) = ctx.prog(SMT_SET_GET, rep) else { return };
    let after = leaf_state(smt_after, key);
    let presence = if *value != EMPTY { "present" } else { "absent" };
    let sent = sentinels(root1[1], 4);
    let case = smt_case(SMT_SET_GET, &[value, key, root0], map0, &sent);
    let mut wit = set_wit.clone();
    wit["op"] = json!("set+get");
    wit["case"] = case.to_json();
    rep.eval(&format!("smt::get-after-set|{after}|{presence}"));
    rep.count("procedure", "smt::set+get");
    let out = ctx.exec(&prog, &case, Some(store0));
    rep.count("outcome", &format!("smt::set+get[{after}|{presence}]:{}", out.class()));
    if no_panic(&out, "smt::get-after-set", after, &wit, rep) {
        return;
    }
    let mut exp = vec![];
    push_word_top_first(&mut exp, value);
    push_word_top_first(&mut exp, root1);
    push_word_top_first(&mut exp, old);
    exp.extend_from_slice(&sent);
    match out {
        Out::Ok(stack, _) => {
            if trim(&stack) != trim(&exp) {
                rep.violation(
                    format!("smt::get-after-set/value-mismatch/{after}/{presence}"),
                    format!("get after set (advice left by set): stack {:?}, expected {:?}", stack, exp),
                    wit,
                );
            }
        }
        Out::Err(k, e) => {
            // attribute to plain `get` if a natively seeded get of the same key fails too
            let mut probe_rep = Report::new();
            let plain_ok = check_smt_get(ctx, smt_after, key, &mut probe_rep);
            if plain_ok {
                rep.violation(
                    format!("smt::get-after-set/fails/{after}/{presence}"),
                    format!("get under the root returned by set failed with {k} although a natively seeded get succeeds (advice not updated by set?): {e}"),
                    wit,
                );
            } else {
                rep.count("smt_get_after_set", "failure-attributed-to-plain-get");
            }
        }
        Out::Panic(_) => {}
    }
}

/// One `smt::get` checked against the native tree. Returns true if the VM agreed with the oracle.
pub fn check_smt_get(ctx: &mut Ctx, smt: &Smt, key: &W, rep: &mut Report) -> bool {
    let Some(prog) = ctx.prog(SMT_GET, rep) else { return false };
    let entries = smt_entries(smt);
    let state = leaf_state(smt, key);
    let v = from_word(&smt.get_value(&to_digest(key)));
    let presence = if v != EMPTY { "present" } else { "absent" };
    let (store, map) = smt_advice(smt);
    let root = from_digest(&smt.root());
    let sent = sentinels(root[2] ^ key[1], 8);
    let case = smt_case(SMT_GET, &[key, &root], map, &sent);
    let wit = json!({"kind": "smt-step", "op": "get", "entries": entries_json(&entries), "key": jw(key), "case": case.to_json(),
        "note": "Merkle store = MerkleStore::from(Smt::with_entries(entries)); advice map = leaf hash -> leaf elements"});
    rep.eval(&format!("smt::get|{state}|{presence}"));
    rep.count("procedure", "smt::get");
    rep.count("smt_get_class", &format!("{state}|{presence}"));
    let out = ctx.exec(&prog, &case, Some(&store));
    rep.count("outcome", &format!("smt::get[{state}|{presence}]:{}", out.class()));
    if no_panic(&out, "smt::get", state, &wit, rep) {
        return false;
    }
    let mut exp = vec![];
    push_word_top_first(&mut exp, &v);
    push_word_top_first(&mut exp, &root);
    exp.extend_from_slice(&sent);
    match out {
        Out::Ok(stack, mut t) => {
            let ok = trim(&stack) == trim(&exp);
            if word_at(&stack, 0) != v {
                rep.violation(
                    format!("smt::get/value-mismatch/{state}/{presence}"),
                    format!("smt::get returned {:?}, native Smt::get_value {:?}", word_at(&stack, 0), v),
                    wit,
                );
            } else if !ok {
                rep.violation(
                    format!("smt::get/stack-transition/{state}"),
                    format!("smt::get final stack {:?}, expected {:?}", stack, exp),
                    wit,
                );
            }
            ctx.side(&format!("smt-get-{state}"), &case, &mut t, rep);
            if ok && v != EMPTY {
                ctx.sample("smt-get", rep, json!({"proc": "smt::get", "leaf": state, "tree_entries": entries.len(), "key": jw(key), "value": jw(&v)}));
            }
            ok
        }
        Out::Err(k, e) => {
            rep.violation(
                format!("smt::get/fails/{state}/{presence}"),
                format!("smt::get (leaf {state}, key {presence}) failed with {k} where native Smt::get_value returns {:?}: {e}", v),
                wit,
            );
            false
        }
        Out::Panic(_) => false,
    }
}

/// documented failure: "Fails if the tree with the specified root does not exist in the VM's advice provider"
pub fn check_smt_unknown_root(ctx: &mut Ctx, smt: &Smt, key: &W, value: &W, rep: &mut Report) {
    let (store, map) = smt_advice(smt);
    let mut root = from_digest(&smt.root());
    let i = (key[0] % 4) as usize;
    root[i] = (root[i] + 1) % P;
    let sent = sentinels(root[0], 4);
    for (name, src) in [("smt::get", SMT_GET), ("smt::set", SMT_SET)] {
        let Some(prog) = ctx.prog(src, rep) else { return };
        let case = if name == "smt::get" {
            smt_case(src, &[key, &root], map.clone(), &sent)
        } else {
            smt_case(src, &[value, key, &root], map.clone(), &sent)
        };
        let wit = json!({"kind": "smt-unknown-root", "entries": entries_json(&smt_entries(smt)), "key": jw(key), "value": jw(value), "case": case.to_json()});
        rep.eval(&format!("{name}|unknown-root"));
        rep.count("procedure", &format!("{name}(unknown root)"));
        let out = ctx.exec(&prog, &case, Some(&store));
        rep.count("outcome", &format!("{name}[unknown-root]:{}", out.class()));
        if no_panic(&out, name, "unknown-root", &wit, rep) {
            continue;
        }
        match out {
            Out::Ok(stack, _) => rep.violation(
                format!("{name}/unknown-root-accepted"),
                format!("{name} with a root that is not in the advice provider succeeded: {:?}", &stack[..8]),
                wit,
            ),
            _ => rep.count("smt_unknown_root_rejected", name),
        }
    }
}

fn chain_src(k: usize) -> String {
    let mut src = String::from("use.std::collections::smt\nbegin\n");
    for i in 0..k {
        src.push_str(&format!("  exec.smt::set push.{} mem_storew dropw\n", 1000 + i));
        if i + 1 < k {
            src.push_str("  movdnw.2\n");
        }
    }
    src.push_str("  swapw exec.smt::get\n");
    for i in 0..k {
        src.push_str(&format!("  padw push.{} mem_loadw\n", 1000 + i));
    }
    src.push_str("end");
    src
}

/// k sets and a final get in ONE program: the advice provider state is carried by the VM itself.
pub fn check_smt_chain(ctx: &mut Ctx, entries: &[(W, W)], ops: &[(W, W)], getkey: &W, rep: &mut Report) {
    let k = ops.len();
    if k == 0 {
        return;
    }
    let Some(mut smt) = smt_from(entries) else { return };
    let src = chain_src(k);
    let Some(prog) = ctx.prog(&src, rep) else { return };
    let (store, map) = smt_advice(&smt);
    let root0 = from_digest(&smt.root());
    // stack: [V1, K1, R0, V2, K2, ..., Vk, Kk, Kget, sentinels]
    let mut stack = vec![];
    push_word_top_first(&mut stack, &ops[0].1);
    push_word_top_first(&mut stack, &ops[0].0);
    push_word_top_first(&mut stack, &root0);
    for (kk, v) in &ops[1..] {
        push_word_top_first(&mut stack, v);
        push_word_top_first(&mut stack, kk);
    }
    push_word_top_first(&mut stack, getkey);
    let sent = sentinels(root0[3], 4);
    stack.extend_from_slice(&sent);
    let mut case = mk_case(&src, stack, vec![]);
    case.advice_map = map;
    let mut olds = vec![];
    let mut multi = false;
    for (kk, v) in ops {
        olds.push(from_word(&smt.insert(to_digest(kk), to_word(v))));
        multi |= leaf_state(&smt, kk) == "multiple";
    }
    let rootk = from_digest(&smt.root());
    let vget = from_word(&smt.get_value(&to_digest(getkey)));
    let wit = json!({"kind": "smt-chain", "entries": entries_json(entries), "ops": entries_json(ops), "getkey": jw(getkey), "case": case.to_json()});
    rep.eval(&format!("smt::chain|k={k}|multi={multi}"));
    rep.count("procedure", "smt::chain(set*,get)");
    rep.count("smt_chain_len", &k.to_string());
    let out = ctx.exec(&prog, &case, Some(&store));
    rep.count("outcome", &format!("smt::chain:{}", out.class()));
    if no_panic(&out, "smt::set-chain", "chain", &wit, rep) {
        return;
    }
    // expected: olds (last loaded on top), V_get, R_k, sentinels
    let mut exp = vec![];
    for o in olds.iter().rev() {
        push_word_top_first(&mut exp, o);
    }
    push_word_top_first(&mut exp, &vget);
    push_word_top_first(&mut exp, &rootk);
    exp.extend_from_slice(&sent);
    match out {
        Out::Ok(stack, mut t) => {
            if trim(&stack) != trim(&exp) {
                rep.violation(
                    "smt::set-chain/result-mismatch",
                    format!("{k} chained sets + get: stack {:?}, expected (old values, value, root) {:?}", stack, exp),
                    wit,
                );
            }
            ctx.side("smt-chain", &case, &mut t, rep);
        }
        Out::Err(kd, e) => rep.violation(
            "smt::set-chain/fails",
            format!("{k} chained sets + get on distinct single-entry leaves failed with {kd}: {e}"),
            wit,
        ),
        Out::Panic(_) => {}
    }
}

/// key pool: few leaf indices (most significant element), several keys per leaf
fn smt_pool(rng: &mut Rng8) -> Vec<W> {
    const IDX: [u64; 8] = [0, 1, P - 1, TWO32 - 1, TWO32, 1 << 63, (1 << 63) - 1, 0xFFFF_FFFF_0000_0000];
    let n_leaves = rng.gen_range(2..5);
    let mut pool = vec![];
    for _ in 0..n_leaves {
        let idx = if rng.gen_range(0..3) == 0 { IDX[rng.gen_range(0..IDX.len())] } else { rng.gen_range(0..P) };
        let per = rng.gen_range(1..4);
        let base: W = [rng.gen_range(0..P), rng.gen_range(0..P), rng.gen_range(0..P), idx];
        for j in 0..per {
            let mut k = base;
            match j {
                0 => {}
                1 => k[rng.gen_range(0..3)] = rng.gen_range(0..P), // differs in one lower element
                _ => {
                    k[0] = rng.gen_range(0..4);
                    k[1] = rng.gen_range(0..P);
                    k[2] = rng.gen_range(0..4);
                }
            }
            if !pool.contains(&k) {
                pool.push(k);
            }
        }
    }
    pool
}

fn rand_value(rng: &mut Rng8) -> W {
    match rng.gen_range(0..8) {
        0 => [0, 0, 0, rng.gen_range(1..P)], // almost empty
        1 => [rng.gen_range(1..P), 0, 0, 0],
        2 => [1, 1, 1, 1],
        _ => [rng.gen_range(0..P), rng.gen_range(0..P), rng.gen_range(0..P), rng.gen_range(1..P)],
    }
}

pub fn smt_sequence(ctx: &mut Ctx, steps: usize, rep: &mut Report) {
    let mut rng = ctx.rng.clone();
    let pool = smt_pool(&mut rng);
    let mut smt = Smt::new();
    // background entries in other leaves so that paths are not trivial
    for _ in 0..rng.gen_range(0..6) {
        let k: W = [rng.gen_range(0..P), rng.gen_range(0..P), rng.gen_range(0..P), rng.gen_range(0..P)];
        if !pool.iter().any(|p| p[3] == k[3]) {
            smt.insert(to_digest(&k), to_word(&rand_value(&mut rng)));
        }
    }
    rep.count("smt_sequences", "started");
    for _ in 0..steps {
        let key = pool[rng.gen_range(0..pool.len())];
        let present = from_word(&smt.get_value(&to_digest(&key))) != EMPTY;
        let state = leaf_state(&smt, &key);
        // removal is boosted on populated leaves so that multiple->single->empty happens
        let remove_w = if state == "multiple" { 40 } else if present { 30 } else { 10 };
        let r = rng.gen_range(0..100);
        if r < 25 {
            check_smt_get(ctx, &smt, &key, rep);
        } else if r < 25 + remove_w {
            check_smt_set(ctx, &mut smt, &key, &EMPTY, rng.gen_range(0..3) == 0, rep);
        } else {
            let v = rand_value(&mut rng);
            check_smt_set(ctx, &mut smt, &key, &v, rng.gen_range(0..3) == 0, rep);
        }
    }
    let key = pool[rng.gen_range(0..pool.len())];
    check_smt_unknown_root(ctx, &smt, &key, &rand_value(&mut rng), rep);
    // chained program on distinct leaves (supported by any implementation of the documented API)
    let k = CHAIN_LENS[rng.gen_range(0..CHAIN_LENS.len())];
    let entries = smt_entries(&smt);
    let mut ops: Vec<(W, W)> = vec![];
    let mut fresh: Vec<W> = vec![];
    for i in 0..k {
        let reuse = !ops.is_empty() && rng.gen_range(0..3) == 0;
        let key = if reuse {
            ops[rng.gen_range(0..ops.len())].0
        } else {
            let mut kx: W = [rng.gen_range(0..P), rng.gen_range(0..P), rng.gen_range(0..P), rng.gen_range(0..P)];
            while entries.iter().any(|(e, _)| e[3] == kx[3]) || fresh.iter().any(|e| e[3] == kx[3]) {
                kx[3] = rng.gen_range(0..P);
            }
            fresh.push(kx);
            kx
        };
        let v = if reuse && i % 2 == 1 { EMPTY } else { rand_value(&mut rng) };
        ops.push((key, v));
    }
    let getkey = ops[rng.gen_range(0..ops.len())].0;
    check_smt_chain(ctx, &entries, &ops, &getkey, rep);
    ctx.rng = rng;
}

// (c) MERKLE MOUNTAIN RANGE — lock-step against miden-crypto's `Mmr`
// ================================================================================================

fn mmr_leaf(seed: u64, i: u64) -> W {
    wordv(seed ^ 0x4D4D_5200, i)
}

pub fn mmr_build(seed: u64, n: u64) -> Mmr {
    let mut m = Mmr::new();
    for i in 0..n {
        m.add(to_digest(&mmr_leaf(seed, i)));
    }
    m
}

fn mmr_peaks(m: &Mmr) -> Vec<W> {
    m.peaks(m.forest()).map(|p| p.peaks().iter().map(from_digest).collect()).unwrap_or_default()
}

fn mmr_hash(m: &Mmr) -> W {
    m.peaks(m.forest()).map(|p| from_digest(&p.hash_peaks())).unwrap_or(EMPTY)
}

/// documented padding rule: at least 16 words, above that an even number of words
fn mmr_msg_words(num_peaks: usize) -> usize {
    let m = num_peaks.max(16);
    m + m % 2
}

/// memory image of an MMR at `ptr`: forest word followed by the peaks
fn mmr_image(mem: &mut BTreeMap<u64, W>, m: &Mmr, ptr: u64) {
    mem.insert(ptr, [m.forest() as u64, 0, 0, 0]);
    for (i, p) in mmr_peaks(m).iter().enumerate() {
        mem.insert(ptr + 1 + i as u64, *p);
    }
}

fn mmr_size_class(n: u64) -> String {
    let peaks = n.count_ones();
    let s = match n {
        0 => "n=0",
        1 => "n=1",
        2..=15 => "n=2..15",
        16..=255 => "n=16..255",
        256..=65535 => "n=256..65535",
        _ => "n>=65536",
    };
    format!("{s}|peaks{}", if peaks > 16 { ">16".to_string() } else if peaks == 16 { "=16".to_string() } else { "<16".to_string() })
}

#[derive(Clone, Debug)]
pub struct MmrStep {
    /// "add-pack" | "add-get" | "get" | "pack-unpack" | "unpack" | "unpack-bad"
    pub op: String,
    pub seed: u64,
    pub n: u64,
    pub ptr: u64,
    pub pos: u64,
}

fn mmr_src(op: &str) -> String {
    let body = match op {
        "add-pack" => "exec.mmr::add exec.mmr::pack",
        "add-get" => "exec.mmr::add exec.mmr::get",
        "get" => "exec.mmr::get",
        "pack-unpack" => "exec.mmr::pack dupw movup.8 movdn.4 exec.mmr::unpack",
        _ => "exec.mmr::unpack",
    };
    scaffold("use.std::collections::mmr", body)
}

/// One MMR step on the native MMR `m` with `n` leaves (leaf i = mmr_leaf(seed, i)). For the add
/// variants `m` is advanced. `store` = inner nodes of `m` (passed in because it is expensive for big MMRs).
pub fn check_mmr_step(ctx: &mut Ctx, m: &mut Mmr, store: &MerkleStore, st: &MmrStep, rep: &mut Report) {
    let n = m.forest() as u64;
    let ptr = st.ptr;
    let procname = match st.op.as_str() {
        "add-pack" | "add-get" => "mmr::add",
        "get" => "mmr::get",
        "pack-unpack" => "mmr::pack",
        _ => "mmr::unpack",
    };
    let src_text = mmr_src(&st.op);
    let Some(prog) = ctx.prog(&src_text, rep) else { return };
    let sent = sentinels(st.seed ^ n, 6);
    let mut mem: BTreeMap<u64, W> = BTreeMap::new();
    let mut stack: Vec<u64> = vec![];
    let mut exp_out: Vec<u64> = vec![];
    let mut exp_mem: BTreeMap<u64, W>;
    let mut first_elem_only: BTreeSet<u64> = BTreeSet::new();
    let mut map: Vec<(W, Vec<u64>)> = vec![];
    let mut must_fail = false;
    let mut no_contract = false;
    let guard_lo = ptr.saturating_sub(1);
    let old_peaks = mmr_peaks(m).len();
    match st.op.as_str() {
        "add-pack" | "add-get" => {
            let el = mmr_leaf(st.seed, n);
            mmr_image(&mut mem, m, ptr);
            if ptr > 0 {
                mem.insert(guard_lo, wordv(st.seed, 77));
            }
            let merges = (n.trailing_ones()) as usize;
            rep.count("mmr_add_merges", &format!("{merges:02}"));
            m.add(to_digest(&el));
            push_word_top_first(&mut stack, &el);
            stack.push(ptr);
            exp_mem = mem.clone();
            for i in 0..=old_peaks as u64 + 1 {
                exp_mem.insert(ptr + 1 + i, EMPTY);
            }
            mmr_image(&mut exp_mem, m, ptr);
            if st.op == "add-pack" {
                stack.push(ptr);
                push_word_top_first(&mut exp_out, &mmr_hash(m));
            } else {
                let pos = st.pos % (n + 1);
                stack.extend_from_slice(&[pos, ptr]);
                let leaf = m.get(pos as usize).map(|d| from_digest(&d)).unwrap_or(EMPTY);
                push_word_top_first(&mut exp_out, &leaf);
                rep.count("mmr_get_after_add", if pos == n { "new-leaf" } else { "older-leaf" });
            }
        }
        "get" => {
            mmr_image(&mut mem, m, ptr);
            exp_mem = mem.clone();
            stack.extend_from_slice(&[st.pos, ptr]);
            match m.get(st.pos as usize) {
                Ok(d) if st.pos < n => push_word_top_first(&mut exp_out, &from_digest(&d)),
                _ => no_contract = true, // position outside the MMR: only "no panic"
            }
        }
        "pack-unpack" => {
            mmr_image(&mut mem, m, ptr);
            // second region, pre-filled with junk, receives the unpacked copy
            let ptr2 = st.pos;
            let words = mmr_msg_words(old_peaks) as u64;
            exp_mem = mem.clone();
            if ptr2 > 0 {
                mem.insert(ptr2 - 1, wordv(st.seed, 78));
            }
            for i in 1..=words + 1 {
                mem.insert(ptr2 + i, wordv(st.seed, 100 + i));
            }
            for (a, w) in &mem {
                exp_mem.entry(*a).or_insert(*w);
            }
            for i in 1..=words {
                exp_mem.insert(ptr2 + i, EMPTY);
            }
            mmr_image(&mut exp_mem, m, ptr2);
            first_elem_only.insert(ptr2);
            stack.extend_from_slice(&[ptr, ptr2]);
            push_word_top_first(&mut exp_out, &mmr_hash(m));
        }
        _ => {
            // unpack from an advice map entry derived from the native peaks
            let peaks = m.peaks(m.forest()).expect("peaks");
            let mut data: Vec<u64> = vec![n, 0, 0, 0];
            data.extend(peaks.flatten_and_pad_peaks().iter().map(|f| f.as_int()));
            let hash = from_digest(&peaks.hash_peaks());
            if st.op == "unpack-bad" {
                let i = 4 + (st.pos as usize % (data.len() - 4));
                data[i] = (data[i] + 1) % P;
                must_fail = true;
            }
            map.push((hash, data));
            let words = mmr_msg_words(old_peaks) as u64;
            if ptr > 0 {
                mem.insert(guard_lo, wordv(st.seed, 79));
            }
            for i in 1..=words + 1 {
                mem.insert(ptr + i, wordv(st.seed, 200 + i));
            }
            exp_mem = mem.clone();
            for i in 1..=words {
                exp_mem.insert(ptr + i, EMPTY);
            }
            mmr_image(&mut exp_mem, m, ptr);
            first_elem_only.insert(ptr);
            push_word_top_first(&mut stack, &hash);
            stack.push(ptr);
        }
    }
    stack.extend_from_slice(&sent);
    let addrs: Vec<u64> = exp_mem.keys().copied().filter(|a| *a < TWO32).collect();
    let mut adv = vec![];
    init_section(&mut adv, &mem);
    read_section(&mut adv, &addrs);
    let mut case = mk_case(&src_text, stack, adv);
    case.advice_map = map;
    let sc = mmr_size_class(n);
    let wit = json!({"kind": "mmr-step", "op": st.op, "leaf_seed": st.seed.to_string(), "n": n, "ptr": ptr, "pos": st.pos, "case": case.to_json(),
        "note": "leaf i = wordv(leaf_seed ^ 0x4D4D5200, i); Merkle store = Mmr::inner_nodes()"});
    rep.eval(&format!("mmr|{}|{sc}", st.op));
    rep.count("procedure", &format!("mmr::{}", st.op));
    rep.count("mmr_size", &sc);
    rep.count("mmr_num_leaves", &format!("{n:06}"));
    let out = ctx.exec(&prog, &case, Some(store));
    rep.count("outcome", &format!("mmr::{}{}:{}", st.op, if no_contract { "[pos-out-of-range]" } else { "" }, out.class()));
    if no_panic(&out, procname, &st.op, &wit, rep) {
        return;
    }
    if no_contract {
        return;
    }
    if must_fail {
        match out {
            Out::Ok(..) => rep.violation(
                "mmr::unpack/corrupted-peaks-accepted",
                format!("mmr::unpack accepted advice data that does not hash to HASH (n={n})"),
                wit,
            ),
            _ => rep.count("mmr_unpack_corrupted_rejected", "rejected"),
        }
        return;
    }
    match out {
        Out::Ok(stack, mut t) => {
            let (words, rest) = split_readback(&stack, addrs.len());
            let got: BTreeMap<u64, W> = addrs.iter().copied().zip(words.iter().copied()).collect();
            for a in &addrs {
                let (g, e) = (got[a], exp_mem[a]);
                let same = if first_elem_only.contains(a) { g[0] == e[0] } else { g == e };
                if !same {
                    let what = if *a == ptr || first_elem_only.contains(a) {
                        "num-leaves-wrong"
                    } else if *a > ptr && *a <= ptr + m.forest().count_ones() as u64 && st.op.starts_with("add") {
                        "peaks-mismatch"
                    } else {
                        "memory-mismatch"
                    };
                    rep.violation(
                        format!("mmr::{}/{what}", st.op),
                        format!("{} on MMR with {n} leaves at ptr {ptr}: word at {a} = {:?}, expected {:?}", st.op, g, e),
                        wit.clone(),
                    );
                    break;
                }
            }
            let no = exp_out.len();
            if rest.len() < no || rest[..no] != exp_out[..] {
                let what = match st.op.as_str() {
                    "add-pack" | "pack-unpack" => "hash-mismatch",
                    _ => "leaf-mismatch",
                };
                rep.violation(
                    format!("mmr::{}/{what}", st.op),
                    format!("{} on MMR with {n} leaves (pos {}): returned {:?}, native {:?}", st.op, st.pos, &rest[..no.min(rest.len())], exp_out),
                    wit.clone(),
                );
            } else if trim(&rest[no..]) != trim(&sent) {
                rep.violation(
                    format!("mmr::{}/stack-transition", st.op),
                    format!("{}: stack below outputs {:?}, expected sentinels {:?}", st.op, &rest[no..], sent),
                    wit.clone(),
                );
            }
            ctx.side(&format!("mmr-{}", st.op), &case, &mut t, rep);
            if n > 4 && st.op.starts_with("add") {
                ctx.sample("mmr", rep, json!({"proc": format!("mmr::{}", st.op), "num_leaves_before": n, "merges": n.trailing_ones(), "ptr": ptr, "returned": truncate(&format!("{:?}", &rest[..no.min(rest.len())]), 120)}));
            }
        }
        Out::Err(k, e) => rep.violation(
            format!("mmr::{}/fails/{k}", st.op),
            format!("{} on MMR with {n} leaves at ptr {ptr} (pos {}) failed: {e}", st.op, st.pos),
            wit,
        ),
        Out::Panic(_) => {}
    }
}

fn mmr_store(m: &Mmr) -> MerkleStore {
    let mut s = MerkleStore::new();
    s.extend(m.inner_nodes());
    s
}

fn rand_ptr(rng: &mut Rng8) -> u64 {
    match rng.gen_range(0..6) {
        0 => rng.gen_range(1..10),
        1 => TWO32 - rng.gen_range(60..5000),
        2 => 0,
        _ => rng.gen_range(10..1u64 << 31),
    }
}

pub fn mmr_sequence(ctx: &mut Ctx, n0: u64, steps: usize, add_pct: u32, rep: &mut Report) {
    let mut rng = ctx.rng.clone();
    let seed: u64 = rng.gen();
    let mut m = mmr_build(seed, n0);
    let mut store = mmr_store(&m);
    let mut stale = false;
    rep.count("mmr_sequences", "started");
    for step in 0..steps {
        let n = m.forest() as u64;
        let ptr = rand_ptr(&mut rng);
        // sequences that rarely add still add once (two thirds in), so that the many-merge case is hit
        let forced = add_pct < 20 && step == steps * 2 / 3;
        let op = if rng.gen_range(0..100) < add_pct || forced {
            if rng.gen_range(0..9) < 5 {
                "add-pack"
            } else {
                "add-get"
            }
        } else {
            ""
        };
        let r = rng.gen_range(45..100);
        let op = if !op.is_empty() {
            op
        } else if r < 65 {
            "get"
        } else if r < 78 {
            "pack-unpack"
        } else if r < 92 {
            "unpack"
        } else {
            "unpack-bad"
        };
        let pos = match op {
            "get" => {
                if n > 0 && rng.gen_range(0..8) != 0 {
                    match rng.gen_range(0..4) {
                        0 => n - 1,
                        1 => 0,
                        _ => rng.gen_range(0..n),
                    }
                } else {
                    n + rng.gen_range(0..3) // outside
                }
            }
            "add-get" => match rng.gen_range(0..3) {
                0 => n,
                _ => rng.gen_range(0..=n),
            },
            "pack-unpack" => {
                // second region far away from the first one
                let p2 = rand_ptr(&mut rng);
                if p2.abs_diff(ptr) < 100 {
                    (ptr + 1000) % (1 << 31)
                } else {
                    p2
                }
            }
            _ => rng.gen(),
        };
        let st = MmrStep { op: op.to_string(), seed, n, ptr, pos };
        if stale && (op == "get" || op == "add-get") {
            // refresh the Merkle store from the native structure (only the ops that read it)
            store = mmr_store(&m);
            stale = false;
        }
        check_mmr_step(ctx, &mut m, &store, &st, rep);
        stale |= op.starts_with("add");
    }
    ctx.rng = rng;
}

fn mmr_util_src(name: &str) -> String {
    format!("use.std::collections::mmr\nbegin\n  exec.mmr::{name}\nend")
}

const MMR_UTILS: [&str; 5] =
    ["u32unchecked_trailing_ones", "trailing_ones", "ilog2_checked", "num_leaves_to_num_peaks", "num_peaks_to_message_size"];
const CHAIN_LENS: [usize; 3] = [2, 3, 5];

/// Assembles every program text of this module exactly once (in parallel); shards share the result.
pub fn preassemble(rep: &mut Report) -> Shared {
    let mut texts: Vec<String> = vec![
        format!("begin\n  {INIT}\n  {READ}\nend"),
        TRUNC_INPUTS.into(),
        TRUNC_PUSHES.into(),
        TRUNC_NESTED.into(),
        memcopy_src(),
        pipe_src("words"),
        pipe_src("double"),
        pipe_src("preimage-ok"),
        SMT_SET.into(),
        SMT_GET.into(),
        SMT_SET_GET.into(),
    ];
    texts.extend(CHAIN_LENS.iter().map(|k| chain_src(*k)));
    texts.extend(["add-pack", "add-get", "get", "pack-unpack", "unpack"].iter().map(|o| mmr_src(o)));
    texts.extend(MMR_UTILS.iter().map(|n| mmr_util_src(n)));
    let progs = par_map(texts.len(), |i| {
        let mut c = Case::new(texts[i].clone());
        c.stdlib = true;
        match c.assemble() {
            AsmOutcome::Ok(p) => Ok(p),
            AsmOutcome::Err(e) => Err(e),
            AsmOutcome::Panic(p) => Err(format!("panic at {}", p.site())),
        }
    });
    let mut map = HashMap::new();
    for (t, p) in texts.into_iter().zip(progs) {
        match p {
            Ok(p) => {
                rep.count("assembled_programs", "shared");
                map.insert(t, p);
            }
            Err(e) => rep.inconclusive(format!("harness-program-did-not-assemble: {}", truncate(&e, 160))),
        }
    }
    std::sync::Arc::new(map)
}

// small exported helpers of the mmr module, checked against their header comments
pub fn check_mmr_util(ctx: &mut Ctx, name: &str, x: u64, rep: &mut Report) {
    let src = mmr_util_src(name);
    let Some(prog) = ctx.prog(&src, rep) else { return };
    let sent = sentinels(x, 15);
    let mut stack = vec![x];
    stack.extend_from_slice(&sent);
    let case = mk_case(&src, stack, vec![]);
    let wit = json!({"kind": "mmr-util", "name": name, "x": x.to_string(), "case": case.to_json()});
    // expected outputs (top first) or None = must fail
    let exp: Option<Vec<u64>> = match name {
        "u32unchecked_trailing_ones" => Some(vec![(x as u32).trailing_ones() as u64]),
        "trailing_ones" => Some(vec![x.trailing_ones() as u64]),
        "ilog2_checked" => {
            if x == 0 {
                None
            } else {
                let l = 31 - (x as u32).leading_zeros() as u64;
                Some(vec![l, 1 << l])
            }
        }
        "num_leaves_to_num_peaks" => Some(vec![x.count_ones() as u64]),
        _ => {
            let m = x.max(16);
            Some(vec![m + m % 2])
        }
    };
    rep.eval(&format!("mmr::{name}|bits{}", 64 - x.leading_zeros()));
    rep.count("procedure", &format!("mmr::{name}"));
    let out = ctx.exec(&prog, &case, None);
    rep.count("outcome", &format!("mmr::{name}:{}", out.class()));
    if no_panic(&out, &format!("mmr::{name}"), "util", &wit, rep) {
        return;
    }
    match (out, exp) {
        (Out::Ok(stack, _), Some(e)) => {
            let mut full = e.clone();
            full.extend_from_slice(&sent);
            if trim(&stack) != trim(&full) {
                rep.violation(
                    format!("mmr::{name}/result-mismatch"),
                    format!("mmr::{name}({x}) -> {:?}, expected {:?}", &stack[..e.len().min(stack.len())], e),
                    wit,
                );
            }
        }
        (Out::Ok(stack, _), None) => rep.violation(
            format!("mmr::{name}/documented-error-missing"),
            format!("mmr::{name}({x}) is documented to error but returned {:?}", &stack[..2]),
            wit,
        ),
        (Out::Err(k, e), Some(_)) => rep.violation(
            format!("mmr::{name}/fails/{k}"),
            format!("mmr::{name}({x}) failed: {e}"),
            wit,
        ),
        _ => {}
    }
}

pub fn mmr_utils(ctx: &mut Ctx, count: usize, rep: &mut Report) {
    let mut rng = ctx.rng.clone();
    for _ in 0..count {
        let u32v = match rng.gen_range(0..4) {
            0 => (1u64 << rng.gen_range(0..33)) - 1,
            1 => 1u64 << rng.gen_range(0..32),
            2 => ((1u64 << rng.gen_range(0..33)) - 1) & !(1u64 << rng.gen_range(0..32)),
            _ => rng.gen::<u32>() as u64,
        } & 0xFFFF_FFFF;
        let u64v = match rng.gen_range(0..4) {
            0 => ((1u128 << rng.gen_range(0..64)) - 1) as u64,
            1 => 1u64 << rng.gen_range(0..63),
            2 => u32v | (rng.gen::<u32>() as u64) << 32,
            _ => rng.gen::<u64>(),
        } % P;
        check_mmr_util(ctx, "u32unchecked_trailing_ones", u32v, rep);
        check_mmr_util(ctx, "trailing_ones", u64v, rep);
        check_mmr_util(ctx, "ilog2_checked", if rng.gen_range(0..30) == 0 { 0 } else { u32v }, rep);
        check_mmr_util(ctx, "num_leaves_to_num_peaks", if rng.gen() { u32v } else { u64v }, rep);
        check_mmr_util(ctx, "num_peaks_to_message_size", rng.gen_range(0..80), rep);
    }
    ctx.rng = rng;
}

// DRIVER
// ================================================================================================

pub fn meta() -> Meta {
    Meta {
        level: "exploration",
        rule: "each evaluation = one execution of a program calling one stdlib procedure (or a short chain of them) on generated inputs, whose final stack and read-back memory window (range + guard words) were compared with a model: truncate_stack for every depth 16..=80 (3 ways of building the depth); memcopy / pipe_words / pipe_double_words / pipe_preimage vs a word-addressed memory model and miden-crypto's Rpo256 (overlapping memcopy ranges: contract silent, only 'no panic'; ranges crossing 2^32 must fail; wrong preimages must fail); smt::set/get and mmr::add/get/pack/unpack/helpers as random operation sequences in lock-step with miden-crypto's Smt / Mmr, the advice inputs (Merkle store, advice map, memory image) being rebuilt from the native structure before every step, plus chained programs where the VM carries the advice state itself; distinct = distinct (procedure, size class, overlap/address class | SMT leaf-state transition and op kind | MMR size class)".into(),
        assumptions: vec![
            "miden-crypto's Smt, Mmr, MmrPeaks and Rpo256 are the oracle for the collections and hashes".into(),
            "contracts are the header comments of stdlib/asm/{sys,mem,collections/smt,collections/mmr}.masm and docs/src/user_docs/stdlib/*.md; where they are silent (overlapping memcopy, mmr::get outside the MMR) only absence of panics is required".into(),
            "memory is observed through mem_loadw read-back appended to the program (self-checked to be the identity)".into(),
            "sequences and inputs are sampled, not enumerated (except truncate_stack depths 16..=80)".into(),
        ],
    }
}

const SHARDS: usize = 32;

pub fn run(cfg: &Cfg) -> Report {
    let reps = cfg.n(3, 30);
    let n_mem = cfg.n(1000, 16000);
    let n_pipe = cfg.n(1000, 16000);
    let n_smt_seq = cfg.n(32, 500);
    let smt_steps = 40;
    let n_mmr_seq = cfg.n(28, 450);
    let n_util = cfg.n(40, 400);
    let thorough = cfg.tier == crate::report::Tier::Thorough;
    // MMRs with more than 16 peaks are expensive natively (2^17 hashes): separate jobs, started first
    let big: Vec<u64> = if thorough {
        vec![(1 << 17) - 1, (1 << 17) - 3, (1 << 18) - 1, (1 << 18) - 1 - (1 << 9), (1 << 17) + (1 << 16) - 2, (1 << 17) + 0xFFFF]
    } else {
        vec![(1 << 17) - 1, (1 << 17) - 3]
    };
    let nbig = big.len();
    let mut pre = Report::new();
    let shared = preassemble(&mut pre);
    let mut reports = par_map(nbig + SHARDS, |job| {
        let mut rep = Report::new();
        let t_job = std::time::Instant::now();
        if job < nbig {
            let mut ctx = Ctx::new(rng_for(cfg.seed, "C18", 1000 + job as u64)).with_shared(shared.clone());
            ctx.side_monitor = false;
            ctx.sampling = false;
            // >16 peaks: stay there until the single forced add (which merges all peaks)
            let add_pct = if big[job].count_ones() > 16 { 0 } else { 35 };
            mmr_sequence(&mut ctx, big[job], if thorough { 24 } else { 10 }, add_pct, &mut rep);
            rep.count_n("cpu_ms_by_section", "mmr-big", t_job.elapsed().as_millis() as u64);
            return rep;
        }
        let sh = job - nbig;
        let mut ctx = Ctx::new(rng_for(cfg.seed, "C18", sh as u64)).with_shared(shared.clone());
        // the AIR side monitor only needs a small sample: 4 of the 32 shards
        ctx.side_monitor = sh % 8 == 0;
        let mut t0 = std::time::Instant::now();
        let mut lap = |rep: &mut Report, what: &str| {
            rep.count_n("cpu_ms_by_section", what, t0.elapsed().as_millis() as u64);
            t0 = std::time::Instant::now();
        };
        if sh == 0 {
            scaffold_selfcheck(&mut ctx, &mut rep);
        }
        // (a) every depth 16..=80 is covered in every run: depth d belongs to shard (d-16) % SHARDS
        for d in 16..=80usize {
            if (d - 16) % SHARDS != sh {
                continue;
            }
            for r in 0..reps {
                for variant in ["inputs", "pushes", "nested"] {
                    let seed = ctx.rng.gen::<u64>() ^ r as u64;
                    check_truncate(&mut ctx, d, variant, seed, &mut rep);
                }
            }
        }
        lap(&mut rep, "truncate_stack");
        // (b)
        for i in 0..n_mem {
            let mut rng = ctx.rng.clone();
            let mut p = gen_memcopy(&mut rng, thorough);
            if i == 0 {
                p.n = 0;
            }
            ctx.rng = rng;
            check_memcopy(&mut ctx, &p, &mut rep);
        }
        lap(&mut rep, "memcopy");
        for _ in 0..n_pipe {
            let mut rng = ctx.rng.clone();
            let p = gen_pipe(&mut rng, thorough);
            ctx.rng = rng;
            check_pipe(&mut ctx, &p, &mut rep);
        }
        lap(&mut rep, "pipe");
        // (c) SMT
        for _ in 0..n_smt_seq {
            smt_sequence(&mut ctx, smt_steps, &mut rep);
        }
        lap(&mut rep, "smt");
        // (c) MMR
        for i in 0..n_mmr_seq {
            let n0 = match (sh + i) % 8 {
                0 => 0,
                1 => (1u64 << ctx.rng.gen_range(1..9)) - 1, // next add merges everything
                2 => ctx.rng.gen_range(0..40),
                3 => ctx.rng.gen_range(40..600),
                4 => (1u64 << ctx.rng.gen_range(2..10)) - ctx.rng.gen_range(1..4),
                5 => ctx.rng.gen_range(0..8),
                6 => ctx.rng.gen_range(0..2000),
                _ => {
                    if i % 16 == 7 {
                        0xFFFF - ctx.rng.gen_range(0..3) // 16 / 15 peaks
                    } else {
                        ctx.rng.gen_range(0..200)
                    }
                }
            };
            mmr_sequence(&mut ctx, n0, 14, 45, &mut rep);
        }
        lap(&mut rep, "mmr");
        mmr_utils(&mut ctx, n_util, &mut rep);
        lap(&mut rep, "mmr-utils");
        rep
    });
    reports.push(pre);
    let mut rep = merge_all(reports);
    floors(&mut rep);
    rep
}

fn floors(rep: &mut Report) {
    for d in 16..=80 {
        rep.floor(rep.get_count("truncate_depth", &format!("{d:02}")) >= 3, &format!("truncate-depth-{d}"));
    }
    rep.floor(rep.get_count("memcopy_n", "n=0") >= 10, "memcopy-n=0");
    rep.floor(rep.get_count("memcopy_n", "n>0") >= 100, "memcopy-n>0");
    let has = |rep: &Report, hist: &str, frag: &str| rep.hist.get(hist).map(|h| h.iter().any(|(k, v)| k.contains(frag) && *v > 0)).unwrap_or(false);
    for c in ["overlap-dst-above-src", "overlap-dst-below-src", "same", "adjacent", "disjoint", "ends-at-2^32", "crosses-2^32", "addr0"] {
        rep.floor(has(rep, "memcopy_class", c), &format!("memcopy-class-{c}"));
    }
    for c in ["words|", "double|", "preimage-ok|", "|odd|", "|even|", "ends-at-2^32", "crosses-2^32", "|n0|"] {
        rep.floor(has(rep, "pipe_class", c), &format!("pipe-class-{c}"));
    }
    rep.floor(rep.get_count("wrong_preimage_rejected", "preimage-bad-com") >= 5, "wrong-commitment-rejected-5x");
    rep.floor(rep.get_count("wrong_preimage_rejected", "preimage-bad-data") >= 5, "wrong-preimage-data-rejected-5x");
    for t in [
        "empty-to-single",
        "single-to-multiple",
        "multiple-to-single",
        "single-to-empty",
        "single-to-single",
        "multiple-to-multiple",
        "empty-to-empty",
    ] {
        rep.floor(rep.get_count("smt_leaf_transition", t) >= 3, &format!("smt-transition-{t}"));
    }
    for c in ["empty|absent", "single|present", "single|absent", "multiple|present", "multiple|absent"] {
        rep.floor(rep.get_count("smt_get_class", c) >= 1, &format!("smt-get-{c}"));
    }
    rep.floor(rep.hist_len("smt_chain_len") >= 2, "smt-chains");
    rep.floor(rep.get_count("smt_unknown_root_rejected", "smt::get") >= 3, "smt-get-unknown-root-rejected");
    rep.floor(rep.get_count("smt_unknown_root_rejected", "smt::set") >= 3, "smt-set-unknown-root-rejected");
    for m in 0..=4 {
        rep.floor(rep.get_count("mmr_add_merges", &format!("{m:02}")) >= 1, &format!("mmr-add-{m}-merges"));
    }
    rep.floor(rep.get_count("mmr_add_merges", "17") >= 1, "mmr-add-17-merges");
    let many: u64 = rep.hist.get("mmr_size").map(|h| h.iter().filter(|(k, _)| k.contains("peaks>16")).map(|(_, v)| *v).sum()).unwrap_or(0);
    rep.floor(many >= 5, "mmr-more-than-16-peaks-5x");
    rep.floor(has(rep, "mmr_size", "n=0"), "mmr-empty");
    for p in ["mmr::add-pack", "mmr::add-get", "mmr::get", "mmr::pack-unpack", "mmr::unpack", "mmr::num_leaves_to_num_peaks", "mmr::trailing_ones", "mmr::ilog2_checked"] {
        rep.floor(rep.get_count("procedure", p) >= 5, &format!("procedure-{p}"));
    }
    rep.floor(rep.get_count("mmr_unpack_corrupted_rejected", "rejected") >= 3, "mmr-unpack-corrupted-rejected");
    rep.floor(rep.hist_len("air_side_monitor") >= 8, "air-side-monitor-kinds");
}

pub fn replay(v: &Value, rep: &mut Report) {
    let mut ctx = Ctx::new(rng_for(0, "C18-replay", 0));
    ctx.side_monitor = false;
    let seed = |k: &str| ju(v, k).unwrap_or(0);
    let entries = |k: &str| -> Vec<(W, W)> {
        v.get(k)
            .and_then(|e| e.as_array())
            .map(|a| a.iter().filter_map(|e| Some((jword(e.get("k")?)?, jword(e.get("v")?)?))).collect())
            .unwrap_or_default()
    };
    match v.get("kind").and_then(|k| k.as_str()).unwrap_or("") {
        "truncate" => {
            let variant = v.get("variant").and_then(|s| s.as_str()).unwrap_or("inputs").to_string();
            check_truncate(&mut ctx, seed("depth").clamp(16, 4096) as usize, &variant, seed("seed"), rep);
        }
        "memcopy" => {
            let p = McParams { n: seed("n"), src: seed("src"), dst: seed("dst"), seed: seed("seed") };
            check_memcopy(&mut ctx, &p, rep);
        }
        "pipe" => {
            let p = PipeParams {
                variant: v.get("variant").and_then(|s| s.as_str()).unwrap_or("words").to_string(),
                n: seed("n"),
                ptr: seed("ptr"),
                seed: seed("seed"),
            };
            check_pipe(&mut ctx, &p, rep);
        }
        "smt-step" => {
            let Some(mut smt) = smt_from(&entries("entries")) else { return };
            let Some(key) = v.get("key").and_then(jword) else { return };
            match v.get("op").and_then(|s| s.as_str()).unwrap_or("") {
                "get" => {
                    check_smt_get(&mut ctx, &smt, &key, rep);
                }
                op => {
                    let value = v.get("value").and_then(jword).unwrap_or(EMPTY);
                    check_smt_set(&mut ctx, &mut smt, &key, &value, op == "set+get", rep);
                }
            }
        }
        "smt-unknown-root" => {
            let Some(smt) = smt_from(&entries("entries")) else { return };
            let Some(key) = v.get("key").and_then(jword) else { return };
            let value = v.get("value").and_then(jword).unwrap_or(EMPTY);
            check_smt_unknown_root(&mut ctx, &smt, &key, &value, rep);
        }
        "smt-chain" => {
            let Some(getkey) = v.get("getkey").and_then(jword) else { return };
            check_smt_chain(&mut ctx, &entries("entries"), &entries("ops"), &getkey, rep);
        }
        "mmr-step" => {
            let st = MmrStep {
                op: v.get("op").and_then(|s| s.as_str()).unwrap_or("get").to_string(),
                seed: seed("leaf_seed"),
                n: seed("n"),
                ptr: seed("ptr"),
                pos: seed("pos"),
            };
            let mut m = mmr_build(st.seed, st.n);
            let store = mmr_store(&m);
            check_mmr_step(&mut ctx, &mut m, &store, &st, rep);
        }
        "mmr-util" => {
            let name = v.get("name").and_then(|s| s.as_str()).unwrap_or("trailing_ones").to_string();
            check_mmr_util(&mut ctx, &name, seed("x"), rep);
        }
        _ => {
            // witness produced by the AIR side monitor: a plain case
            if let Some(case) = v.get("case").and_then(Case::from_json) {
                crate::props::c03::replay(&json!({"case": case.to_json()}), rep);
            }
        }
    }
}
