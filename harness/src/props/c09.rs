//! C09 — not implemented yet (stub).
use crate::report::{Cfg, Meta, Report};

pub fn meta() -> Meta {
    Meta { level: "exploration", rule: "stub".into(), assumptions: vec![] }
}

pub fn run(_cfg: &Cfg) -> Report {
    let mut rep = Report::new();
    rep.inconclusive("not-implemented");
    rep
}

pub fn replay(_v: &serde_json::Value, _rep: &mut Report) {}
