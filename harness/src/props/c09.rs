//! C09 — prover-supplied hints cannot change results (F-host: scripted dishonest host).
//!
//! Every hinted instruction is run as a real, assembled program with (1) the honest default host and
//! (2) a host that follows a script replacing the hint (advice-stack values pushed by an injector,
//! values returned to ADVPOP/ADVPOPW/PIPE, Merkle paths returned to MPVERIFY/MRUPDATE). The oracle is
//! result-based and native (Rust integer ops, own F_p[x]/(x^2-x+2) arithmetic, miden-crypto trees):
//! a dishonest run may fail (error or abort), or succeed with exactly the correct final stack; nothing
//! else. Aborts by panic under dishonest advice are counted, not reported as violations.

use crate::case::{err_kind, exec_host, AsmOutcome, Case, ExecOutcome};
use crate::report::{merge_all, Cfg, Meta, Report};
use crate::util::{biased_felt, par_map, rng_for, Rng8, P};
use processor::crypto::{MerklePath, MerkleStore, MerkleTree, NodeIndex, Rpo256, RpoDigest, SimpleSmt};
use processor::{
    AdviceExtractor, AdviceInjector, AdviceInputs, AdviceProvider, AdviceSource, DefaultHost,
    ExecutionError, ExecutionOptions, Host, HostResponse, MemAdviceProvider, ProcessState, Program,
    StackInputs,
};
use rand::Rng;
use serde_json::{json, Value};
use vm_core::crypto::merkle::LeafIndex;
use vm_core::{DebugOptions, Felt, Word};

type W = [u64; 4];

const S1: u64 = 7_777_777;
const S2: u64 = 8_888_888;

// SCRIPT
// ================================================================================================

/// One scripted deviation of the host. `nth` counts occurrences (0-based) of the trigger kind.
#[derive(Clone, Debug, PartialEq)]
pub enum Step {
    /// after the nth successful run of injector `inj`: pop `vals.len()` elements off the real advice
    /// stack and push `vals` so that `vals[0]` is the next element popped
    ReplaceAfter { inj: String, nth: u32, vals: Vec<u64> },
    /// do not run the nth occurrence of injector `inj`; push `vals` (vals[0] popped first) instead
    Instead { inj: String, nth: u32, vals: Vec<u64> },
    /// the nth PopStack request is answered with `v` (the real element is popped and discarded)
    Pop { nth: u32, v: u64 },
    /// the nth PopStackWord request is answered with `w` (w[0] = element popped first)
    PopWord { nth: u32, w: Vec<u64> },
    /// the nth PopStackDWord request is answered with `w` (8 elements, w[0] popped first)
    PopDWord { nth: u32, w: Vec<u64> },
    /// the nth Merkle path handed to the VM (GetMerklePath or UpdateMerkleNode) is replaced
    Path { nth: u32, path: Vec<W> },
}

fn s(v: u64) -> Value {
    json!(v.to_string())
}
fn sv(v: &[u64]) -> Value {
    Value::Array(v.iter().map(|x| s(*x)).collect())
}
fn pu(v: &Value) -> u64 {
    v.as_str().and_then(|x| x.parse().ok()).or_else(|| v.as_u64()).unwrap_or(0)
}
fn pv(v: &Value) -> Vec<u64> {
    v.as_array().map(|a| a.iter().map(pu).collect()).unwrap_or_default()
}
fn pw(v: &Value) -> W {
    let n = pv(v);
    [n.first().copied().unwrap_or(0), n.get(1).copied().unwrap_or(0), n.get(2).copied().unwrap_or(0), n.get(3).copied().unwrap_or(0)]
}

impl Step {
    pub fn to_json(&self) -> Value {
        match self {
            Step::ReplaceAfter { inj, nth, vals } => json!({"step": "replace-after", "inj": inj, "nth": nth, "vals": sv(vals)}),
            Step::Instead { inj, nth, vals } => json!({"step": "instead", "inj": inj, "nth": nth, "vals": sv(vals)}),
            Step::Pop { nth, v } => json!({"step": "pop", "nth": nth, "v": s(*v)}),
            Step::PopWord { nth, w } => json!({"step": "pop-word", "nth": nth, "w": sv(w)}),
            Step::PopDWord { nth, w } => json!({"step": "pop-dword", "nth": nth, "w": sv(w)}),
            Step::Path { nth, path } => json!({"step": "path", "nth": nth, "path": path.iter().map(|w| sv(w)).collect::<Vec<_>>()}),
        }
    }
    pub fn from_json(v: &Value) -> Option<Step> {
        let nth = v.get("nth").and_then(|n| n.as_u64()).unwrap_or(0) as u32;
        let inj = v.get("inj").and_then(|n| n.as_str()).unwrap_or("").to_string();
        Some(match v.get("step")?.as_str()? {
            "replace-after" => Step::ReplaceAfter { inj, nth, vals: pv(&v["vals"]) },
            "instead" => Step::Instead { inj, nth, vals: pv(&v["vals"]) },
            "pop" => Step::Pop { nth, v: pu(&v["v"]) },
            "pop-word" => Step::PopWord { nth, w: pv(&v["w"]) },
            "pop-dword" => Step::PopDWord { nth, w: pv(&v["w"]) },
            "path" => Step::Path { nth, path: v["path"].as_array().map(|a| a.iter().map(pw).collect()).unwrap_or_default() },
            _ => return None,
        })
    }
    fn route(&self) -> &'static str {
        match self {
            Step::ReplaceAfter { .. } => "replace-after-injector",
            Step::Instead { .. } => "instead-of-injector",
            Step::Pop { .. } => "pop-stack",
            Step::PopWord { .. } => "pop-stack-word",
            Step::PopDWord { .. } => "pop-stack-dword",
            Step::Path { .. } => "merkle-path",
        }
    }
}

fn inj_name(i: &AdviceInjector) -> &'static str {
    match i {
        AdviceInjector::MerkleNodeMerge => "MerkleNodeMerge",
        AdviceInjector::MerkleNodeToStack => "MerkleNodeToStack",
        AdviceInjector::UpdateMerkleNode => "UpdateMerkleNode",
        AdviceInjector::U64Div => "U64Div",
        AdviceInjector::Ext2Inv => "Ext2Inv",
        AdviceInjector::U32Clz => "U32Clz",
        AdviceInjector::U32Ctz => "U32Ctz",
        AdviceInjector::U32Clo => "U32Clo",
        AdviceInjector::U32Cto => "U32Cto",
        AdviceInjector::ILog2 => "ILog2",
        _ => "other",
    }
}

// DISHONEST HOST
// ================================================================================================

pub struct DishonestHost {
    pub inner: DefaultHost<MemAdviceProvider>,
    script: Vec<Step>,
    inj_seen: Vec<(&'static str, u32)>,
    pops: u32,
    pop_words: u32,
    pop_dwords: u32,
    paths: u32,
    /// number of script steps that actually fired
    pub fired: u32,
}

fn w2word(w: &W) -> Word {
    [Felt::new(w[0]), Felt::new(w[1]), Felt::new(w[2]), Felt::new(w[3])]
}

fn to_path(p: &[W]) -> MerklePath {
    MerklePath::new(p.iter().map(|w| RpoDigest::from(w2word(w))).collect())
}

impl DishonestHost {
    pub fn new(provider: MemAdviceProvider, script: Vec<Step>) -> Self {
        DishonestHost { inner: DefaultHost::new(provider), script, inj_seen: vec![], pops: 0, pop_words: 0, pop_dwords: 0, paths: 0, fired: 0 }
    }

    fn bump(&mut self, name: &'static str) -> u32 {
        for e in self.inj_seen.iter_mut() {
            if e.0 == name {
                e.1 += 1;
                return e.1 - 1;
            }
        }
        self.inj_seen.push((name, 1));
        0
    }

    fn push_vals(&mut self, vals: &[u64]) -> Result<(), ExecutionError> {
        for v in vals.iter().rev() {
            self.inner.advice_provider_mut().push_stack(AdviceSource::Value(Felt::new(*v)))?;
        }
        Ok(())
    }

    fn scripted_path(&mut self) -> Option<MerklePath> {
        let k = self.paths;
        self.paths += 1;
        for st in &self.script {
            if let Step::Path { nth, path } = st {
                if *nth == k {
                    self.fired += 1;
                    return Some(to_path(path));
                }
            }
        }
        None
    }
}

impl Host for DishonestHost {
    fn get_advice<S: ProcessState>(&mut self, process: &S, extractor: AdviceExtractor) -> Result<HostResponse, ExecutionError> {
        match extractor {
            AdviceExtractor::PopStack => {
                let k = self.pops;
                self.pops += 1;
                let real = self.inner.get_advice(process, extractor)?;
                for st in &self.script {
                    if let Step::Pop { nth, v } = st {
                        if *nth == k {
                            self.fired += 1;
                            return Ok(HostResponse::Element(Felt::new(*v)));
                        }
                    }
                }
                Ok(real)
            }
            AdviceExtractor::PopStackWord => {
                let k = self.pop_words;
                self.pop_words += 1;
                let real = self.inner.get_advice(process, extractor)?;
                for st in &self.script {
                    if let Step::PopWord { nth, w } = st {
                        if *nth == k && w.len() == 4 {
                            self.fired += 1;
                            return Ok(HostResponse::Word(w2word(&[w[0], w[1], w[2], w[3]])));
                        }
                    }
                }
                Ok(real)
            }
            AdviceExtractor::PopStackDWord => {
                let k = self.pop_dwords;
                self.pop_dwords += 1;
                let real = self.inner.get_advice(process, extractor)?;
                for st in &self.script {
                    if let Step::PopDWord { nth, w } = st {
                        if *nth == k && w.len() == 8 {
                            self.fired += 1;
                            return Ok(HostResponse::DoubleWord([w2word(&[w[0], w[1], w[2], w[3]]), w2word(&[w[4], w[5], w[6], w[7]])]));
                        }
                    }
                }
                Ok(real)
            }
            AdviceExtractor::GetMerklePath => {
                let real = self.inner.get_advice(process, extractor);
                match self.scripted_path() {
                    Some(p) => Ok(HostResponse::MerklePath(p)),
                    None => real,
                }
            }
        }
    }

    fn set_advice<S: ProcessState>(&mut self, process: &S, injector: AdviceInjector) -> Result<HostResponse, ExecutionError> {
        let name = inj_name(&injector);
        let k = self.bump(name);
        let mut instead: Option<Vec<u64>> = None;
        let mut after: Option<Vec<u64>> = None;
        for st in &self.script {
            match st {
                Step::Instead { inj, nth, vals } if inj == name && *nth == k => instead = Some(vals.clone()),
                Step::ReplaceAfter { inj, nth, vals } if inj == name && *nth == k => after = Some(vals.clone()),
                _ => {}
            }
        }
        if let Some(vals) = instead {
            self.fired += 1;
            self.push_vals(&vals)?;
            return Ok(HostResponse::None);
        }
        if matches!(injector, AdviceInjector::UpdateMerkleNode) {
            let real = self.inner.set_advice(process, injector);
            return match self.scripted_path() {
                Some(p) => Ok(HostResponse::MerklePath(p)),
                None => real,
            };
        }
        let resp = self.inner.set_advice(process, injector)?;
        if let Some(vals) = after {
            for _ in 0..vals.len() {
                self.inner.advice_provider_mut().pop_stack(process)?;
            }
            self.push_vals(&vals)?;
            self.fired += 1;
        }
        Ok(resp)
    }

    fn on_event<S: ProcessState>(&mut self, _p: &S, _id: u32) -> Result<HostResponse, ExecutionError> {
        Ok(HostResponse::None)
    }
    fn on_debug<S: ProcessState>(&mut self, _p: &S, _o: &DebugOptions) -> Result<HostResponse, ExecutionError> {
        Ok(HostResponse::None)
    }
    fn on_trace<S: ProcessState>(&mut self, _p: &S, _id: u32) -> Result<HostResponse, ExecutionError> {
        Ok(HostResponse::None)
    }
}

// MERKLE TREE MODEL (miden-crypto MerkleTree / SimpleSmt<16> + own folding)
// ================================================================================================

#[derive(Clone, Debug, PartialEq)]
pub enum TreeSpec {
    /// full binary tree given by all its leaves (power of two many, >= 2)
    Full(Vec<W>),
    /// sparse depth-16 tree given by its non-empty leaves
    Sparse16(Vec<(u64, W)>),
}

impl TreeSpec {
    fn to_json(&self) -> Value {
        match self {
            TreeSpec::Full(l) => json!({"full": l.iter().map(|w| sv(w)).collect::<Vec<_>>()}),
            TreeSpec::Sparse16(e) => json!({"sparse16": e.iter().map(|(i, w)| json!([s(*i), sv(w)])).collect::<Vec<_>>()}),
        }
    }
    fn from_json(v: &Value) -> Option<TreeSpec> {
        if let Some(a) = v.get("full").and_then(|x| x.as_array()) {
            return Some(TreeSpec::Full(a.iter().map(pw).collect()));
        }
        let a = v.get("sparse16")?.as_array()?;
        Some(TreeSpec::Sparse16(a.iter().map(|e| (pu(&e[0]), pw(&e[1]))).collect()))
    }
}

enum TreeImpl {
    Full(MerkleTree),
    Sparse(Box<SimpleSmt<16>>),
}

pub struct Tree {
    pub spec: TreeSpec,
    imp: TreeImpl,
}

fn merge(l: &W, r: &W) -> W {
    Rpo256::merge(&[RpoDigest::from(w2word(l)), RpoDigest::from(w2word(r))]).into()
}

/// Root obtained by hashing `node` up along `path` (bottom-up siblings), index bits LSB first.
fn fold_root(node: &W, path: &[W], index: u64) -> W {
    let mut cur = *node;
    let mut idx = index;
    for sib in path {
        cur = if idx & 1 == 0 { merge(&cur, sib) } else { merge(sib, &cur) };
        idx >>= 1;
    }
    cur
}

impl Tree {
    pub fn build(spec: TreeSpec) -> Option<Tree> {
        let imp = match &spec {
            TreeSpec::Full(l) => TreeImpl::Full(MerkleTree::new(l.iter().map(w2word).collect::<Vec<Word>>()).ok()?),
            TreeSpec::Sparse16(e) => TreeImpl::Sparse(Box::new(SimpleSmt::<16>::with_leaves(e.iter().map(|(i, w)| (*i, w2word(w)))).ok()?)),
        };
        Some(Tree { spec, imp })
    }
    pub fn depth(&self) -> u8 {
        match &self.imp {
            TreeImpl::Full(t) => t.depth(),
            TreeImpl::Sparse(_) => 16,
        }
    }
    pub fn root(&self) -> W {
        match &self.imp {
            TreeImpl::Full(t) => t.root().into(),
            TreeImpl::Sparse(t) => t.root().into(),
        }
    }
    pub fn node(&self, d: u8, i: u64) -> W {
        if d == 0 {
            return self.root();
        }
        let idx = NodeIndex::new(d, i).expect("node index");
        match &self.imp {
            TreeImpl::Full(t) => t.get_node(idx).expect("node").into(),
            TreeImpl::Sparse(t) => t.get_node(idx).expect("node").into(),
        }
    }
    /// siblings from the node at (d, i) up to (excluding) the root
    pub fn path(&self, d: u8, i: u64) -> Vec<W> {
        match &self.imp {
            TreeImpl::Full(t) => t.get_path(NodeIndex::new(d, i).expect("idx")).expect("path").nodes().iter().map(|x| (*x).into()).collect(),
            TreeImpl::Sparse(t) => {
                let leaf = i << (16 - d);
                let vp = t.open(&LeafIndex::<16>::new(leaf).expect("leaf"));
                vp.path.nodes()[(16 - d) as usize..].iter().map(|x| (*x).into()).collect()
            }
        }
    }
    pub fn add_to(&self, store: &mut MerkleStore) {
        match &self.imp {
            TreeImpl::Full(t) => store.extend(t.inner_nodes()),
            TreeImpl::Sparse(t) => store.extend(t.inner_nodes()),
        }
    }
    /// root after replacing a LEAF, computed by miden-crypto (cross-check of `fold_root`)
    pub fn root_after_leaf_update(&self, i: u64, v: &W) -> Option<W> {
        match &self.imp {
            TreeImpl::Full(t) => {
                let mut t2 = t.clone();
                t2.update_leaf(i, w2word(v)).ok()?;
                Some(t2.root().into())
            }
            TreeImpl::Sparse(t) => {
                let mut t2 = (**t).clone();
                t2.insert(LeafIndex::<16>::new(i).ok()?, w2word(v));
                Some(t2.root().into())
            }
        }
    }
}

fn provider_for(trees: &[TreeSpec], advice: &[u64]) -> MemAdviceProvider {
    let mut inputs = AdviceInputs::default().with_stack(advice.iter().map(|v| Felt::new(*v)).collect::<Vec<_>>());
    if !trees.is_empty() {
        let mut store = MerkleStore::default();
        for t in trees {
            if let Some(t) = Tree::build(t.clone()) {
                t.add_to(&mut store);
            }
        }
        inputs = inputs.with_merkle_store(store);
    }
    MemAdviceProvider::from(inputs)
}

// ONE TRIAL
// ================================================================================================

/// Everything that stays fixed for a family of trials: the assembled program and the host content.
pub struct Ctx<'a> {
    pub instr: &'a str,
    pub src: &'a str,
    pub stdlib: bool,
    pub prog: &'a Program,
    pub provider: &'a MemAdviceProvider,
    pub trees: &'a [TreeSpec],
    pub advice: &'a [u64],
}

pub struct Trial {
    /// operand stack, top first
    pub stack: Vec<u64>,
    pub script: Vec<Step>,
    /// expected final stack (top first, zero padded); None = no correct result exists (must fail)
    pub expect: Option<Vec<u64>>,
    pub opclass: String,
    pub relation: String,
}

fn stack_inputs(top_first: &[u64]) -> StackInputs {
    let mut v: Vec<Felt> = top_first.iter().map(|x| Felt::new(*x)).collect();
    v.reverse();
    StackInputs::new(v)
}

fn outputs_match(outs: &[u64], exp: &[u64]) -> bool {
    let n = outs.len().max(exp.len());
    (0..n).all(|k| outs.get(k).copied().unwrap_or(0) == exp.get(k).copied().unwrap_or(0))
}

fn witness(ctx: &Ctx, t: &Trial) -> Value {
    json!({
        "kind": "hint",
        "instr": ctx.instr,
        "src": ctx.src,
        "stdlib": ctx.stdlib,
        "stack_top_first": sv(&t.stack),
        "advice_stack": sv(ctx.advice),
        "trees": ctx.trees.iter().map(|t| t.to_json()).collect::<Vec<_>>(),
        "script": t.script.iter().map(|s| s.to_json()).collect::<Vec<_>>(),
        "expect": t.expect.as_ref().map(|e| sv(e)),
        "opclass": t.opclass,
        "relation": t.relation,
    })
}

/// AIR verdict for a trace the harness is about to report (does the deviation survive the AIR?).
fn air_verdict(trace: &mut processor::ExecutionTrace, si: &StackInputs) -> String {
    let mut rng = rng_for(7, "C09-air", 0);
    let r = crate::props::c03::rand_quad(&mut rng);
    let fails = crate::tair::check_trace_safe::<crate::props::c03::Quad>(trace, si, &r, 3);
    if fails.is_empty() {
        "the resulting trace SATISFIES the whole AIR (provable)".into()
    } else {
        format!("the resulting trace violates the AIR ({})", fails.iter().map(|f| f.sig()).collect::<Vec<_>>().join(","))
    }
}

/// Routines that are exercised but are not among the instructions the property statement lists:
/// accepted wrong results are reported under `outside_statement`, not as violations.
fn outside_statement(instr: &str) -> bool {
    instr == "falcon::mod_12289"
}

/// Stable signatures: one per defect, not one per hint relation.
fn final_sig(instr: &str, kind: &str, relation: &str) -> String {
    match (instr, kind) {
        ("ilog2", "wrong-result-accepted") => "ilog2/wrong-hint-accepted".into(),
        ("ilog2", "invalid-operand-accepted") if relation != "honest" => "ilog2/zero-operand-accepted".into(),
        ("mtree_get", "wrong-result-accepted") if relation.starts_with("other-depth-opening") => "mtree_get/other-depth-opening-accepted".into(),
        ("mtree_verify", "invalid-operand-accepted") if relation.starts_with("other-depth-opening") => "mtree_verify/other-depth-opening-accepted".into(),
        _ => format!("{}/{}/{}", instr, kind, relation),
    }
}

#[derive(Clone, Copy, PartialEq, Eq, Debug)]
pub enum Verdict {
    OkCorrect,
    Rejected,
    Violation,
}

/// Runs one trial and applies the oracle. `air_sample`: additionally check the AIR on the trace.
pub fn evaluate(ctx: &Ctx, t: &Trial, rep: &mut Report, air_sample: bool) -> Verdict {
    let honest = t.script.is_empty();
    let instr = ctx.instr;
    rep.eval(&format!("{}|{}|{}", instr, t.opclass, t.relation));
    rep.count("runs", &format!("{}|{}", instr, if honest { "honest" } else { "dishonest" }));
    rep.count("relation", &format!("{}|{}", instr, t.relation));
    rep.count("opclass", &format!("{}|{}", instr, t.opclass));
    for st in &t.script {
        rep.count("route", st.route());
    }
    let si = stack_inputs(&t.stack);
    let mut host = DishonestHost::new(ctx.provider.clone(), t.script.clone());
    let out = exec_host(ctx.prog, si.clone(), &mut host, crate::case::bounded_opts());
    if !honest && host.fired == 0 {
        // the deviation never reached the VM: this run says nothing (harness gap, not a finding)
        rep.count("unfired", &format!("{}|{}|{}", instr, t.relation, out.class()));
    }
    match out {
        ExecOutcome::Panic(p) => {
            rep.count("outcome", &format!("{}|panic", instr));
            if !honest {
                // the property allows "does not complete": an abort provoked by dishonest advice is
                // recorded as an outcome class, not as a violation
                rep.count("dishonest_outcome", &format!("panic:{}", p.site()));
                rep.count("dishonest", "panicked");
                rep.count("dishonest_panics", &format!("{}|{}|{}", instr, p.site(), p.msg_key()));
                return Verdict::Rejected;
            }
            rep.violation(
                format!("{}/panic/{}", instr, p.site()),
                format!("honest host, {} operands {:?}: panic at {} ({})", t.opclass, t.stack, p.site(), p.message),
                witness(ctx, t),
            );
            Verdict::Violation
        }
        ExecOutcome::Err(e) => {
            let kind = err_kind(&e);
            rep.count("errors", &format!("{}|{}", instr, kind));
            if honest && t.expect.is_some() {
                rep.count("outcome", &format!("{}|honest-failed", instr));
                rep.violation(
                    format!("{}/honest-failed/{}", instr, kind),
                    format!("honest host, valid {} operands {:?}: execution failed with {}", t.opclass, t.stack, e),
                    witness(ctx, t),
                );
                return Verdict::Violation;
            }
            if honest {
                rep.count("outcome", &format!("{}|honest-invalid-rejected", instr));
            } else {
                rep.count("outcome", &format!("{}|rejected", instr));
                rep.count("dishonest", "rejected");
                rep.count("dishonest_outcome", &format!("err:{}", kind));
            }
            Verdict::Rejected
        }
        ExecOutcome::Ok(mut trace) => {
            let outs: Vec<u64> = trace.stack_outputs().stack().to_vec();
            match &t.expect {
                Some(exp) if outputs_match(&outs, exp) => {
                    if honest {
                        rep.count("outcome", &format!("{}|honest-ok", instr));
                    } else {
                        rep.count("outcome", &format!("{}|accepted-correct", instr));
                        rep.count("dishonest", "accepted-with-correct-result");
                        rep.count("dishonest_outcome", "accepted-with-correct-result");
                        rep.count("accepted_correct_relation", &format!("{}|{}", instr, t.relation));
                    }
                    if air_sample {
                        let mut rng = rng_for(11, "C09-air-sample", t.stack.first().copied().unwrap_or(0));
                        let r = crate::props::c03::rand_quad(&mut rng);
                        rep.count("air_checked", instr);
                        for f in crate::tair::check_trace_safe::<crate::props::c03::Quad>(&mut trace, &si, &r, 3) {
                            rep.violation(
                                format!("{}/air/{}", instr, f.sig()),
                                format!("accepted execution ({} host) does not satisfy the AIR: {} constraint {} row {} {}", if honest { "honest" } else { "dishonest" }, f.kind, f.idx, f.row, f.detail),
                                witness(ctx, t),
                            );
                        }
                    }
                    Verdict::OkCorrect
                }
                Some(exp) => {
                    let air = air_verdict(&mut trace, &si);
                    let n = exp.len().max(4).min(outs.len());
                    if honest {
                        rep.count("outcome", &format!("{}|honest-wrong", instr));
                        rep.violation(
                            format!("{}/honest-wrong-result", instr),
                            format!("honest host, {} operands {:?}: final stack {:?}, correct {:?}; {}", t.opclass, t.stack, &outs[..n], exp, air),
                            witness(ctx, t),
                        );
                    } else {
                        rep.count("outcome", &format!("{}|wrong-accepted", instr));
                        rep.count("dishonest_outcome", "accepted-with-wrong-result");
                        if outside_statement(instr) {
                            rep.count("outside_statement", &format!("{}|wrong-result-accepted|{}", instr, t.relation));
                            return Verdict::Violation;
                        }
                        rep.violation(
                            final_sig(instr, "wrong-result-accepted", &t.relation),
                            format!("dishonest host ({}), {} operands {:?}: execution completed with final stack {:?}, correct is {:?}; {}", t.relation, t.opclass, t.stack, &outs[..n], exp, air),
                            witness(ctx, t),
                        );
                    }
                    Verdict::Violation
                }
                None => {
                    let air = air_verdict(&mut trace, &si);
                    rep.count("outcome", &format!("{}|invalid-accepted", instr));
                    if !honest {
                        rep.count("dishonest_outcome", "completed-without-correct-result");
                    }
                    if outside_statement(instr) {
                        rep.count("outside_statement", &format!("{}|invalid-operand-accepted|{}", instr, t.relation));
                        return Verdict::Violation;
                    }
                    rep.violation(
                        final_sig(instr, "invalid-operand-accepted", if honest { "honest" } else { t.relation.as_str() }),
                        format!("{} host ({}), {} operands {:?} for which no correct result exists: execution completed with {:?}; {}", if honest { "honest" } else { "dishonest" }, t.relation, t.opclass, t.stack, &outs[..8.min(outs.len())], air),
                        witness(ctx, t),
                    );
                    Verdict::Violation
                }
            }
        }
    }
}

fn assemble(src: &str, stdlib: bool) -> Result<Box<Program>, String> {
    let case = Case { src: src.to_string(), stdlib, ..Default::default() };
    match case.assemble() {
        AsmOutcome::Ok(p) => Ok(p),
        AsmOutcome::Err(e) => Err(e),
        AsmOutcome::Panic(p) => Err(format!("panic {}", p.site())),
    }
}

/// Programs are assembled once per process and shared by all shards.
pub struct Progs {
    map: std::collections::BTreeMap<&'static str, (String, bool, Box<Program>)>,
}

pub const PROGRAMS: &[(&str, &str, bool)] = &[
    ("u32clz", "begin u32clz end", false),
    ("u32ctz", "begin u32ctz end", false),
    ("u32clo", "begin u32clo end", false),
    ("u32cto", "begin u32cto end", false),
    ("ilog2", "begin ilog2 end", false),
    ("ext2inv", "begin ext2inv end", false),
    ("ext2div", "begin ext2div end", false),
    ("u64::div", "use.std::math::u64 begin exec.u64::div end", true),
    ("u64::mod", "use.std::math::u64 begin exec.u64::mod end", true),
    ("u64::divmod", "use.std::math::u64 begin exec.u64::divmod end", true),
    ("u64::clz", "use.std::math::u64 begin exec.u64::clz end", true),
    ("u64::ctz", "use.std::math::u64 begin exec.u64::ctz end", true),
    ("u64::clo", "use.std::math::u64 begin exec.u64::clo end", true),
    ("u64::cto", "use.std::math::u64 begin exec.u64::cto end", true),
    ("falcon::mod_12289", "use.std::crypto::dsa::rpo_falcon512 begin exec.rpo_falcon512::mod_12289 end", true),
    ("mtree_get", "begin mtree_get end", false),
    ("mtree_set", "begin mtree_set end", false),
    ("mtree_verify", "begin mtree_verify end", false),
    ("mtree_merge", "begin mtree_merge end", false),
    ("mtree_merge+get", "begin mtree_merge movup.5 movup.5 swap mtree_get end", false),
];

impl Progs {
    pub fn build() -> Result<Progs, String> {
        let mut map = std::collections::BTreeMap::new();
        for (name, src, stdlib) in PROGRAMS {
            let p = assemble(src, *stdlib).map_err(|e| format!("{name}: {e}"))?;
            map.insert(*name, (src.to_string(), *stdlib, p));
        }
        Ok(Progs { map })
    }
    fn get(&self, name: &str) -> (&str, bool, &Program) {
        let e = self.map.get(name).expect("program");
        (e.0.as_str(), e.1, &e.2)
    }
}

// NATIVE ORACLES
// ================================================================================================

fn bitcount_truth(kind: u8, a: u32) -> u64 {
    (match kind {
        0 => a.leading_zeros(),
        1 => a.trailing_zeros(),
        2 => a.leading_ones(),
        _ => a.trailing_ones(),
    }) as u64
}

fn mulmod(a: u64, b: u64) -> u64 {
    ((a as u128 * b as u128) % P as u128) as u64
}
fn addmod(a: u64, b: u64) -> u64 {
    ((a as u128 + b as u128) % P as u128) as u64
}
fn negmod(a: u64) -> u64 {
    if a == 0 {
        0
    } else {
        P - a
    }
}
fn submod(a: u64, b: u64) -> u64 {
    addmod(a, negmod(b))
}
fn powmod(mut b: u64, mut e: u64) -> u64 {
    let mut r = 1u64;
    while e > 0 {
        if e & 1 == 1 {
            r = mulmod(r, b);
        }
        b = mulmod(b, b);
        e >>= 1;
    }
    r
}
fn invmod(a: u64) -> u64 {
    powmod(a, P - 2)
}
/// product in F_p[x]/(x^2 - x + 2), elements as (c0, c1) = c0 + c1 x
fn ext2_mul(a: (u64, u64), b: (u64, u64)) -> (u64, u64) {
    // x^2 = x - 2
    let a0b0 = mulmod(a.0, b.0);
    let a1b1 = mulmod(a.1, b.1);
    let cross = addmod(mulmod(a.0, b.1), mulmod(a.1, b.0));
    (submod(a0b0, addmod(a1b1, a1b1)), addmod(cross, a1b1))
}
/// inverse via the norm: conj(a0 + a1 x) = (a0 + a1) - a1 x, N = a0^2 + a0 a1 + 2 a1^2
fn ext2_inv(a: (u64, u64)) -> Option<(u64, u64)> {
    if a == (0, 0) {
        return None;
    }
    let n = addmod(addmod(mulmod(a.0, a.0), mulmod(a.0, a.1)), mulmod(2, mulmod(a.1, a.1)));
    if n == 0 {
        return None;
    }
    let ni = invmod(n);
    let r = (mulmod(addmod(a.0, a.1), ni), mulmod(negmod(a.1), ni));
    if ext2_mul(a, r) == (1, 0) {
        Some(r)
    } else {
        None
    }
}

fn rand_felt(rng: &mut Rng8) -> u64 {
    rng.gen_range(0..P)
}
fn rand_word(rng: &mut Rng8) -> W {
    [rand_felt(rng), rand_felt(rng), rand_felt(rng), rand_felt(rng)]
}

/// Shard selector: deterministic grid items are spread over the shards, so that the union of all
/// shards covers the whole grid exactly once.
#[derive(Clone, Copy)]
pub struct Sel {
    shard: usize,
    shards: usize,
}
impl Sel {
    fn mine(&self, idx: usize) -> bool {
        idx % self.shards == self.shard
    }
}

// FAMILY: BIT COUNTS (u32clz/ctz/clo/cto and the u64 wrappers)
// ================================================================================================

fn u32_operands() -> Vec<(u64, &'static str)> {
    let mut v: Vec<(u64, &'static str)> = vec![(0, "zero"), (1, "one"), (u32::MAX as u64, "max"), (0xAAAA_AAAA, "alternating"), (0x5555_5555, "alternating"), (0xFFFF_0000, "half"), (0x0000_FFFF, "half"), (0xFFFF_FFFE, "near-max"), (0x7FFF_FFFF, "near-max")];
    for k in 1..32u32 {
        v.push((1u64 << k, "pow2"));
        v.push(((1u64 << k) - 1, "pow2-1"));
        v.push(((u32::MAX as u64) ^ (1u64 << k), "all-ones-but-one"));
        if k > 1 {
            v.push(((1u64 << k) + 1, "pow2+1"));
        }
    }
    v
}

fn count_relation(h: u64, truth: u64, special: bool, random: bool) -> &'static str {
    if h == truth {
        "equal"
    } else if h + 1 == truth || h == truth + 1 {
        "off-by-one"
    } else if random {
        "random"
    } else if special {
        "boundary"
    } else if h <= 32 {
        "in-range-wrong"
    } else {
        "out-of-range"
    }
}

/// hint grid for a bit count / logarithm: (value, special, random)
fn count_hints(rng: &mut Rng8, truth: u64, n_rand: usize) -> Vec<(u64, bool, bool)> {
    let mut h: Vec<(u64, bool, bool)> = (0..=64u64).map(|x| (x, false, false)).collect();
    for x in [P - 1, P - 32, P - truth.max(1), 1u64 << 32, (1u64 << 32) + truth, 1u64 << 63, 65, 127, 128, 255, 256] {
        h.push((x, true, false));
    }
    for _ in 0..n_rand {
        h.push((rand_felt(rng), false, true));
    }
    h
}

const BIT_INJ: [&str; 4] = ["U32Clz", "U32Ctz", "U32Clo", "U32Cto"];

fn fam_bitcount(pg: &Progs, prov: &MemAdviceProvider, sel: Sel, rng: &mut Rng8, n_rand_ops: usize, rep: &mut Report) {
    let names = ["u32clz", "u32ctz", "u32clo", "u32cto"];
    let mut ops = u32_operands();
    for _ in 0..n_rand_ops {
        ops.push((rng.gen::<u32>() as u64, "random"));
    }
    let fixed = u32_operands().len();
    for (kind, name) in names.iter().enumerate() {
        let (src, stdlib, prog) = pg.get(name);
        let ctx = Ctx { instr: name, src, stdlib, prog, provider: prov, trees: &[], advice: &[] };
        for (oi, (a, class)) in ops.iter().enumerate() {
            if oi < fixed && !sel.mine(oi + kind) {
                continue;
            }
            let truth = bitcount_truth(kind as u8, *a as u32);
            let expect = Some(vec![truth, S1, S2]);
            let stack = vec![*a, S1, S2];
            evaluate(&ctx, &Trial { stack: stack.clone(), script: vec![], expect: expect.clone(), opclass: class.to_string(), relation: "honest".into() }, rep, oi % 16 == 0);
            for (hi, (h, special, random)) in count_hints(rng, truth, 4).into_iter().enumerate() {
                let rel = count_relation(h, truth, special, random);
                let script = if (hi + oi) % 2 == 0 { vec![Step::ReplaceAfter { inj: BIT_INJ[kind].into(), nth: 0, vals: vec![h] }] } else { vec![Step::Pop { nth: 0, v: h }] };
                evaluate(&ctx, &Trial { stack: stack.clone(), script, expect: expect.clone(), opclass: class.to_string(), relation: rel.into() }, rep, false);
            }
        }
    }
    // u64 wrappers (std::math::u64::{clz,ctz,clo,cto}): one u32 hint consumed on one of the limbs
    let names64 = ["u64::clz", "u64::ctz", "u64::clo", "u64::cto"];
    let limbs: [u64; 9] = [0, 1, 0x8000_0000, 0xFFFF_FFFF, 0xFFFF_FFFE, 0x7FFF_FFFF, 0x0001_0000, 0xAAAA_AAAA, 0xFFFF_0000];
    for (kind, name) in names64.iter().enumerate() {
        let (src, stdlib, prog) = pg.get(name);
        let ctx = Ctx { instr: name, src, stdlib, prog, provider: prov, trees: &[], advice: &[] };
        let mut pairs: Vec<(u64, u64, bool)> = vec![];
        for hi in limbs {
            for lo in limbs {
                pairs.push((hi, lo, false));
            }
        }
        for _ in 0..n_rand_ops / 2 {
            pairs.push((rng.gen::<u32>() as u64, rng.gen::<u32>() as u64, true));
        }
        for (oi, (hi, lo, random)) in pairs.iter().enumerate() {
            if !*random && !sel.mine(oi + kind) {
                continue;
            }
            let n = (hi << 32) | lo;
            let truth = (match kind {
                0 => n.leading_zeros(),
                1 => n.trailing_zeros(),
                2 => n.leading_ones(),
                _ => n.trailing_ones(),
            }) as u64;
            // which limb the inner u32 instruction sees (from the documented definition of the count)
            let inner = match kind {
                0 => if *hi == 0 { *lo } else { *hi },
                1 => if *lo == 0 { *hi } else { *lo },
                2 => if *hi == 0xFFFF_FFFF { *lo } else { *hi },
                _ => if *lo == 0xFFFF_FFFF { *hi } else { *lo },
            };
            let inner_truth = bitcount_truth(kind as u8, inner as u32);
            let class = if *random { "random" } else if truth >= 32 { "count>=32" } else { "count<32" };
            let expect = Some(vec![truth, S1, S2]);
            let stack = vec![*hi, *lo, S1, S2];
            evaluate(&ctx, &Trial { stack: stack.clone(), script: vec![], expect: expect.clone(), opclass: class.into(), relation: "honest".into() }, rep, oi % 16 == 0);
            for (hix, (h, special, rnd)) in count_hints(rng, inner_truth, 2).into_iter().enumerate() {
                let rel = count_relation(h, inner_truth, special, rnd);
                let script = if (hix + oi) % 2 == 0 { vec![Step::ReplaceAfter { inj: BIT_INJ[kind].into(), nth: 0, vals: vec![h] }] } else { vec![Step::Pop { nth: 0, v: h }] };
                evaluate(&ctx, &Trial { stack: stack.clone(), script, expect: expect.clone(), opclass: class.into(), relation: rel.into() }, rep, false);
            }
        }
    }
}

// FAMILY: ILOG2
// ================================================================================================

fn ilog2_operands() -> Vec<(u64, &'static str)> {
    let mut v: Vec<(u64, &'static str)> = vec![(1, "one"), (P - 1, "p-1"), (P - 2, "p-1"), (3, "small"), (5, "small"), (6, "small"), (7, "small")];
    for k in 1..64u32 {
        let p2 = 1u64 << k;
        v.push((p2, "pow2"));
        if p2 + 1 < P && k > 0 {
            v.push((p2 + 1, "pow2+1"));
        }
        if k > 1 {
            v.push((p2 - 1, "pow2-1"));
        }
    }
    v.push((0xFFFF_FFFF_0000_0000, "p-1")); // p - 1 as bits: high half all ones, low half zero
    v.push((0xFFFF_FFFF, "pow2-1"));
    v.push((0x1_0000_0001, "pow2+1"));
    v.push((0x8000_0000_8000_0000, "both-halves"));
    v.push((0x0000_0001_FFFF_FFFF, "both-halves"));
    v.push((0x7FFF_FFFF_0000_0001, "both-halves"));
    v
}

fn fam_ilog2(pg: &Progs, prov: &MemAdviceProvider, sel: Sel, rng: &mut Rng8, n_rand_ops: usize, rep: &mut Report) {
    let (src, stdlib, prog) = pg.get("ilog2");
    let ctx = Ctx { instr: "ilog2", src, stdlib, prog, provider: prov, trees: &[], advice: &[] };
    let mut ops = ilog2_operands();
    let fixed = ops.len();
    for k in 0..n_rand_ops {
        let a = match k % 3 {
            0 => rng.gen_range(1..P),
            1 => rng.gen_range(1..1u64 << 32),
            _ => rng.gen_range(1..P) >> rng.gen_range(0..63),
        }
        .max(1);
        ops.push((a, "random"));
    }
    for (oi, (a, class)) in ops.iter().enumerate() {
        if oi < fixed && !sel.mine(oi) {
            continue;
        }
        let truth = (63 - a.leading_zeros()) as u64;
        let expect = Some(vec![truth, S1, S2]);
        let stack = vec![*a, S1, S2];
        evaluate(&ctx, &Trial { stack: stack.clone(), script: vec![], expect: expect.clone(), opclass: class.to_string(), relation: "honest".into() }, rep, oi % 16 == 0);
        for (hi, (h, special, random)) in count_hints(rng, truth, 4).into_iter().enumerate() {
            let mut rel = count_relation(h, truth, special, random);
            if rel == "in-range-wrong" || (rel == "out-of-range" && h <= 63) {
                rel = if h <= 63 { "in-range-wrong" } else { "out-of-range" };
            }
            let script = if (hi + oi) % 2 == 0 { vec![Step::ReplaceAfter { inj: "ILog2".into(), nth: 0, vals: vec![h] }] } else { vec![Step::Pop { nth: 0, v: h }] };
            evaluate(&ctx, &Trial { stack: stack.clone(), script, expect: expect.clone(), opclass: class.to_string(), relation: rel.into() }, rep, false);
        }
    }
    // a = 0: documented to fail; no hint may make it complete
    if sel.mine(0) {
        let stack = vec![0, S1, S2];
        evaluate(&ctx, &Trial { stack: stack.clone(), script: vec![], expect: None, opclass: "zero(invalid)".into(), relation: "honest".into() }, rep, false);
        for (h, special, random) in count_hints(rng, 0, 4) {
            let rel = if random { "random" } else if special { "boundary" } else if h <= 63 { "in-range-wrong" } else { "out-of-range" };
            evaluate(&ctx, &Trial { stack: stack.clone(), script: vec![Step::Instead { inj: "ILog2".into(), nth: 0, vals: vec![h] }], expect: None, opclass: "zero(invalid)".into(), relation: rel.into() }, rep, false);
        }
    }
}

// FAMILY: EXT2INV / EXT2DIV
// ================================================================================================

fn ext2_operands(rng: &mut Rng8, n_rand: usize) -> Vec<((u64, u64), &'static str, bool)> {
    let x = rand_felt(rng).max(2);
    let y = rand_felt(rng).max(2);
    let mut v: Vec<((u64, u64), &'static str, bool)> = vec![
        ((1, 0), "one", false),
        ((0, 1), "(0,x)", false),
        ((0, x), "(0,x)", false),
        ((0, P - 1), "(0,x)", false),
        ((x, 0), "(x,0)", false),
        ((P - 1, 0), "(x,0)", false),
        ((2, 0), "(x,0)", false),
        ((1, 1), "small", false),
        ((2, 3), "small", false),
        ((P - 1, P - 1), "boundary", false),
        ((P - 1, 1), "boundary", false),
        ((1, P - 1), "boundary", false),
        ((1u64 << 32, (1u64 << 32) - 1), "boundary", false),
        ((x, y), "generic", false),
    ];
    for _ in 0..n_rand {
        v.push(((rand_felt(rng), rand_felt(rng)), "generic", true));
    }
    v
}

/// hint grid for an extension-field inverse: (pair, relation)
fn ext2_hints(rng: &mut Rng8, a: (u64, u64), t: Option<(u64, u64)>, n_rand: usize) -> Vec<((u64, u64), &'static str)> {
    let mut h: Vec<((u64, u64), &'static str)> = vec![];
    if let Some(t) = t {
        h.push((t, "equal"));
        h.push(((addmod(t.0, 1), t.1), "off-by-one"));
        h.push(((submod(t.0, 1), t.1), "off-by-one"));
        h.push(((t.0, addmod(t.1, 1)), "off-by-one"));
        h.push(((t.0, submod(t.1, 1)), "off-by-one"));
        h.push(((t.1, t.0), "related"));
        h.push(((negmod(t.0), negmod(t.1)), "related"));
        h.push(((negmod(t.0), t.1), "related"));
        h.push(((t.0, negmod(t.1)), "related"));
        h.push(((addmod(t.0, t.1), negmod(t.1)), "related"));
        h.push(((t.0, 0), "related"));
        h.push(((0, t.1), "related"));
    }
    if a.0 != 0 {
        h.push(((invmod(a.0), 0), "related"));
    }
    if a.1 != 0 {
        h.push(((0, invmod(a.1)), "related"));
        h.push(((invmod(a.1), 0), "related"));
    }
    h.push((a, "related"));
    for p in [(0, 0), (1, 0), (0, 1), (1, 1), (P - 1, 0), (0, P - 1), (P - 1, P - 1), (1u64 << 32, 0), (0, 1u64 << 32)] {
        h.push((p, "boundary"));
    }
    for _ in 0..n_rand {
        h.push(((rand_felt(rng), rand_felt(rng)), "random"));
        h.push(((biased_felt(rng), biased_felt(rng)), "random"));
    }
    // label by value, not by construction: anything equal to the true inverse is "equal"
    h.into_iter().map(|(p, r)| if Some(p) == t { (p, "equal") } else { (p, if r == "equal" { "related" } else { r }) }).collect()
}

fn ext2_scripts(hi: usize, h: (u64, u64), t: Option<(u64, u64)>, valid: bool) -> Vec<Step> {
    if !valid {
        return vec![Step::Instead { inj: "Ext2Inv".into(), nth: 0, vals: vec![h.0, h.1] }];
    }
    match (hi % 3, t) {
        // replace only the coordinate that differs when a single pop suffices
        (1, Some(t)) if t.1 == h.1 => vec![Step::Pop { nth: 0, v: h.0 }],
        (1, Some(t)) if t.0 == h.0 => vec![Step::Pop { nth: 1, v: h.1 }],
        (2, _) => vec![Step::Pop { nth: 0, v: h.0 }, Step::Pop { nth: 1, v: h.1 }],
        _ => vec![Step::ReplaceAfter { inj: "Ext2Inv".into(), nth: 0, vals: vec![h.0, h.1] }],
    }
}

fn fam_ext2(pg: &Progs, prov: &MemAdviceProvider, sel: Sel, rng: &mut Rng8, n_rand_ops: usize, rep: &mut Report) {
    // ext2inv: [a1, a0, ...] -> [a1', a0', ...]
    {
        let (src, stdlib, prog) = pg.get("ext2inv");
        let ctx = Ctx { instr: "ext2inv", src, stdlib, prog, provider: prov, trees: &[], advice: &[] };
        let mut ops = ext2_operands(rng, n_rand_ops);
        ops.push(((0, 0), "zero(invalid)", false));
        for (oi, (a, class, random)) in ops.iter().enumerate() {
            if !*random && !sel.mine(oi) {
                continue;
            }
            let t = ext2_inv(*a);
            let valid = *a != (0, 0);
            if valid && t.is_none() {
                rep.inconclusive("ext2-oracle-self-check-failed");
                continue;
            }
            let expect = t.map(|t| vec![t.1, t.0, S1, S2]);
            let stack = vec![a.1, a.0, S1, S2];
            evaluate(&ctx, &Trial { stack: stack.clone(), script: vec![], expect: expect.clone(), opclass: class.to_string(), relation: "honest".into() }, rep, oi % 8 == 0);
            for (hi, (h, rel)) in ext2_hints(rng, *a, t, 6).into_iter().enumerate() {
                let script = ext2_scripts(hi, h, t, valid);
                evaluate(&ctx, &Trial { stack: stack.clone(), script, expect: expect.clone(), opclass: class.to_string(), relation: rel.into() }, rep, false);
            }
        }
    }
    // ext2div: [b1, b0, a1, a0, ...] -> [c1, c0, ...], c = a * b^-1
    {
        let (src, stdlib, prog) = pg.get("ext2div");
        let ctx = Ctx { instr: "ext2div", src, stdlib, prog, provider: prov, trees: &[], advice: &[] };
        let mut bs = ext2_operands(rng, n_rand_ops);
        bs.push(((0, 0), "zero(invalid)", false));
        for (oi, (b, class, random)) in bs.iter().enumerate() {
            if !*random && !sel.mine(oi) {
                continue;
            }
            let x = rand_felt(rng);
            let dividends: [(u64, u64); 5] = [(rand_felt(rng), rand_felt(rng)), (0, 0), (1, 0), (0, x), *b];
            let a = dividends[oi % dividends.len()];
            let t = ext2_inv(*b);
            let valid = *b != (0, 0);
            if valid && t.is_none() {
                rep.inconclusive("ext2-oracle-self-check-failed");
                continue;
            }
            let expect = t.map(|t| {
                let c = ext2_mul(a, t);
                vec![c.1, c.0, S1, S2]
            });
            let stack = vec![b.1, b.0, a.1, a.0, S1, S2];
            let class = format!("b={}", class);
            evaluate(&ctx, &Trial { stack: stack.clone(), script: vec![], expect: expect.clone(), opclass: class.clone(), relation: "honest".into() }, rep, oi % 8 == 0);
            for (hi, (h, rel)) in ext2_hints(rng, *b, t, 6).into_iter().enumerate() {
                let script = ext2_scripts(hi, h, t, valid);
                evaluate(&ctx, &Trial { stack: stack.clone(), script, expect: expect.clone(), opclass: class.clone(), relation: rel.into() }, rep, false);
            }
        }
    }
}

// FAMILY: 64-BIT DIVISION (std::math::u64::{div,mod,divmod}, rpo_falcon512::mod_12289)
// ================================================================================================

const LIMBS: [u64; 8] = [0, 1, 2, 1 << 16, 1 << 31, (1 << 32) - 2, (1 << 32) - 1, 12289];

/// hint grid for a 64-bit division a / b with truth (q, r): ([q_lo, q_hi, r_lo, r_hi], relation)
fn div_hints(rng: &mut Rng8, a: u64, b: u64, n_rand: usize) -> Vec<([u64; 4], &'static str)> {
    let lim = |q: u64, r: u64| [q & 0xFFFF_FFFF, q >> 32, r & 0xFFFF_FFFF, r >> 32];
    let mut h: Vec<([u64; 4], &'static str)> = vec![];
    let (q, r) = if b == 0 { (0, a) } else { (a / b, a % b) };
    let t = lim(q, r);
    if b != 0 {
        h.push((t, "equal"));
    }
    for (dq, dr) in [(1i64, 0i64), (-1, 0), (0, 1), (0, -1), (1, 1), (-1, -1), (1, -1), (-1, 1)] {
        h.push((lim(q.wrapping_add(dq as u64), r.wrapping_add(dr as u64)), "off-by-one"));
    }
    // a = q' b + r' still holds (mod 2^64) but r' is not the remainder
    for k in [1u64, 2, 3, q, q / 2, (1u64 << 32)] {
        h.push((lim(q.wrapping_sub(k), r.wrapping_add(k.wrapping_mul(b))), "compensated"));
        h.push((lim(q.wrapping_add(k), r.wrapping_sub(k.wrapping_mul(b))), "compensated"));
    }
    h.push((lim(0, a), "compensated"));
    // limbs outside the 32-bit range (numerically equivalent or not)
    if t[1] > 0 {
        h.push(([t[0] + (1 << 32), t[1] - 1, t[2], t[3]], "out-of-range"));
    }
    if t[3] > 0 {
        h.push(([t[0], t[1], t[2] + (1 << 32), t[3] - 1], "out-of-range"));
    }
    for k in 0..4 {
        for v in [1u64 << 32, (1u64 << 32) + t[k], P - 1, P - (1 << 32), 1u64 << 63, P.wrapping_sub(t[k]).min(P - 1)] {
            let mut x = t;
            x[k] = v;
            h.push((x, "out-of-range"));
        }
    }
    // the same value read as a field element: q' = q + (p mod 2^64) tricks are limb-range violations
    h.push(([q % P, 0, r % P, 0], "out-of-range"));
    // structure
    h.push(([t[1], t[0], t[3], t[2]], "related"));
    h.push(([t[2], t[3], t[0], t[1]], "related"));
    h.push(([t[0], t[1], t[0], t[1]], "related"));
    h.push(([a & 0xFFFF_FFFF, a >> 32, 0, 0], "related"));
    h.push(([b & 0xFFFF_FFFF, b >> 32, 0, 0], "related"));
    for z in [[0u64; 4], [1, 0, 0, 0], [0, 0, 1, 0], [0xFFFF_FFFF; 4], [0xFFFF_FFFF, 0xFFFF_FFFF, 0, 0], [0, 0, 0xFFFF_FFFF, 0xFFFF_FFFF]] {
        h.push((z, "boundary"));
    }
    for k in 0..n_rand {
        if k % 2 == 0 {
            h.push(([rng.gen::<u32>() as u64, rng.gen::<u32>() as u64, rng.gen::<u32>() as u64, rng.gen::<u32>() as u64], "random"));
        } else {
            h.push(([biased_felt(rng), biased_felt(rng), biased_felt(rng), biased_felt(rng)], "random"));
        }
    }
    h.into_iter()
        .map(|(x, rel)| {
            let x = [x[0] % P, x[1] % P, x[2] % P, x[3] % P];
            if b != 0 && x == t {
                (x, "equal")
            } else {
                (x, if rel == "equal" { "related" } else { rel })
            }
        })
        .collect()
}

fn div_script(hi: usize, h: &[u64; 4], truth: Option<[u64; 4]>) -> Vec<Step> {
    match truth {
        None => vec![Step::Instead { inj: "U64Div".into(), nth: 0, vals: h.to_vec() }],
        Some(t) => {
            let diff: Vec<usize> = (0..4).filter(|k| h[*k] != t[*k]).collect();
            if hi % 2 == 1 && !diff.is_empty() {
                diff.iter().map(|k| Step::Pop { nth: *k as u32, v: h[*k] }).collect()
            } else {
                vec![Step::ReplaceAfter { inj: "U64Div".into(), nth: 0, vals: h.to_vec() }]
            }
        }
    }
}

fn div_class(a: u64, b: u64) -> &'static str {
    if b == 0 {
        "b=0(invalid)"
    } else if b == 1 {
        "b=1"
    } else if a < b {
        "a<b"
    } else if a == b {
        "a=b"
    } else if b >> 32 == 0 {
        "b<2^32"
    } else if b & 0xFFFF_FFFF == 0 {
        "b=hi-limb-only"
    } else if a % b == 0 {
        "exact"
    } else {
        "generic"
    }
}

fn fam_u64div(pg: &Progs, prov: &MemAdviceProvider, sel: Sel, rng: &mut Rng8, n_rand_ops: usize, rep: &mut Report) {
    let mut pairs: Vec<(u64, u64, bool)> = vec![];
    for ah in LIMBS {
        for al in LIMBS {
            for bh in LIMBS {
                for bl in LIMBS {
                    pairs.push(((ah << 32) | al, (bh << 32) | bl, false));
                }
            }
        }
    }
    for k in 0..n_rand_ops {
        let a = rng.gen::<u64>() >> rng.gen_range(0..40);
        let b = match k % 3 {
            0 => rng.gen::<u64>() >> rng.gen_range(0..63),
            1 => rng.gen::<u32>() as u64,
            _ => a.wrapping_add(rng.gen_range(0..3)).wrapping_sub(1),
        };
        pairs.push((a, b, true));
    }
    for (ri, name) in ["u64::div", "u64::mod", "u64::divmod"].iter().enumerate() {
        let (src, stdlib, prog) = pg.get(name);
        let ctx = Ctx { instr: name, src, stdlib, prog, provider: prov, trees: &[], advice: &[] };
        for (oi, (a, b, random)) in pairs.iter().enumerate() {
            // the full limb grid is large: each (routine, pair) is visited by exactly one shard, and
            // only every third pair per routine in one run (all pairs over the three routines)
            if !*random && !(sel.mine(oi / 3) && oi % 3 == ri) {
                continue;
            }
            let (a, b) = (*a, *b);
            let class = div_class(a, b);
            let truth = if b == 0 { None } else { Some([(a / b) & 0xFFFF_FFFF, (a / b) >> 32, (a % b) & 0xFFFF_FFFF, (a % b) >> 32]) };
            let expect = truth.map(|t| match ri {
                0 => vec![t[1], t[0], S1, S2],
                1 => vec![t[3], t[2], S1, S2],
                _ => vec![t[3], t[2], t[1], t[0], S1, S2],
            });
            let stack = vec![b >> 32, b & 0xFFFF_FFFF, a >> 32, a & 0xFFFF_FFFF, S1, S2];
            evaluate(&ctx, &Trial { stack: stack.clone(), script: vec![], expect: expect.clone(), opclass: class.into(), relation: "honest".into() }, rep, oi % 64 == 0);
            for (hi, (h, rel)) in div_hints(rng, a, b, 4).into_iter().enumerate() {
                let script = div_script(hi, &h, truth);
                evaluate(&ctx, &Trial { stack: stack.clone(), script, expect: expect.clone(), opclass: class.into(), relation: rel.into() }, rep, false);
            }
        }
    }
    // mod_12289: [a] -> [a mod 12289] for a field element a
    {
        let (src, stdlib, prog) = pg.get("falcon::mod_12289");
        let ctx = Ctx { instr: "falcon::mod_12289", src, stdlib, prog, provider: prov, trees: &[], advice: &[] };
        let mut ops: Vec<(u64, &'static str, bool)> = vec![];
        for a in [0u64, 1, 12288, 12289, 12290, 2 * 12289 - 1, 2 * 12289, (1 << 32) - 1, 1 << 32, (1 << 32) + 12289, P - 1, P - 12289, P - 12290, 12289 * 12289, 1 << 63, (1 << 32) - 12289] {
            ops.push((a, if a < 12289 { "a<m" } else if a % 12289 == 0 { "exact" } else { "boundary" }, false));
        }
        for _ in 0..n_rand_ops {
            ops.push((rand_felt(rng), "random", true));
        }
        for (oi, (a, class, random)) in ops.iter().enumerate() {
            if !*random && !sel.mine(oi) {
                continue;
            }
            let (a, b) = (*a, 12289u64);
            let truth = Some([(a / b) & 0xFFFF_FFFF, (a / b) >> 32, a % b, 0]);
            let expect = Some(vec![a % b, S1, S2]);
            let stack = vec![a, S1, S2];
            evaluate(&ctx, &Trial { stack: stack.clone(), script: vec![], expect: expect.clone(), opclass: class.to_string(), relation: "honest".into() }, rep, oi % 8 == 0);
            for (hi, (h, rel)) in div_hints(rng, a, b, 4).into_iter().enumerate() {
                let script = div_script(hi, &h, truth);
                evaluate(&ctx, &Trial { stack: stack.clone(), script, expect: expect.clone(), opclass: class.to_string(), relation: rel.into() }, rep, false);
            }
        }
    }
}

// FAMILY: MERKLE (mtree_get / mtree_set / mtree_verify / mtree_merge)
// ================================================================================================

fn tf(w: &W) -> [u64; 4] {
    [w[3], w[2], w[1], w[0]]
}

fn bump_word(w: &W, k: usize) -> W {
    let mut x = *w;
    x[k] = addmod(x[k], 1);
    x
}

/// One variation of what the host hands out: (relation, replacement node value, replacement path).
type MVar = (&'static str, Option<W>, Option<Vec<W>>);

fn merkle_variations(rng: &mut Rng8, t: &Tree, t2: &Tree, d: u8, i: u64) -> Vec<MVar> {
    let v = t.node(d, i);
    let p = t.path(d, i);
    let mut out: Vec<MVar> = vec![("equal", Some(v), Some(p.clone()))];
    // wrong node value, honest path
    for k in 0..4 {
        out.push(("wrong-node-off-by-one", Some(bump_word(&v, k)), None));
    }
    out.push(("wrong-node-random", Some(rand_word(rng)), None));
    out.push(("wrong-node-other", Some(p[0]), None));
    out.push(("wrong-node-other", Some(t.root()), None));
    out.push(("wrong-node-other", Some([0; 4]), None));
    out.push(("wrong-node-other", Some(tf(&v)), None));
    // wrong sibling at each level
    for l in 0..p.len() {
        let mut q = p.clone();
        q[l] = bump_word(&p[l], rng.gen_range(0..4));
        out.push(("wrong-sibling-off-by-one", None, Some(q)));
        let mut q = p.clone();
        q[l] = rand_word(rng);
        out.push(("wrong-sibling-random", None, Some(q)));
        let mut q = p.clone();
        q[l] = v;
        out.push(("wrong-sibling-other", None, Some(q)));
        if l + 1 < p.len() {
            let mut q = p.clone();
            q.swap(l, l + 1);
            out.push(("wrong-sibling-other", None, Some(q)));
        }
    }
    // path too short / empty
    out.push(("path-empty", None, Some(vec![])));
    if p.len() >= 2 {
        out.push(("path-too-short", None, Some(p[..p.len() - 1].to_vec())));
        out.push(("path-too-short", None, Some(p[1..].to_vec())));
        out.push(("path-too-short", None, Some(p[..1].to_vec())));
    }
    // path too long
    let mut q = p.clone();
    q.push(rand_word(rng));
    out.push(("path-too-long", None, Some(q)));
    let mut q = p.clone();
    q.insert(0, rand_word(rng));
    out.push(("path-too-long", None, Some(q)));
    let mut q = p.clone();
    q.push(*p.last().unwrap());
    out.push(("path-too-long", None, Some(q)));
    // a genuine opening of the same tree at another depth (node and path replaced consistently)
    for d2 in 1..=t.depth() {
        if d2 == d {
            continue;
        }
        if d2 < d {
            let j = i & ((1u64 << d2) - 1);
            out.push(("other-depth-opening-shorter", Some(t.node(d2, j)), Some(t.path(d2, j))));
            out.push(("path-too-short", None, Some(t.path(d2, j))));
        } else if t.depth() <= 8 || d2 == t.depth() || d2 == d + 1 {
            out.push(("other-depth-opening-longer", Some(t.node(d2, i)), Some(t.path(d2, i))));
            out.push(("path-too-long", None, Some(t.path(d2, i))));
        }
    }
    // path of another index at the same depth
    if d >= 1 {
        let n = 1u64 << d;
        let mut js = vec![i ^ 1, (i + 1) % n, n - 1 - i];
        js.dedup();
        for j in js {
            if j != i && j < n {
                out.push(("path-other-index", None, Some(t.path(d, j))));
                out.push(("other-index-opening", Some(t.node(d, j)), Some(t.path(d, j))));
            }
        }
    }
    // path from another tree of the same depth
    out.push(("path-other-tree", None, Some(t2.path(d, i))));
    out.push(("other-tree-opening", Some(t2.node(d, i)), Some(t2.path(d, i))));
    out
}

fn index_class(d: u8, i: u64, depth: u8) -> String {
    let pos = if i == 0 {
        "first"
    } else if i == (1u64 << d) - 1 {
        "last"
    } else {
        "inner"
    };
    format!("depth{}/{}/{}", depth, if d == depth { "leaf" } else { "inner-node" }, pos)
}

fn merkle_picks(rng: &mut Rng8, t: &Tree) -> Vec<(u8, u64)> {
    let depth = t.depth();
    let mut v = vec![];
    if depth <= 3 {
        for d in 1..=depth {
            for i in 0..(1u64 << d) {
                v.push((d, i));
            }
        }
    } else {
        let mut ds = vec![1u8, 2, depth - 1, depth, depth];
        if depth > 8 {
            ds.push(depth / 2);
        }
        for d in ds {
            let n = 1u64 << d;
            for i in [0, 1, n - 1, rng.gen_range(0..n), rng.gen_range(0..n)] {
                if !v.contains(&(d, i)) {
                    v.push((d, i));
                }
            }
        }
        if let TreeSpec::Sparse16(e) = &t.spec {
            for (i, _) in e.iter().take(3) {
                v.push((16, *i));
                v.push((16, *i ^ 1));
                v.push((9, *i >> 7));
            }
        }
    }
    v
}

pub fn random_tree_pair(rng: &mut Rng8, depth: u8) -> (TreeSpec, TreeSpec) {
    if depth == 16 {
        let mk = |rng: &mut Rng8| {
            let mut e: Vec<(u64, W)> = vec![];
            for i in [0u64, 1, 0xFFFF, 0x8000, rng.gen_range(0..1 << 16), rng.gen_range(0..1 << 16), rng.gen_range(0..1 << 16)] {
                if !e.iter().any(|(j, _)| *j == i) {
                    e.push((i, rand_word(rng)));
                }
            }
            TreeSpec::Sparse16(e)
        };
        (mk(rng), mk(rng))
    } else {
        let n = 1usize << depth;
        let a = (0..n).map(|_| rand_word(rng)).collect();
        let b = (0..n).map(|_| rand_word(rng)).collect();
        (TreeSpec::Full(a), TreeSpec::Full(b))
    }
}

fn fam_merkle(pg: &Progs, depth: u8, rng: &mut Rng8, rep: &mut Report) {
    let (sa, sb) = random_tree_pair(rng, depth);
    let specs = vec![sa.clone(), sb.clone()];
    let (t, t2) = match (Tree::build(sa), Tree::build(sb)) {
        (Some(a), Some(b)) => (a, b),
        _ => {
            rep.inconclusive("merkle-oracle-tree-construction-failed");
            return;
        }
    };
    let prov = provider_for(&specs, &[]);
    let root = t.root();
    rep.count("trees", &format!("depth{}", depth));
    let picks = merkle_picks(rng, &t);
    for (pi, (d, i)) in picks.iter().enumerate() {
        let (d, i) = (*d, *i);
        let v = t.node(d, i);
        let p = t.path(d, i);
        if fold_root(&v, &p, i) != root {
            rep.inconclusive("merkle-oracle-self-check-failed");
            return;
        }
        let class = index_class(d, i, depth);
        let vars = merkle_variations(rng, &t, &t2, d, i);

        // ---- mtree_get: [d, i, R, ...] -> [V, R, ...]
        {
            let (src, stdlib, prog) = pg.get("mtree_get");
            let ctx = Ctx { instr: "mtree_get", src, stdlib, prog, provider: &prov, trees: &specs, advice: &[] };
            let mut stack = vec![d as u64, i];
            stack.extend(tf(&root));
            stack.extend([S1, S2]);
            let mut exp: Vec<u64> = tf(&v).to_vec();
            exp.extend(tf(&root));
            exp.extend([S1, S2]);
            evaluate(&ctx, &Trial { stack: stack.clone(), script: vec![], expect: Some(exp.clone()), opclass: class.clone(), relation: "honest".into() }, rep, pi % 4 == 0);
            for (vi, (rel, node, path)) in vars.iter().enumerate() {
                let mut script = vec![];
                if let Some(n) = node {
                    let diff: Vec<usize> = (0..4).filter(|k| n[*k] != v[*k]).collect();
                    if vi % 2 == 1 && diff.len() == 1 {
                        script.push(Step::Pop { nth: diff[0] as u32, v: n[diff[0]] });
                    } else {
                        script.push(Step::ReplaceAfter { inj: "MerkleNodeToStack".into(), nth: 0, vals: n.to_vec() });
                    }
                }
                if let Some(pp) = path {
                    script.push(Step::Path { nth: 0, path: pp.clone() });
                }
                evaluate(&ctx, &Trial { stack: stack.clone(), script, expect: Some(exp.clone()), opclass: class.clone(), relation: rel.to_string() }, rep, false);
            }
            // honest host, operands for which nothing can be returned
            let mut bad_root = stack.clone();
            bad_root[2] = addmod(bad_root[2], 1);
            evaluate(&ctx, &Trial { stack: bad_root, script: vec![], expect: None, opclass: "unknown-root(invalid)".into(), relation: "honest".into() }, rep, false);
            let mut bad_idx = stack.clone();
            bad_idx[1] = 1u64 << d;
            evaluate(&ctx, &Trial { stack: bad_idx, script: vec![], expect: None, opclass: "index-out-of-range(invalid)".into(), relation: "honest".into() }, rep, false);
            let mut bad_depth = stack.clone();
            bad_depth[0] = depth as u64 + 1;
            evaluate(&ctx, &Trial { stack: bad_depth, script: vec![], expect: None, opclass: "depth-too-big(invalid)".into(), relation: "honest".into() }, rep, false);
        }

        // ---- mtree_set: [d, i, R, V', ...] -> [V, R', ...]
        {
            let (src, stdlib, prog) = pg.get("mtree_set");
            let ctx = Ctx { instr: "mtree_set", src, stdlib, prog, provider: &prov, trees: &specs, advice: &[] };
            let vn = rand_word(rng);
            let new_root = fold_root(&vn, &p, i);
            if d == depth {
                if let Some(r2) = t.root_after_leaf_update(i, &vn) {
                    if r2 != new_root {
                        rep.inconclusive("merkle-oracle-update-self-check-failed");
                        return;
                    }
                    rep.count("oracle_cross_checks", "leaf-update-root");
                }
            }
            let mut stack = vec![d as u64, i];
            stack.extend(tf(&root));
            stack.extend(tf(&vn));
            stack.extend([S1, S2]);
            let mut exp: Vec<u64> = tf(&v).to_vec();
            exp.extend(tf(&new_root));
            exp.extend([S1, S2]);
            evaluate(&ctx, &Trial { stack: stack.clone(), script: vec![], expect: Some(exp.clone()), opclass: class.clone(), relation: "honest".into() }, rep, pi % 4 == 0);
            for (vi, (rel, node, path)) in vars.iter().enumerate() {
                let mut script = vec![];
                if let Some(n) = node {
                    let diff: Vec<usize> = (0..4).filter(|k| n[*k] != v[*k]).collect();
                    if vi % 2 == 1 && diff.len() == 1 {
                        script.push(Step::Pop { nth: diff[0] as u32, v: n[diff[0]] });
                    } else {
                        script.push(Step::ReplaceAfter { inj: "MerkleNodeToStack".into(), nth: 0, vals: n.to_vec() });
                    }
                }
                if let Some(pp) = path {
                    script.push(Step::Path { nth: 0, path: pp.clone() });
                }
                evaluate(&ctx, &Trial { stack: stack.clone(), script, expect: Some(exp.clone()), opclass: class.clone(), relation: rel.to_string() }, rep, false);
            }
            let mut bad_root = stack.clone();
            bad_root[2] = addmod(bad_root[2], 1);
            evaluate(&ctx, &Trial { stack: bad_root, script: vec![], expect: None, opclass: "unknown-root(invalid)".into(), relation: "honest".into() }, rep, false);
        }

        // ---- mtree_verify: [V, d, i, R, ...] unchanged; the claimed V is an operand
        {
            let (src, stdlib, prog) = pg.get("mtree_verify");
            let ctx = Ctx { instr: "mtree_verify", src, stdlib, prog, provider: &prov, trees: &specs, advice: &[] };
            let mk = |vv: &W, dd: u64, ii: u64, rr: &W| {
                let mut st: Vec<u64> = tf(vv).to_vec();
                st.extend([dd, ii]);
                st.extend(tf(rr));
                st.extend([S1, S2]);
                st
            };
            let stack = mk(&v, d as u64, i, &root);
            evaluate(&ctx, &Trial { stack: stack.clone(), script: vec![], expect: Some(stack.clone()), opclass: class.clone(), relation: "honest".into() }, rep, pi % 4 == 0);
            for (rel, node, path) in vars.iter() {
                // a replaced node value is a (false) CLAIM here: the operand changes, and unless the
                // claim happens to be true no completion is acceptable
                let claimed = node.unwrap_or(v);
                let st = mk(&claimed, d as u64, i, &root);
                let expect = if claimed == v { Some(st.clone()) } else { None };
                let mut script = vec![];
                if let Some(pp) = path {
                    script.push(Step::Path { nth: 0, path: pp.clone() });
                }
                let rel2 = if node.is_some() && path.is_none() { format!("claimed-{}", rel) } else { rel.to_string() };
                evaluate(&ctx, &Trial { stack: st, script, expect, opclass: class.clone(), relation: if rel2 == "claimed-equal" { "equal".into() } else { rel2 } }, rep, false);
            }
            // correct path, wrong claimed root / index / depth (honest host)
            let other_root = t2.root();
            // (in sparse trees the same empty node may genuinely sit at (d, i) of the other tree)
            let st_other = mk(&v, d as u64, i, &other_root);
            let other_true = t2.node(d, i) == v;
            evaluate(&ctx, &Trial { stack: st_other.clone(), script: vec![], expect: if other_true { Some(st_other) } else { None }, opclass: class.clone(), relation: "claimed-wrong-root".into() }, rep, false);
            evaluate(&ctx, &Trial { stack: mk(&v, d as u64, i, &bump_word(&root, 0)), script: vec![], expect: None, opclass: class.clone(), relation: "claimed-wrong-root".into() }, rep, false);
            // dishonest host still handing out the genuine path for a wrong claimed root
            evaluate(&ctx, &Trial { stack: mk(&v, d as u64, i, &bump_word(&root, 3)), script: vec![Step::Path { nth: 0, path: p.clone() }], expect: None, opclass: class.clone(), relation: "claimed-wrong-root".into() }, rep, false);
            let j = i ^ 1;
            let claim_true = t.node(d, j) == v;
            let st = mk(&v, d as u64, j, &root);
            evaluate(&ctx, &Trial { stack: st.clone(), script: vec![], expect: if claim_true { Some(st.clone()) } else { None }, opclass: class.clone(), relation: "claimed-wrong-index".into() }, rep, false);
            evaluate(&ctx, &Trial { stack: st.clone(), script: vec![Step::Path { nth: 0, path: p.clone() }], expect: if claim_true { Some(st) } else { None }, opclass: class.clone(), relation: "claimed-wrong-index".into() }, rep, false);
        }
    }

    // ---- mtree_merge: [R, L, ...] -> [M, ...], M = hash(L, R); then an opening of the merged tree
    if depth < 16 {
        let (l, r) = (t.root(), t2.root());
        let m = merge(&l, &r);
        let mut stack: Vec<u64> = tf(&r).to_vec();
        stack.extend(tf(&l));
        stack.extend([S1, S2]);
        let mut exp: Vec<u64> = tf(&m).to_vec();
        exp.extend([S1, S2]);
        {
            let (src, stdlib, prog) = pg.get("mtree_merge");
            let ctx = Ctx { instr: "mtree_merge", src, stdlib, prog, provider: &prov, trees: &specs, advice: &[] };
            let class = format!("depth{}", depth);
            evaluate(&ctx, &Trial { stack: stack.clone(), script: vec![], expect: Some(exp.clone()), opclass: class.clone(), relation: "honest".into() }, rep, true);
            evaluate(&ctx, &Trial { stack: stack.clone(), script: vec![Step::Instead { inj: "MerkleNodeMerge".into(), nth: 0, vals: vec![] }], expect: Some(exp.clone()), opclass: class.clone(), relation: "injector-skipped".into() }, rep, false);
            evaluate(&ctx, &Trial { stack: stack.clone(), script: vec![Step::Instead { inj: "MerkleNodeMerge".into(), nth: 0, vals: vec![1, 2, 3, 4] }], expect: Some(exp.clone()), opclass: class.clone(), relation: "injector-replaced".into() }, rep, false);
        }
        {
            let (src, stdlib, prog) = pg.get("mtree_merge+get");
            let ctx = Ctx { instr: "mtree_merge+get", src, stdlib, prog, provider: &prov, trees: &specs, advice: &[] };
            let n = 1u64 << depth;
            for i in [0, n - 1, n, 2 * n - 1, rng.gen_range(0..2 * n)] {
                let leaf = if i < n { t.node(depth, i) } else { t2.node(depth, i - n) };
                // stack: [R, L, i, d+1] -> after merge and reordering [d+1, i, M] -> [V, M]
                let mut st: Vec<u64> = tf(&r).to_vec();
                st.extend(tf(&l));
                st.extend([i, depth as u64 + 1, S1, S2]);
                let mut ex: Vec<u64> = tf(&leaf).to_vec();
                ex.extend(tf(&m));
                ex.extend([S1, S2]);
                let class = format!("depth{}/{}", depth, if i < n { "left" } else { "right" });
                evaluate(&ctx, &Trial { stack: st.clone(), script: vec![], expect: Some(ex.clone()), opclass: class.clone(), relation: "honest".into() }, rep, false);
                // the merged tree was never created on the host: the opening can only fail
                evaluate(&ctx, &Trial { stack: st.clone(), script: vec![Step::Instead { inj: "MerkleNodeMerge".into(), nth: 0, vals: vec![] }], expect: Some(ex.clone()), opclass: class.clone(), relation: "injector-skipped".into() }, rep, false);
                // host answers the opening of the merged tree with an opening of the left tree
                let j = i % n;
                let mut script = vec![Step::ReplaceAfter { inj: "MerkleNodeToStack".into(), nth: 0, vals: t.node(depth, j).to_vec() }, Step::Path { nth: 0, path: t.path(depth, j) }];
                evaluate(&ctx, &Trial { stack: st.clone(), script: script.clone(), expect: Some(ex.clone()), opclass: class.clone(), relation: "other-depth-opening-shorter".into() }, rep, false);
                let mut full = t.path(depth, j);
                full.push(if i < n { r } else { l });
                script[1] = Step::Path { nth: 0, path: full };
                evaluate(&ctx, &Trial { stack: st, script, expect: Some(ex), opclass: class, relation: if i < n { "equal".into() } else { "other-index-opening".into() } }, rep, false);
            }
        }
    }
}

// ADVICE ORDER (adv_push.n / adv_loadw / adv_pipe), model written from io_operations.md
// ================================================================================================

/// Documented semantics: values are placed so that the element popped FIRST ends up DEEPEST.
struct AdvModel {
    stack: Vec<u64>, // top first
    adv: std::collections::VecDeque<u64>,
    mem: std::collections::BTreeMap<u64, [u64; 4]>, // word as it appears on the stack, top first
    ok: bool,
}

impl AdvModel {
    fn pad(&mut self, n: usize) {
        while self.stack.len() < n {
            self.stack.push(0);
        }
    }
    fn pop_adv(&mut self) -> u64 {
        match self.adv.pop_front() {
            Some(v) => v,
            None => {
                self.ok = false;
                0
            }
        }
    }
    fn apply(&mut self, op: &str) {
        let (name, arg) = match op.split_once('.') {
            Some((n, a)) => (n, a.parse::<u64>().unwrap_or(0)),
            None => (op, 0),
        };
        match name {
            "adv_push" => {
                for _ in 0..arg {
                    let v = self.pop_adv();
                    self.stack.insert(0, v);
                }
            }
            "adv_loadw" => {
                self.pad(4);
                let w: Vec<u64> = (0..4).map(|_| self.pop_adv()).collect();
                for k in 0..4 {
                    self.stack[k] = w[3 - k];
                }
            }
            "adv_pipe" => {
                self.pad(13);
                let w: Vec<u64> = (0..8).map(|_| self.pop_adv()).collect();
                for k in 0..8 {
                    self.stack[k] = w[7 - k];
                }
                let addr = self.stack[12];
                // D = first word popped -> mem[a], E = second word -> mem[a+1]
                self.mem.insert(addr, [w[3], w[2], w[1], w[0]]);
                self.mem.insert(addr + 1, [w[7], w[6], w[5], w[4]]);
                self.stack[12] = addr + 2;
            }
            "push" => self.stack.insert(0, arg),
            "padw" => {
                for _ in 0..4 {
                    self.stack.insert(0, 0);
                }
            }
            "dropw" => {
                self.pad(4);
                self.stack.drain(0..4);
            }
            "mem_loadw" => {
                self.pad(4);
                let w = self.mem.get(&arg).copied().unwrap_or([0; 4]);
                self.stack[..4].copy_from_slice(&w);
            }
            _ => self.ok = false,
        }
    }
}

fn adv_program(rng: &mut Rng8, idx: usize) -> (Vec<String>, &'static str) {
    let addr = [0u64, 1, 100, 1 << 20, (1u64 << 32) - 3][rng.gen_range(0..5)];
    let pipe = |a: u64, ops: &mut Vec<String>| {
        ops.push(format!("push.{}", a));
        ops.extend(["padw", "padw", "padw", "adv_pipe"].iter().map(|s| s.to_string()));
    };
    let readback = |a: u64, ops: &mut Vec<String>| {
        ops.push("padw".into());
        ops.push(format!("mem_loadw.{}", a));
    };
    let mut ops: Vec<String> = vec![];
    let kind: &'static str;
    match idx {
        0..=15 => {
            ops.push(format!("adv_push.{}", idx + 1));
            kind = "adv_push";
        }
        16 => {
            ops.push("adv_loadw".into());
            kind = "adv_loadw";
        }
        17 => {
            ops.extend(["adv_loadw", "padw", "adv_loadw"].iter().map(|s| s.to_string()));
            kind = "adv_loadw";
        }
        18 => {
            pipe(addr, &mut ops);
            readback(addr, &mut ops);
            readback(addr + 1, &mut ops);
            kind = "adv_pipe";
        }
        19 => {
            pipe(addr, &mut ops);
            ops.push("adv_pipe".into());
            for k in 0..4 {
                readback(addr + k, &mut ops);
            }
            kind = "adv_pipe";
        }
        _ => {
            let n = rng.gen_range(2..5);
            let mut pipes = vec![];
            let mut has_pipe = false;
            for _ in 0..n {
                match rng.gen_range(0..5) {
                    0 | 1 => ops.push(format!("adv_push.{}", rng.gen_range(1..=16))),
                    2 => ops.push("adv_loadw".into()),
                    3 => {
                        ops.push("padw".into());
                        ops.push("adv_loadw".into());
                    }
                    _ => {
                        let a = addr + 2 * pipes.len() as u64;
                        pipe(a, &mut ops);
                        pipes.push(a);
                        has_pipe = true;
                    }
                }
            }
            for a in pipes {
                readback(a, &mut ops);
                readback(a + 1, &mut ops);
            }
            kind = if has_pipe { "mixed+adv_pipe" } else { "mixed" };
        }
    }
    (ops, kind)
}

fn run_adv_case(kind: &str, src: &str, advice: &[u64], expect: &[u64], script: &[Step], rep: &mut Report) {
    let prog = match assemble(src, false) {
        Ok(p) => p,
        Err(e) => {
            rep.count("adv_order_outcome", &format!("asm-err:{}", crate::report::truncate(&e, 40)));
            return;
        }
    };
    let prov = provider_for(&[], advice);
    let honest = script.is_empty();
    let instr = format!("adv-order/{}", kind);
    let ctx = Ctx { instr: &instr, src, stdlib: false, prog: &prog, provider: &prov, trees: &[], advice };
    let t = Trial { stack: vec![], script: script.to_vec(), expect: Some(expect.to_vec()), opclass: format!("{}-elements", advice.len().min(40)), relation: if honest { "honest".into() } else { "host-replaced-values".into() } };
    // a replaced value that arrives elsewhere than documented shows up as a wrong final stack
    evaluate(&ctx, &t, rep, honest);
}

fn fam_adv_order(sel: Sel, rng: &mut Rng8, n_random: usize, rep: &mut Report) {
    let total = 20 + n_random;
    for idx in 0..total {
        if idx < 20 && !sel.mine(idx) {
            continue;
        }
        let (ops, kind) = adv_program(rng, idx);
        let base = rng.gen_range(1000..1u64 << 40);
        let need: usize = ops.iter().map(|o| if let Some(n) = o.strip_prefix("adv_push.") { n.parse().unwrap_or(0) } else if o == "adv_loadw" { 4 } else if o == "adv_pipe" { 8 } else { 0 }).sum();
        // uniquely numbered advice elements (+3 that must stay unread)
        let advice: Vec<u64> = (0..need as u64 + 3).map(|k| base + k).collect();
        let mut m = AdvModel { stack: vec![], adv: advice.iter().copied().collect(), mem: Default::default(), ok: true };
        for o in &ops {
            m.apply(o);
        }
        if !m.ok {
            rep.inconclusive("adv-order-model-gap");
            continue;
        }
        let src = format!("begin {} end", ops.join(" "));
        run_adv_case(kind, &src, &advice, &m.stack, &[], rep);
        rep.count("adv_order_programs", kind);

        // the host answers one request with other (again uniquely numbered) values: they must land in
        // the same documented positions
        let mut m2 = AdvModel { stack: vec![], adv: advice.iter().copied().collect(), mem: Default::default(), ok: true };
        let mut script = vec![];
        let (mut pops, mut words, mut dwords) = (0u32, 0u32, 0u32);
        let mut consumed = 0usize;
        let fresh = base + 1_000_000;
        let mut adv2 = advice.clone();
        for o in &ops {
            if let Some(n) = o.strip_prefix("adv_push.") {
                let n: usize = n.parse().unwrap_or(0);
                if script.is_empty() && rng.gen_bool(0.5) {
                    let k = rng.gen_range(0..n);
                    script.push(Step::Pop { nth: pops + k as u32, v: fresh });
                    adv2[consumed + k] = fresh;
                }
                pops += n as u32;
                consumed += n;
            } else if o == "adv_loadw" {
                if script.is_empty() && rng.gen_bool(0.5) {
                    let w: Vec<u64> = (0..4).map(|k| fresh + k).collect();
                    adv2[consumed..consumed + 4].copy_from_slice(&w);
                    script.push(Step::PopWord { nth: words, w });
                }
                words += 1;
                consumed += 4;
            } else if o == "adv_pipe" {
                if script.is_empty() && rng.gen_bool(0.7) {
                    let w: Vec<u64> = (0..8).map(|k| fresh + k).collect();
                    adv2[consumed..consumed + 8].copy_from_slice(&w);
                    script.push(Step::PopDWord { nth: dwords, w });
                }
                dwords += 1;
                consumed += 8;
            }
        }
        if !script.is_empty() {
            m2.adv = adv2.iter().copied().collect();
            for o in &ops {
                m2.apply(o);
            }
            run_adv_case(kind, &src, &advice, &m2.stack, &script, rep);
        }
    }
}

// DRIVER
// ================================================================================================

const BIT_RELS: [&str; 6] = ["equal", "off-by-one", "in-range-wrong", "out-of-range", "boundary", "random"];
const EXT_RELS: [&str; 5] = ["equal", "off-by-one", "related", "boundary", "random"];
const DIV_RELS: [&str; 7] = ["equal", "off-by-one", "compensated", "out-of-range", "related", "boundary", "random"];
const MERKLE_RELS: [&str; 14] = [
    "equal",
    "wrong-node-off-by-one",
    "wrong-node-random",
    "wrong-node-other",
    "wrong-sibling-off-by-one",
    "wrong-sibling-random",
    "wrong-sibling-other",
    "path-empty",
    "path-too-short",
    "path-too-long",
    "other-depth-opening-shorter",
    "path-other-index",
    "other-index-opening",
    "path-other-tree",
];

pub fn meta() -> Meta {
    Meta {
        level: "fault_enumeration",
        rule: "each evaluation = one execution of a real assembled one-instruction program (u32clz/ctz/clo/cto, ilog2, ext2inv/ext2div, std::math::u64::{div,mod,divmod,clz,ctz,clo,cto}, rpo_falcon512::mod_12289, mtree_get/set/verify/merge) or of an adv_push/adv_loadw/adv_pipe order program under either the honest default host or a scripted host that replaces the hint (advice values after the injector ran or at the pop request, or the Merkle path handed to MPVERIFY/MRUPDATE), judged by a native oracle: honest+valid operands must succeed with the exact final stack; a dishonest run may only fail (Err, or an abort by panic, which is recorded in `dishonest_outcome`/`panics_on_dishonest_advice` but is not a violation) or finish with the exact correct final stack; a panic under the honest host is a violation; rpo_falcon512::mod_12289 is exercised too but, not being listed in the statement, only reported under `outside_statement`. Hint grids: all of 0..=64 plus boundary/random field elements for counts and ilog2; truth, truth+-1, compensated (q-k, r+k*b), limbs >= 2^32, structured and random values for 64-bit division; truth, +-1 per coordinate, related, boundary and random pairs for extension inverses; wrong node, wrong sibling at every level, too short/long/empty paths, openings at another depth/index/tree for Merkle ops on full trees of depth 1..6 and a sparse depth-16 tree. distinct = distinct (instruction, operand class, hint relation to the truth)".into(),
        assumptions: vec![
            "native Rust integer/bit operations, the harness' own F_p and F_p[x]/(x^2-x+2) arithmetic (self-checked by multiplication) and miden-crypto MerkleTree/SimpleSmt + Rpo256::merge are the reference".into(),
            "the host can only act through the Host trait (get_advice/set_advice responses); operands that the documentation calls undefined (non-u32 inputs to u32/u64 routines) are not generated".into(),
            "random field elements and random Merkle siblings are sampled, small ranges are enumerated".into(),
        ],
    }
}

fn run_shard(pg: &Progs, cfg: &Cfg, shard: usize, shards: usize) -> Report {
    let mut rng = rng_for(cfg.seed, "C09", shard as u64);
    let mut rep = Report::new();
    let sel = Sel { shard, shards };
    let prov = MemAdviceProvider::default();
    let nr = cfg.n(6, 100);
    fam_bitcount(pg, &prov, sel, &mut rng, nr * 2, &mut rep);
    fam_ilog2(pg, &prov, sel, &mut rng, nr * 4, &mut rep);
    fam_ext2(pg, &prov, sel, &mut rng, nr * 2, &mut rep);
    fam_u64div(pg, &prov, sel, &mut rng, nr * 4, &mut rep);
    // Merkle: every shard builds its own random trees; depths rotate over the shards
    let depths: [u8; 8] = [1, 2, 3, 4, 5, 6, 16, 3];
    let rounds = cfg.n(3, 48);
    for r in 0..rounds {
        let depth = depths[(shard + r) % depths.len()];
        fam_merkle(pg, depth, &mut rng, &mut rep);
    }
    fam_adv_order(sel, &mut rng, cfg.n(6, 60), &mut rep);
    rep
}

pub fn run(cfg: &Cfg) -> Report {
    let pg = match Progs::build() {
        Ok(p) => p,
        Err(e) => {
            let mut rep = Report::new();
            rep.inconclusive(format!("program-assembly-failed:{}", crate::report::truncate(&e, 80)));
            return rep;
        }
    };
    let shards = 64;
    let reports = par_map(shards, |sh| run_shard(&pg, cfg, sh, shards));
    let mut rep = merge_all(reports);

    // floors: honest runs observed and every instruction x applicable relation observed
    let fams: Vec<(&str, &[&str])> = vec![
        ("u32clz", &BIT_RELS),
        ("u32ctz", &BIT_RELS),
        ("u32clo", &BIT_RELS),
        ("u32cto", &BIT_RELS),
        ("u64::clz", &BIT_RELS),
        ("u64::ctz", &BIT_RELS),
        ("u64::clo", &BIT_RELS),
        ("u64::cto", &BIT_RELS),
        ("ilog2", &BIT_RELS),
        ("ext2inv", &EXT_RELS),
        ("ext2div", &EXT_RELS),
        ("u64::div", &DIV_RELS),
        ("u64::mod", &DIV_RELS),
        ("u64::divmod", &DIV_RELS),
        ("falcon::mod_12289", &DIV_RELS),
        ("mtree_get", &MERKLE_RELS),
        ("mtree_set", &MERKLE_RELS),
        ("mtree_verify", &MERKLE_RELS[4..]),
    ];
    for (instr, rels) in &fams {
        rep.floor(rep.get_count("runs", &format!("{}|honest", instr)) > 0, &format!("honest-runs:{}", instr));
        for r in rels.iter() {
            rep.floor(rep.get_count("relation", &format!("{}|{}", instr, r)) > 0, &format!("relation-observed:{}|{}", instr, r));
        }
    }
    for r in ["claimed-wrong-node-off-by-one", "claimed-wrong-node-random", "claimed-wrong-root", "claimed-wrong-index"] {
        rep.floor(rep.get_count("relation", &format!("mtree_verify|{}", r)) > 0, &format!("relation-observed:mtree_verify|{}", r));
    }
    rep.floor(rep.get_count("relation", "mtree_merge|injector-skipped") > 0, "relation-observed:mtree_merge|injector-skipped");
    rep.floor(rep.get_count("runs", "mtree_merge+get|honest") > 0, "honest-runs:mtree_merge+get");
    for d in [1, 2, 3, 4, 5, 6, 16] {
        rep.floor(rep.get_count("trees", &format!("depth{}", d)) > 0, &format!("tree-depth-{}", d));
    }
    for k in ["adv_push", "adv_loadw", "adv_pipe"] {
        rep.floor(rep.get_count("adv_order_programs", k) > 0, &format!("adv-order:{}", k));
    }
    rep.floor(rep.get_count("dishonest", "rejected") > 0, "some-dishonest-runs-rejected");
    rep.floor(rep.get_count("dishonest", "accepted-with-correct-result") > 0, "some-dishonest-runs-accepted-with-correct-result");
    // a scripted deviation that never reached the VM is a harness gap
    let unfired: u64 = rep.hist.get("unfired").map(|h| h.values().sum()).unwrap_or(0);
    rep.floor(unfired == 0, "every-scripted-deviation-reached-the-vm");
    let rejected = rep.get_count("dishonest", "rejected");
    let accepted = rep.get_count("dishonest", "accepted-with-correct-result");
    let panicked = rep.get_count("dishonest", "panicked");
    rep.note("dishonest_runs", json!({"rejected": rejected, "aborted_by_panic": panicked, "accepted_with_correct_result": accepted, "scripted_deviation_not_reached": unfired}));
    // aborts provoked by dishonest advice ("does not complete": allowed by the property, listed here)
    let panics: Vec<Value> = rep
        .hist
        .get("dishonest_panics")
        .map(|h| {
            h.iter()
                .map(|(k, n)| {
                    let mut it = k.splitn(3, '|');
                    json!({"instruction": it.next().unwrap_or(""), "site": it.next().unwrap_or(""), "message": it.next().unwrap_or(""), "count": n})
                })
                .collect()
        })
        .unwrap_or_default();
    rep.note("panics_on_dishonest_advice", json!(panics));
    // wrong results accepted by routines that the property statement does not list
    let outside: Vec<Value> = rep
        .hist
        .get("outside_statement")
        .map(|h| h.iter().map(|(k, n)| json!({"case": k, "count": n})).collect())
        .unwrap_or_default();
    rep.note("outside_statement", json!({"routines": ["std::crypto::dsa::rpo_falcon512::mod_12289"], "observed": outside, "example": "begin exec.rpo_falcon512::mod_12289 end, stack [12289], host answers q_lo=0, r_lo=12289 -> returns 12289 instead of 0 (no r < 12289 check)"}));
    // a few concrete samples
    rep.sample(json!({"instr": "u32clz", "program": "begin u32clz end", "stack_top_first": ["1", S1.to_string(), S2.to_string()], "script": [Step::Pop { nth: 0, v: 30 }.to_json()], "truth": 31, "required": "Err or final stack [31, ..]"}));
    rep.sample(json!({"instr": "u64::div", "program": "use.std::math::u64 begin exec.u64::div end", "operands": "a=7, b=2", "script": [Step::ReplaceAfter { inj: "U64Div".into(), nth: 0, vals: vec![2, 0, 3, 0] }.to_json()], "hint": "q=2, r=3 (compensated)", "required": "Err or [0, 3, ..]"}));
    rep.sample(json!({"instr": "mtree_get", "program": "begin mtree_get end", "script": "ReplaceAfter(MerkleNodeToStack, node at another depth) + Path(opening of that node)", "required": "Err or the node at (d, i)"}));
    rep
}

pub fn replay(v: &Value, rep: &mut Report) {
    let src = match v.get("src").and_then(|s| s.as_str()) {
        Some(s) => s.to_string(),
        None => return,
    };
    let stdlib = v.get("stdlib").and_then(|b| b.as_bool()).unwrap_or(false);
    let instr = v.get("instr").and_then(|s| s.as_str()).unwrap_or("replay").to_string();
    let prog = match assemble(&src, stdlib) {
        Ok(p) => p,
        Err(e) => {
            rep.inconclusive(format!("replay-assembly-failed:{}", crate::report::truncate(&e, 80)));
            return;
        }
    };
    let trees: Vec<TreeSpec> = v.get("trees").and_then(|t| t.as_array()).map(|a| a.iter().filter_map(TreeSpec::from_json).collect()).unwrap_or_default();
    let advice = v.get("advice_stack").map(pv).unwrap_or_default();
    let prov = provider_for(&trees, &advice);
    let script: Vec<Step> = v.get("script").and_then(|s| s.as_array()).map(|a| a.iter().filter_map(Step::from_json).collect()).unwrap_or_default();
    let expect = v.get("expect").and_then(|e| if e.is_null() { None } else { Some(pv(e)) });
    let t = Trial {
        stack: v.get("stack_top_first").map(pv).unwrap_or_default(),
        script,
        expect,
        opclass: v.get("opclass").and_then(|s| s.as_str()).unwrap_or("").to_string(),
        relation: v.get("relation").and_then(|s| s.as_str()).unwrap_or("").to_string(),
    };
    let ctx = Ctx { instr: &instr, src: &src, stdlib, prog: &prog, provider: &prov, trees: &trees, advice: &advice };
    evaluate(&ctx, &t, rep, false);
}
