//! C17 — standard-library hash functions agree with their reference definitions.
//!
//! blake3::{hash_1to1, hash_2to1}, sha256::{hash_1to1, hash_2to1, hash_memory}, keccak256::hash
//! are compared with the `blake3`, `sha2` and `sha3` crates; keccak256::{to,from}_bit_interleaved
//! with the bit-interleaving definition they cite (Keccak implementation overview, section 2.1);
//! native::{state_to_digest, hash_memory_even, hash_memory} with miden-crypto's `Rpo256`
//! (`hash_elements` / `apply_permutation`), the hash the VM's own hasher chiplet is defined by.
//!
//! Every program is assembled once; the expectation of an evaluation is computed from the `Case`
//! itself (stack + advice), so a witness replays without any side information.
//!
//! Calling conventions (from the `#!` header comments of stdlib/asm/crypto/hashes/*.masm and the way
//! stdlib/tests/crypto/*.rs feed them; the digests themselves come from the reference crates):
//!  * blake3: 32-bit words, little endian, `msg0` on top; digest words `dig0` on top;
//!  * sha256: 32-bit words, big endian, `m0` on top; digest words big endian, `dig0` on top;
//!  * sha256::hash_memory `[addr, len, ...]`: memory word `addr + k` holds message words
//!    `u[4k .. 4k+3]` with `u[4k]` in element 3 (what `mem_storew` stores when `u[4k]` is on top);
//!    the tail of the last 32-bit word and the padding area must be zero (contract);
//!  * keccak256::hash: sixteen 32-bit words = eight little-endian u64 lanes as `[hi, lo]` pairs,
//!    lane 0 on top; digest = four lanes as `[hi, lo]` pairs;
//!  * native: a word `[w0,w1,w2,w3]` sits on the stack with `w3` on top; memory is hashed in
//!    address order; `hash_memory` requires `start < end` (otherwise only "no panic" is required),
//!    `hash_memory_even` requires an even number of words (never violated here: the contract says
//!    it would loop forever).
//!
//! Memory-resident inputs are written by a loader prologue from the advice stack
//! (`adv_push.4 … mem_storew`), which stores advice elements `e0 e1 e2 e3` as the word `[e0,e1,e2,e3]`.

use crate::case::{err_kind, AsmOutcome, Case, ExecOutcome};
use crate::report::{merge_all, Cfg, Meta, Report, Tier};
use crate::util::{hex, par_map, rng_for, Rng8, P};
use assembly::Library;
use processor::Program;
use rand::Rng;
use serde_json::json;
use sha2::Digest as _;
use std::collections::HashMap;
use vm_core::crypto::hash::Rpo256;
use vm_core::Felt;

const M32: u64 = 0xFFFF_FFFF;
const MONITOR_EVERY: usize = 200;

/// copies `n` words from the advice stack to memory `ptr, ptr+1, …`; stack `[n, ptr, ...] -> [...]`
const LOADER: &str = "
    dup neq.0
    while.true
        adv_push.4
        dup.5 mem_storew dropw
        sub.1 swap add.1 swap
        dup neq.0
    end
    drop drop
";

// PROCEDURE TABLE
// ================================================================================================

#[derive(Clone, Copy, Debug, PartialEq, Eq)]
enum Proc {
    Blake1,
    Blake2,
    Sha1,
    Sha2,
    ShaMem,
    Keccak,
    KeccakToBi,
    KeccakFromBi,
    NatDigest,
    NatEven,
    NatMem,
}

const PROCS: [Proc; 11] = [
    Proc::Blake1,
    Proc::Blake2,
    Proc::Sha1,
    Proc::Sha2,
    Proc::ShaMem,
    Proc::Keccak,
    Proc::KeccakToBi,
    Proc::KeccakFromBi,
    Proc::NatDigest,
    Proc::NatEven,
    Proc::NatMem,
];

impl Proc {
    fn module(self) -> &'static str {
        match self {
            Proc::Blake1 | Proc::Blake2 => "blake3",
            Proc::Sha1 | Proc::Sha2 | Proc::ShaMem => "sha256",
            Proc::Keccak | Proc::KeccakToBi | Proc::KeccakFromBi => "keccak256",
            _ => "native",
        }
    }
    fn name(self) -> &'static str {
        match self {
            Proc::Blake1 | Proc::Sha1 => "hash_1to1",
            Proc::Blake2 | Proc::Sha2 => "hash_2to1",
            Proc::ShaMem | Proc::NatMem => "hash_memory",
            Proc::Keccak => "hash",
            Proc::KeccakToBi => "to_bit_interleaved",
            Proc::KeccakFromBi => "from_bit_interleaved",
            Proc::NatDigest => "state_to_digest",
            Proc::NatEven => "hash_memory_even",
        }
    }
    fn full(self) -> String {
        format!("{}::{}", self.module(), self.name())
    }
    fn uses_loader(self) -> bool {
        matches!(self, Proc::ShaMem | Proc::NatEven | Proc::NatMem)
    }
    fn src(self) -> String {
        let (m, n) = (self.module(), self.name());
        format!(
            "use.std::crypto::hashes::{m}\nbegin\n{}    exec.{m}::{n}\nend\n",
            if self.uses_loader() { LOADER } else { "" }
        )
    }
    fn from_full(s: &str) -> Option<Proc> {
        PROCS.iter().copied().find(|p| p.full() == s)
    }
    /// bytes of input of the fixed-size block hashes
    fn block_len(self) -> usize {
        match self {
            Proc::Blake1 | Proc::Sha1 => 32,
            Proc::Blake2 | Proc::Sha2 | Proc::Keccak => 64,
            _ => 0,
        }
    }
}

fn exported(module_path: &str) -> Vec<String> {
    let lib = stdlib::StdLibrary::default();
    let mut out = vec![];
    for m in lib.modules() {
        if m.path.as_str() == module_path {
            for p in m.ast.procs() {
                if p.is_export {
                    out.push(p.name.to_string());
                }
            }
            for r in m.ast.reexported_procs() {
                out.push(r.name().to_string());
            }
        }
    }
    out.sort();
    out
}

// ENCODINGS (calling conventions)
// ================================================================================================

fn words_le(bytes: &[u8]) -> Vec<u64> {
    bytes.chunks(4).map(|c| u32::from_le_bytes([c[0], c[1], c[2], c[3]]) as u64).collect()
}
fn words_be(bytes: &[u8]) -> Vec<u64> {
    bytes.chunks(4).map(|c| u32::from_be_bytes([c[0], c[1], c[2], c[3]]) as u64).collect()
}
fn bytes_le(words: &[u64]) -> Vec<u8> {
    words.iter().flat_map(|&w| (w as u32).to_le_bytes()).collect()
}
fn bytes_be(words: &[u64]) -> Vec<u8> {
    words.iter().flat_map(|&w| (w as u32).to_be_bytes()).collect()
}
/// keccak lanes: 8 bytes little endian -> [hi, lo]
fn words_keccak(bytes: &[u8]) -> Vec<u64> {
    let mut out = vec![];
    for c in bytes.chunks(8) {
        let w = u64::from_le_bytes([c[0], c[1], c[2], c[3], c[4], c[5], c[6], c[7]]);
        out.push(w >> 32);
        out.push(w & M32);
    }
    out
}
fn bytes_keccak(words: &[u64]) -> Vec<u8> {
    let mut out = vec![];
    for p in words.chunks(2) {
        out.extend_from_slice(&((p[0] << 32) | p[1]).to_le_bytes());
    }
    out
}

fn block_words(p: Proc, bytes: &[u8]) -> Vec<u64> {
    match p {
        Proc::Blake1 | Proc::Blake2 => words_le(bytes),
        Proc::Sha1 | Proc::Sha2 => words_be(bytes),
        _ => words_keccak(bytes),
    }
}

// MODEL
// ================================================================================================

#[derive(Clone, Debug, PartialEq, Eq)]
enum Expect {
    /// must succeed; these values on top (top first), followed by `case.stack[consumed..]`
    Out { top: Vec<u64>, consumed: usize },
    /// inputs outside the documented domain: only "no panic" is required
    Undefined(&'static str),
    /// the case does not have the shape this procedure's driver produces (replay of a foreign case)
    Malformed,
}

/// memory image written by the loader prologue: stack `[n, ptr, ...]`, advice = 4n elements
fn loaded_memory(case: &Case) -> Option<HashMap<u64, [u64; 4]>> {
    let n = *case.stack.first()? as usize;
    let ptr = *case.stack.get(1)?;
    if case.advice_stack.len() < 4 * n {
        return None;
    }
    let mut mem = HashMap::new();
    for k in 0..n {
        let e = &case.advice_stack[4 * k..4 * k + 4];
        mem.insert(ptr + k as u64, [e[0], e[1], e[2], e[3]]);
    }
    Some(mem)
}

fn digest_top_first(elems: &[Felt]) -> Vec<u64> {
    let d = Rpo256::hash_elements(elems);
    let mut v: Vec<u64> = d.as_elements().iter().map(|e| e.as_int()).collect();
    v.reverse();
    v
}

fn to_bit_interleaved(w: u64) -> (u64, u64) {
    let (mut even, mut odd) = (0u64, 0u64);
    for i in 0..32 {
        even |= ((w >> (2 * i)) & 1) << i;
        odd |= ((w >> (2 * i + 1)) & 1) << i;
    }
    (even, odd)
}

fn from_bit_interleaved(even: u64, odd: u64) -> u64 {
    let mut w = 0u64;
    for i in 0..32 {
        w |= ((even >> i) & 1) << (2 * i);
        w |= ((odd >> i) & 1) << (2 * i + 1);
    }
    w
}

fn expectation(p: Proc, case: &Case) -> Expect {
    let st = &case.stack;
    let all32 = |v: &[u64]| v.iter().all(|&x| x <= M32);
    match p {
        Proc::Blake1 | Proc::Blake2 | Proc::Sha1 | Proc::Sha2 | Proc::Keccak => {
            let nw = p.block_len() / 4;
            if st.len() < nw {
                return Expect::Malformed;
            }
            let w = &st[..nw];
            if !all32(w) {
                return Expect::Undefined("non-u32-word");
            }
            let top = match p {
                Proc::Blake1 | Proc::Blake2 => words_le(blake3::hash(&bytes_le(w)).as_bytes()),
                Proc::Sha1 | Proc::Sha2 => words_be(&sha2::Sha256::digest(bytes_be(w))),
                _ => words_keccak(&sha3::Keccak256::digest(bytes_keccak(w))),
            };
            Expect::Out { top, consumed: nw }
        }
        Proc::KeccakToBi => {
            if st.len() < 2 {
                return Expect::Malformed;
            }
            if !all32(&st[..2]) {
                return Expect::Undefined("non-u32-word");
            }
            let (even, odd) = to_bit_interleaved((st[0] << 32) | st[1]);
            Expect::Out { top: vec![even, odd], consumed: 2 }
        }
        Proc::KeccakFromBi => {
            if st.len() < 2 {
                return Expect::Malformed;
            }
            if !all32(&st[..2]) {
                return Expect::Undefined("non-u32-word");
            }
            let w = from_bit_interleaved(st[0], st[1]);
            Expect::Out { top: vec![w >> 32, w & M32], consumed: 2 }
        }
        Proc::ShaMem => {
            // [n, ptr, addr, len, ...]
            let Some(mem) = loaded_memory(case) else { return Expect::Malformed };
            if st.len() < 4 {
                return Expect::Malformed;
            }
            let (addr, len) = (st[2], st[3]);
            if addr > M32 || len > (1 << 20) {
                return Expect::Undefined("address-or-length-out-of-range");
            }
            if mem.values().any(|w| !all32(w)) {
                return Expect::Undefined("non-u32-word");
            }
            // message words in address order
            let nwords32 = (len as usize + 3) / 4;
            let word32 = |i: usize| -> u64 { mem.get(&(addr + (i / 4) as u64)).map(|w| w[3 - i % 4]).unwrap_or(0) };
            let mut bytes = bytes_be(&(0..nwords32).map(word32).collect::<Vec<_>>());
            // contract: "The padding space after the message must be all zeros"
            let padded = len as usize + ((55usize.wrapping_sub(len as usize)) % 64) + 9;
            let tail_zero = bytes[len as usize..].iter().all(|&b| b == 0) && (nwords32..padded / 4).all(|i| word32(i) == 0);
            if !tail_zero {
                return Expect::Undefined("padding-area-not-zero");
            }
            bytes.truncate(len as usize);
            Expect::Out { top: words_be(&sha2::Sha256::digest(&bytes)), consumed: 4 }
        }
        Proc::NatMem => {
            // [n, ptr, start, end, ...]
            let Some(mem) = loaded_memory(case) else { return Expect::Malformed };
            if st.len() < 4 {
                return Expect::Malformed;
            }
            let (start, end) = (st[2], st[3]);
            if start > M32 || end > M32 || start >= end {
                return Expect::Undefined("requires-start-lt-end");
            }
            if end - start > 1 << 16 {
                return Expect::Malformed;
            }
            let mut elems = vec![];
            for a in start..end {
                let w = mem.get(&a).copied().unwrap_or([0; 4]);
                elems.extend(w.iter().map(|&x| Felt::new(x)));
            }
            Expect::Out { top: digest_top_first(&elems), consumed: 4 }
        }
        Proc::NatEven => {
            // [n, ptr, C(4), B(4), A(4), start, end, ...]
            let Some(mem) = loaded_memory(case) else { return Expect::Malformed };
            if st.len() < 16 {
                return Expect::Malformed;
            }
            let (start, end) = (st[14], st[15]);
            if start > M32 || end > M32 || end < start || (end - start) % 2 != 0 || end - start > 1 << 16 {
                // the contract says this never terminates; the driver never produces it
                return Expect::Malformed;
            }
            // stack top first = state[11], state[10], …, state[0]
            let mut state = [Felt::new(0); 12];
            for i in 0..12 {
                state[11 - i] = Felt::new(st[2 + i]);
            }
            let mut a = start;
            while a != end {
                let w0 = mem.get(&a).copied().unwrap_or([0; 4]);
                let w1 = mem.get(&(a + 1)).copied().unwrap_or([0; 4]);
                for j in 0..4 {
                    state[4 + j] = Felt::new(w0[j]);
                    state[8 + j] = Felt::new(w1[j]);
                }
                Rpo256::apply_permutation(&mut state);
                a += 2;
            }
            let mut top: Vec<u64> = state.iter().rev().map(|e| e.as_int()).collect();
            top.push(end);
            top.push(end);
            Expect::Out { top, consumed: 16 }
        }
        Proc::NatDigest => {
            if st.len() < 12 {
                return Expect::Malformed;
            }
            Expect::Out { top: st[4..8].iter().map(|&x| x % P).collect(), consumed: 12 }
        }
    }
}

// ONE EVALUATION
// ================================================================================================

fn witness(p: Proc, class: &str, case: &Case) -> serde_json::Value {
    let mut w = json!({"kind": "c17", "proc": p.full(), "class": class, "case": case.to_json()});
    if p.block_len() > 0 && case.stack.len() >= p.block_len() / 4 && case.stack.iter().take(p.block_len() / 4).all(|&x| x <= M32) {
        let wds = &case.stack[..p.block_len() / 4];
        let bytes = match p {
            Proc::Blake1 | Proc::Blake2 => bytes_le(wds),
            Proc::Sha1 | Proc::Sha2 => bytes_be(wds),
            _ => bytes_keccak(wds),
        };
        w["input_hex"] = json!(hex(&bytes));
    }
    w
}

fn trimmed(v: &[u64]) -> &[u64] {
    let n = v.iter().rposition(|&x| x != 0).map(|i| i + 1).unwrap_or(0);
    &v[..n]
}

/// Executes `case` (program of `p`, already assembled) and applies the oracle.
fn evaluate(p: Proc, prog: &Program, case: &Case, class: &str, key: &str, monitor: bool, rng: &mut Rng8, rep: &mut Report) {
    let full = p.full();
    let expect = expectation(p, case);
    if expect == Expect::Malformed {
        rep.inconclusive(format!("malformed-case-for:{full}"));
        return;
    }
    let out = case.execute(prog);
    rep.count("proc", &full);
    rep.count("class", &format!("{full}|{class}"));
    let oc = match &out {
        ExecOutcome::Ok(_) => "ok".to_string(),
        ExecOutcome::Err(e) => format!("err:{}", err_kind(e)),
        ExecOutcome::Panic(_) => "panic".to_string(),
    };
    rep.count("outcome", &format!("{full}|{oc}"));
    let tag = match &expect {
        Expect::Out { .. } => "digest",
        _ => "undefined",
    };
    rep.eval(&format!("{key}|{tag}"));
    match (expect, out) {
        (_, ExecOutcome::Panic(pi)) => rep.violation(
            format!("{full}/panic/{}", pi.site()),
            format!("{full} panicked ({}) at {}", pi.message, pi.location),
            witness(p, class, case),
        ),
        (Expect::Out { top, consumed }, ExecOutcome::Ok(mut trace)) => {
            let got: Vec<u64> = trace.stack_outputs().stack().to_vec();
            let rest = &case.stack[consumed..];
            let mut want = top.clone();
            want.extend_from_slice(rest);
            if got.len() != want.len().max(16) {
                // VM-level depth differs only by zeros pulled in below the stack bottom
                rep.count("vm_depth_zero_padding", &full);
            }
            rep.count("proc_trace_len", &format!("{full}|{}", trace_len(&trace)));
            if trimmed(&got) != trimmed(&want) {
                let res_ok = got.len() >= top.len() && got[..top.len()] == top[..];
                let (sig, what) = if !res_ok {
                    ("digest-mismatch", "result differs from the reference implementation")
                } else {
                    ("canary-clobbered", "stack below the operands was modified or the depth is wrong")
                };
                rep.violation(
                    format!("{full}/{sig}"),
                    format!(
                        "{full}: {what}; class {class}; expected top {:?}, got top {:?}; rest expected {:?}, got {:?}",
                        top,
                        &got[..top.len().min(got.len())],
                        trimmed(rest),
                        trimmed(&got[top.len().min(got.len())..])
                    ),
                    witness(p, class, case),
                );
            } else {
                if monitor {
                    rep.count("side_monitor", &full);
                    crate::props::c03::monitor_trace(case, &mut trace, rng, 1, 0, rep);
                }
                if rep.samples.len() < 6 && rng.gen_ratio(1, 8) {
                    rep.sample(json!({"proc": full, "class": class, "stack_top_first": case.stack.iter().take(20).map(|x| x.to_string()).collect::<Vec<_>>(), "advice_len": case.advice_stack.len(), "digest_top_first": top}));
                }
            }
        }
        (Expect::Out { top, .. }, ExecOutcome::Err(e)) => rep.violation(
            format!("{full}/unexpected-failure"),
            format!("{full} failed with {e} on inputs inside its documented domain (class {class}); expected digest {:?}", top),
            witness(p, class, case),
        ),
        (Expect::Undefined(why), o) => {
            rep.count("undefined_domain", &format!("{full}|{why}|{}", if matches!(o, ExecOutcome::Ok(_)) { "ok" } else { "err" }));
        }
        (Expect::Malformed, _) => {}
    }
}

fn trace_len(t: &processor::ExecutionTrace) -> usize {
    use winter_prover::Trace;
    t.length()
}

// INPUT GENERATION
// ================================================================================================

fn canary(rng: &mut Rng8, n: usize) -> Vec<u64> {
    let mut v: Vec<u64> = vec![];
    while v.len() < n {
        let x = rng.gen_range((1u64 << 33)..P);
        if !v.contains(&x) {
            v.push(x);
        }
    }
    v
}

/// number of structured patterns of an n-byte block
fn n_structured(n: usize) -> usize {
    12 + 8 * n + 8 * n + n + (n - 1) + (n + 1) + (n + 1) + n / 4
}

/// j-th structured n-byte block
fn structured_block(n: usize, j: usize) -> (Vec<u8>, &'static str) {
    let mut b = vec![0u8; n];
    let mut j = j;
    if j < 12 {
        match j {
            0 => {}
            1 => b.fill(0xFF),
            2 => b.fill(0x01),
            3 => b.fill(0x80),
            4 => b.fill(0x55),
            5 => b.fill(0xAA),
            6 => b.fill(0x7F),
            7 => b.fill(0xFE),
            8 => b.iter_mut().enumerate().for_each(|(i, x)| *x = i as u8),
            9 => b.iter_mut().enumerate().for_each(|(i, x)| *x = 255 - i as u8),
            10 => b.iter_mut().enumerate().for_each(|(i, x)| *x = if i % 2 == 0 { 0 } else { 0xFF }),
            _ => b.iter_mut().enumerate().for_each(|(i, x)| *x = if i % 2 == 0 { 0xFF } else { 0 }),
        }
        return (b, match j { 0 => "all-zero", 1 => "all-one", _ => "const" });
    }
    j -= 12;
    if j < 8 * n {
        b[j / 8] = 1 << (j % 8);
        return (b, "walk-one");
    }
    j -= 8 * n;
    if j < 8 * n {
        b.fill(0xFF);
        b[j / 8] = !(1 << (j % 8));
        return (b, "walk-zero");
    }
    j -= 8 * n;
    if j < n {
        b[j] = 0xFF;
        return (b, "byte-ff");
    }
    j -= n;
    if j < n - 1 {
        // bit pair straddling the byte boundary j | j+1 (both byte orders are hit through LE/BE)
        b[j] = 0x01;
        b[j + 1] = 0x80;
        return (b, "straddle");
    }
    j -= n - 1;
    if j < n + 1 {
        b[..j].fill(0xFF);
        return (b, "prefix-ff");
    }
    j -= n + 1;
    if j < n + 1 {
        b[n - j..].fill(0xFF);
        return (b, "suffix-ff");
    }
    j -= n + 1;
    let w = j % (n / 4);
    b[4 * w..4 * w + 4].fill(0xFF);
    (b, "word-ff")
}

fn block_case(p: Proc, j: usize, rng: &mut Rng8) -> (Case, String, String) {
    let n = p.block_len();
    let ns = n_structured(n);
    let (bytes, class, key) = if j < ns {
        let (b, c) = structured_block(n, j);
        (b, c, format!("{}|{c}|{j}", p.full()))
    } else {
        let mut b = vec![0u8; n];
        match (j - ns) % 8 {
            7 => {
                // sparse random: few random bits
                for _ in 0..rng.gen_range(2..6) {
                    let k = rng.gen_range(0..8 * n);
                    b[k / 8] |= 1 << (k % 8);
                }
                (b, "random-sparse", format!("{}|random-sparse", p.full()))
            }
            6 => {
                // one random word, rest constant
                b.fill(if rng.gen_bool(0.5) { 0 } else { 0xFF });
                let w = rng.gen_range(0..n / 4);
                for x in b[4 * w..4 * w + 4].iter_mut() {
                    *x = rng.gen();
                }
                (b, "random-word", format!("{}|random-word|{w}", p.full()))
            }
            _ => {
                rng.fill(&mut b[..]);
                (b, "random", format!("{}|random", p.full()))
            }
        }
    };
    let mut stack = block_words(p, &bytes);
    let mut class = class.to_string();
    let mut key = key;
    if j >= ns && (j - ns) % 64 == 63 {
        // outside the documented domain (words must be 32-bit): only "no panic"
        let i = rng.gen_range(0..stack.len());
        stack[i] = [1u64 << 32, P - 1, rng.gen_range((1u64 << 32)..P)][rng.gen_range(0..3)];
        class = "non-u32-word".into();
        key = format!("{}|non-u32-word", p.full());
    }
    stack.extend(canary(rng, 8));
    let mut c = Case::new(p.src()).with_stack(&stack);
    c.stdlib = true;
    (c, class, key)
}

fn bi_case(p: Proc, j: usize, rng: &mut Rng8) -> (Case, String, String) {
    // structured: 64 single bits, 64 single zero bits, 64 low masks, constants; then random
    let (w, class): (u64, &str) = match j {
        0..=63 => (1u64 << j, "walk-one"),
        64..=127 => (!(1u64 << (j - 64)), "walk-zero"),
        128..=191 => ((1u64 << (j - 128)) - 1, "low-mask"),
        192 => (0, "all-zero"),
        193 => (u64::MAX, "all-one"),
        194 => (0x5555_5555_5555_5555, "const"),
        195 => (0xAAAA_AAAA_AAAA_AAAA, "const"),
        196 => (0x0000_0000_FFFF_FFFF, "const"),
        197 => (0xFFFF_FFFF_0000_0000, "const"),
        _ => (rng.gen(), "random"),
    };
    let key = if j < 198 { format!("{}|{class}|{j}", p.full()) } else { format!("{}|random|{}", p.full(), w.leading_zeros() / 8) };
    let mut stack = vec![w >> 32, w & M32];
    stack.extend(canary(rng, 8));
    let mut c = Case::new(p.src()).with_stack(&stack);
    c.stdlib = true;
    (c, class.to_string(), key)
}
const N_BI_STRUCT: usize = 198;

const CONTENT_KINDS: usize = 6;
fn felt_content(kind: usize, n_elems: usize, rng: &mut Rng8) -> (Vec<u64>, &'static str) {
    match kind {
        0 => (vec![0; n_elems], "all-zero"),
        1 => (vec![1; n_elems], "all-one"),
        2 => (vec![P - 1; n_elems], "all-p-1"),
        3 => {
            // single bit walking through the sequence
            let mut v = vec![0u64; n_elems];
            if n_elems > 0 {
                let i = rng.gen_range(0..n_elems);
                v[i] = 1u64 << rng.gen_range(0..64);
            }
            (v, "walk-one")
        }
        4 => ((0..n_elems).map(|_| crate::util::biased_felt(rng)).collect(), "boundary-mix"),
        _ => ((0..n_elems).map(|_| rng.gen_range(0..P)).collect(), "random"),
    }
}

const ADDRS: [u64; 10] = [0, 1, 2, 3, 1000, 65535, (1 << 20) + 7, 1 << 31, (1u64 << 32) - 4096, 123_456_789];

/// native::hash_memory on `n` words at `start`; the loader also writes 2 junk words after the range
fn nat_mem_case(n: u64, addr_i: usize, kind: usize, rng: &mut Rng8) -> (Case, String, String) {
    let p = Proc::NatMem;
    let start = ADDRS[addr_i % ADDRS.len()];
    let (mut data, cname) = felt_content(kind, 4 * n as usize, rng);
    for _ in 0..8 {
        data.push(rng.gen_range(1..P)); // guard words after the hashed range
    }
    let mut stack = vec![n + 2, start, start, start + n];
    stack.extend(canary(rng, 8));
    let mut c = Case::new(p.src()).with_stack(&stack).with_advice(&data);
    c.stdlib = true;
    let class = if n == 0 { "empty-range".to_string() } else { format!("{}-{cname}", if n % 2 == 0 { "even" } else { "odd" }) };
    let key = format!("{}|n={n}|addr{}|{cname}", p.full(), addr_i % ADDRS.len());
    (c, class, key)
}

fn nat_even_case(n: u64, addr_i: usize, kind: usize, cap_kind: usize, rng: &mut Rng8) -> (Case, String, String) {
    let p = Proc::NatEven;
    let start = ADDRS[addr_i % ADDRS.len()];
    let (mut data, cname) = felt_content(kind, 4 * n as usize, rng);
    for _ in 0..8 {
        data.push(rng.gen_range(1..P));
    }
    // C, B: overwritten when n > 0, returned unchanged when n == 0; A = capacity
    let mut stack = vec![n + 2, start];
    for _ in 0..8 {
        stack.push(rng.gen_range(0..P));
    }
    let capname = match cap_kind % 3 {
        0 => {
            stack.extend([0, 0, 0, 0]);
            "cap-zero"
        }
        1 => {
            // domain-style capacity: first element set (w0 is the deepest of the four)
            stack.extend([0, 0, 0, rng.gen_range(1..64)]);
            "cap-w0"
        }
        _ => {
            for _ in 0..4 {
                stack.push(rng.gen_range(0..P));
            }
            "cap-random"
        }
    };
    stack.push(start);
    stack.push(start + n);
    stack.extend(canary(rng, 8));
    let mut c = Case::new(p.src()).with_stack(&stack).with_advice(&data);
    c.stdlib = true;
    let class = format!("{capname}-{cname}");
    let key = format!("{}|n={n}|addr{}|{class}", p.full(), addr_i % ADDRS.len());
    (c, class, key)
}

fn nat_digest_case(j: usize, rng: &mut Rng8) -> (Case, String, String) {
    let p = Proc::NatDigest;
    let (mut stack, cname) = felt_content(j % CONTENT_KINDS, 12, rng);
    if j % CONTENT_KINDS < 3 {
        // make the three words distinguishable
        for (i, x) in stack.iter_mut().enumerate() {
            *x = (*x + i as u64 * 1000) % P;
        }
    }
    stack.extend(canary(rng, 8));
    let mut c = Case::new(p.src()).with_stack(&stack);
    c.stdlib = true;
    (c, cname.to_string(), format!("{}|{cname}", p.full()))
}

const SHA_ADDRS: [u64; 8] = [0, 1, 17, 10000, 65533, 1 << 20, (1u64 << 31) + 5, (1u64 << 32) - 4096];

fn sha_len_bucket(len: u64) -> &'static str {
    match len % 64 {
        0 => "0",
        1..=54 => "1-54",
        55 => "55",
        56 => "56",
        57..=62 => "57-62",
        _ => "63",
    }
}

fn sha_mem_case(len: u64, addr_i: usize, kind: usize, rng: &mut Rng8) -> (Case, String, String) {
    let p = Proc::ShaMem;
    let addr = SHA_ADDRS[addr_i % SHA_ADDRS.len()];
    let mut bytes = vec![0u8; len as usize];
    let cname = match kind % 4 {
        0 => "all-zero",
        1 => {
            bytes.fill(0xFF);
            "all-one"
        }
        2 => {
            bytes.iter_mut().enumerate().for_each(|(i, x)| *x = i as u8);
            "incr"
        }
        _ => {
            rng.fill(&mut bytes[..]);
            "random"
        }
    };
    while bytes.len() % 16 != 0 {
        bytes.push(0);
    }
    let mut cname = cname;
    if kind % 4 == 3 && rng.gen_bool(0.5) {
        // explicit zero padding area followed by one junk word just after it: memory beyond the
        // padding area is outside the contract's precondition and must not influence the digest
        let padded = len as usize + ((55usize.wrapping_sub(len as usize)) % 64) + 9;
        bytes.resize(padded, 0);
        for _ in 0..16 {
            bytes.push(rng.gen_range(1..=255));
        }
        cname = "random+junk-after-padding";
    }
    let w = words_be(&bytes);
    let n = w.len() / 4;
    // memory word k = [u[4k+3], u[4k+2], u[4k+1], u[4k]]
    let mut adv = vec![];
    for k in 0..n {
        adv.extend([w[4 * k + 3], w[4 * k + 2], w[4 * k + 1], w[4 * k]]);
    }
    let mut stack = vec![n as u64, addr, addr, len];
    stack.extend(canary(rng, 8));
    let mut c = Case::new(p.src()).with_stack(&stack).with_advice(&adv);
    c.stdlib = true;
    let blocks = (len + 9 + 63) / 64;
    let class = format!("mod64:{}|mod4:{}|{cname}", sha_len_bucket(len), len % 4);
    let key = format!("{}|len%64={}|blocks={}|addr{}|{cname}", p.full(), len % 64, blocks.min(6), addr_i % SHA_ADDRS.len());
    (c, class, key)
}

fn sha_structured_lens() -> Vec<u64> {
    let mut v: Vec<u64> = (0..=130).collect();
    v.extend([183, 184, 185, 191, 192, 193, 247, 248, 255, 256, 257, 311, 312, 319, 320, 321, 500, 503, 504, 511, 512, 513, 1000, 1023]);
    v
}

// MULTI-CALL WORKLOAD
// ================================================================================================
//
// A hash procedure must return the reference digest on EVERY invocation, not only on the first one
// in a fresh memory context: procedure locals are not zeroed between calls, so a procedure that
// relies on "my locals are still zero" is right once and wrong afterwards. A multi-call program
// runs 2..4 hash invocations one after the other (same procedure repeated, or different
// procedures mixed), optionally after a "dirty" prologue (a 64-local procedure that fills all its
// locals with random words, so that the locals region is non-zero on entry), and optionally some
// of them through `call` (fresh context, for contrast). Each invocation takes its operands from
// the advice stack (`adv_push`), its result is parked in memory (`mem_store`) and all results are
// reloaded at the end, so EVERY digest is compared with the reference.

/// memory where results are parked: step i, element j -> RESULT_BASE + 16 i + j
const RESULT_BASE: u64 = 1 << 24;
const DIRTY_LOCALS: usize = 64;
const MULTI_MONITOR_EVERY: usize = 50;

#[derive(Clone, Copy, Debug, PartialEq, Eq)]
enum How {
    /// `exec` in the root context
    Exec,
    /// `call` of a wrapper: fresh memory context
    Call,
    /// `call` of a wrapper that runs the dirty prologue inside the new context first
    DirtyCall,
}

#[derive(Clone, Debug, PartialEq, Eq)]
struct Shape {
    /// run the dirty prologue in the root context before the first step
    dirty: bool,
    steps: Vec<(How, Proc)>,
}

impl Proc {
    /// number of operand elements taken from the advice stack by `adv_push`
    fn n_args(self) -> usize {
        match self {
            Proc::Blake1 | Proc::Sha1 => 8,
            Proc::Blake2 | Proc::Sha2 | Proc::Keccak => 16,
            Proc::KeccakToBi | Proc::KeccakFromBi => 2,
            Proc::ShaMem | Proc::NatMem => 4,
            Proc::NatEven => 16,
            Proc::NatDigest => 12,
        }
    }
    /// number of result elements left on top of the stack
    fn n_results(self) -> usize {
        match self {
            Proc::Blake1 | Proc::Blake2 | Proc::Sha1 | Proc::Sha2 | Proc::Keccak | Proc::ShaMem => 8,
            Proc::KeccakToBi | Proc::KeccakFromBi => 2,
            Proc::NatMem | Proc::NatDigest => 4,
            Proc::NatEven => 14,
        }
    }
    /// rough CPU cost of one invocation in ms (only used to size the workload)
    fn cost_ms(self) -> f64 {
        match self {
            Proc::Keccak => 70.0,
            Proc::Sha2 | Proc::ShaMem => 12.0,
            Proc::Sha1 => 6.0,
            Proc::Blake1 | Proc::Blake2 => 3.0,
            _ => 0.6,
        }
    }
}

impl Shape {
    fn name(&self) -> String {
        let mut v: Vec<String> = vec![];
        if self.dirty {
            v.push("dirty".into());
        }
        for (h, p) in &self.steps {
            v.push(format!(
                "{}:{}",
                match h {
                    How::Exec => "exec",
                    How::Call => "call",
                    How::DirtyCall => "dirtycall",
                },
                p.full()
            ));
        }
        v.join(";")
    }

    fn parse(s: &str) -> Option<Shape> {
        let mut sh = Shape { dirty: false, steps: vec![] };
        for (i, tok) in s.split(';').enumerate() {
            if tok == "dirty" && i == 0 {
                sh.dirty = true;
                continue;
            }
            let (h, p) = tok.split_once(':')?;
            let how = match h {
                "exec" => How::Exec,
                "call" => How::Call,
                "dirtycall" => How::DirtyCall,
                _ => return None,
            };
            sh.steps.push((how, Proc::from_full(p)?));
        }
        if sh.steps.is_empty() || sh.steps.len() > 8 {
            return None;
        }
        Some(sh)
    }

    /// the callee of a `call` sees (and returns) 16 elements: results + canary must fit
    fn canary_len(&self) -> usize {
        let r = self.steps.iter().filter(|(h, _)| *h != How::Exec).map(|(_, p)| p.n_results()).max().unwrap_or(0);
        (16 - r).min(8)
    }

    fn uses_dirty(&self) -> bool {
        self.dirty || self.steps.iter().any(|(h, _)| *h == How::DirtyCall)
    }

    fn cost_ms(&self) -> f64 {
        self.steps.iter().map(|(_, p)| p.cost_ms()).sum::<f64>() + 0.5
    }

    fn src(&self) -> String {
        let mut s = String::new();
        let mut mods: Vec<&str> = self.steps.iter().map(|(_, p)| p.module()).collect();
        mods.sort();
        mods.dedup();
        for m in mods {
            s.push_str(&format!("use.std::crypto::hashes::{m}\n"));
        }
        s.push_str("use.std::sys\n");
        if self.uses_dirty() {
            s.push_str(&format!("proc.dirty.{DIRTY_LOCALS}\n"));
            for i in 0..DIRTY_LOCALS {
                s.push_str(&format!("    adv_push.4 loc_storew.{i} dropw\n"));
            }
            s.push_str("end\n");
        }
        let body = |p: Proc| -> String {
            format!("    adv_push.{}\n{}    exec.{}::{}\n", p.n_args(), if p.uses_loader() { LOADER } else { "" }, p.module(), p.name())
        };
        for (i, (h, p)) in self.steps.iter().enumerate() {
            if *h != How::Exec {
                s.push_str(&format!("proc.w{i}\n"));
                if *h == How::DirtyCall {
                    s.push_str("    exec.dirty\n");
                }
                s.push_str(&body(*p));
                s.push_str("    exec.sys::truncate_stack\nend\n");
            }
        }
        s.push_str("begin\n");
        if self.dirty {
            s.push_str("    exec.dirty\n");
        }
        for (i, (h, p)) in self.steps.iter().enumerate() {
            if *h == How::Exec {
                s.push_str(&body(*p));
            } else {
                s.push_str(&format!("    call.w{i}\n"));
            }
            // park the result
            s.push_str("   ");
            for j in 0..p.n_results() {
                s.push_str(&format!(" mem_store.{}", RESULT_BASE + 16 * i as u64 + j as u64));
            }
            s.push('\n');
        }
        // reload all results: final stack = R_0 ++ R_1 ++ … ++ canary
        for (i, (_, p)) in self.steps.iter().enumerate().rev() {
            s.push_str("   ");
            for j in (0..p.n_results()).rev() {
                s.push_str(&format!(" mem_load.{}", RESULT_BASE + 16 * i as u64 + j as u64));
            }
            s.push('\n');
        }
        s.push_str("end\n");
        s
    }
}

/// Splits the advice stack of a multi-call case back into one synthetic single-call case per step
/// (stack = the step's operands, advice = the data its loader prologue copies to memory).
fn decode_steps(shape: &Shape, advice: &[u64]) -> Option<Vec<Case>> {
    let mut pos = 0usize;
    let mut take = |n: usize| -> Option<&[u64]> {
        let r = advice.get(pos..pos + n)?;
        pos += n;
        Some(r)
    };
    if shape.dirty {
        take(4 * DIRTY_LOCALS)?;
    }
    let mut out = vec![];
    for (h, p) in &shape.steps {
        if *h == How::DirtyCall {
            take(4 * DIRTY_LOCALS)?;
        }
        let mut st: Vec<u64> = take(p.n_args())?.to_vec();
        st.reverse(); // the first element popped from the advice stack ends up deepest
        let data: Vec<u64> = if p.uses_loader() { take(4 * (*st.first()? as usize).min(1 << 16))?.to_vec() } else { vec![] };
        out.push(Case::new("").with_stack(&st).with_advice(&data));
    }
    Some(out)
}

/// operands of one step (top first) + loader data, produced by the single-call generators; memory
/// ranges of different steps are disjoint (`slot`)
fn step_inputs(p: Proc, slot: usize, prev: Option<&(Proc, Vec<u64>)>, rng: &mut Rng8) -> (Vec<u64>, Vec<u64>, &'static str) {
    let base = 20_000 + 8_192 * slot as u64 + rng.gen_range(0..64u64);
    match p {
        Proc::Blake1 | Proc::Blake2 | Proc::Sha1 | Proc::Sha2 | Proc::Keccak => {
            let nw = p.block_len() / 4;
            let ns = n_structured(p.block_len());
            let (j, cls) = match rng.gen_range(0..20) {
                0..=2 => (0, "all-zero"),
                3..=6 => (rng.gen_range(0..ns), "structured"),
                7..=9 if prev.map(|x| x.0 == p).unwrap_or(false) => (usize::MAX, "same-as-previous"),
                _ => (ns + 8 * rng.gen_range(0..1000usize), "random"),
            };
            if j == usize::MAX {
                return (prev.unwrap().1.clone(), vec![], cls);
            }
            let (c, _, _) = block_case(p, j, rng);
            (c.stack[..nw].to_vec(), vec![], cls)
        }
        Proc::KeccakToBi | Proc::KeccakFromBi => {
            let (c, _, _) = bi_case(p, rng.gen_range(0..N_BI_STRUCT + 400), rng);
            (c.stack[..2].to_vec(), vec![], "word")
        }
        Proc::NatDigest => {
            let (c, _, _) = nat_digest_case(rng.gen_range(0..CONTENT_KINDS), rng);
            (c.stack[..12].to_vec(), vec![], "state")
        }
        Proc::ShaMem => {
            let len = match rng.gen_range(0..3) {
                0 => 64 * rng.gen_range(0..3u64) + [0, 1, 54, 55, 56, 57, 62, 63][rng.gen_range(0..8)],
                _ => rng.gen_range(0..200),
            };
            let (c, _, _) = sha_mem_case(len, 0, rng.gen_range(0..4), rng);
            let mut st = c.stack[..4].to_vec();
            st[1] = base;
            st[2] = base;
            (st, c.advice_stack, "memory")
        }
        Proc::NatMem => {
            let n = rng.gen_range(1..=20u64);
            let (c, _, _) = nat_mem_case(n, 0, rng.gen_range(0..CONTENT_KINDS), rng);
            let mut st = c.stack[..4].to_vec();
            st[1] = base;
            st[2] = base;
            st[3] = base + n;
            (st, c.advice_stack, "memory")
        }
        Proc::NatEven => {
            let n = 2 * rng.gen_range(0..=10u64);
            let (c, _, _) = nat_even_case(n, 0, rng.gen_range(0..CONTENT_KINDS), rng.gen_range(0..3), rng);
            let mut st = c.stack[..16].to_vec();
            st[1] = base;
            st[14] = base;
            st[15] = base + n;
            (st, c.advice_stack, "memory")
        }
    }
}

fn multi_case(shape: &Shape, rng: &mut Rng8) -> (Case, String) {
    let mut adv: Vec<u64> = vec![];
    let mut classes: Vec<&str> = vec![];
    let dirty_words = |adv: &mut Vec<u64>, rng: &mut Rng8| {
        for _ in 0..4 * DIRTY_LOCALS {
            // never zero: every local element is visibly dirty
            adv.push(if rng.gen_bool(0.5) { rng.gen_range(1..=M32) } else { rng.gen_range(1..P) });
        }
    };
    if shape.dirty {
        dirty_words(&mut adv, rng);
    }
    let mut prev: Option<(Proc, Vec<u64>)> = None;
    for (slot, (h, p)) in shape.steps.iter().enumerate() {
        if *h == How::DirtyCall {
            dirty_words(&mut adv, rng);
        }
        let (st, data, cls) = step_inputs(*p, slot, prev.as_ref(), rng);
        adv.extend(st.iter().rev());
        adv.extend(data.iter());
        classes.push(cls);
        prev = Some((*p, st));
    }
    let mut c = Case::new(shape.src()).with_stack(&canary(rng, shape.canary_len())).with_advice(&adv);
    c.stdlib = true;
    (c, classes.join(","))
}

fn multi_witness(shape: &Shape, case: &Case) -> serde_json::Value {
    json!({"kind": "c17-multi", "shape": shape.name(), "case": case.to_json()})
}

fn evaluate_multi(shape: &Shape, prog: &Program, case: &Case, class: &str, monitor: bool, rng: &mut Rng8, rep: &mut Report) {
    let sname = shape.name();
    let Some(steps) = decode_steps(shape, &case.advice_stack) else {
        rep.inconclusive(format!("multi-call:malformed-advice:{sname}"));
        return;
    };
    // expected result of every step, from the single-call model
    let mut tops: Vec<Vec<u64>> = vec![];
    for ((_, p), sc) in shape.steps.iter().zip(steps.iter()) {
        match expectation(*p, sc) {
            Expect::Out { top, consumed } if consumed == sc.stack.len() && top.len() == p.n_results() => tops.push(top),
            _ => {
                rep.inconclusive(format!("multi-call:step-outside-domain:{}", p.full()));
                return;
            }
        }
    }
    let out = case.execute(prog);
    rep.count("multi_shape", &sname);
    let oc = match &out {
        ExecOutcome::Ok(_) => "ok".to_string(),
        ExecOutcome::Err(e) => format!("err:{}", err_kind(e)),
        ExecOutcome::Panic(_) => "panic".to_string(),
    };
    rep.count("multi_outcome", &oc);
    let mut root_used = shape.dirty;
    let mut seen_exec: Vec<Proc> = vec![];
    for (i, (h, p)) in shape.steps.iter().enumerate() {
        let full = p.full();
        rep.count("multi_call", &full);
        match h {
            How::Exec => {
                if root_used {
                    rep.count("multi_later_same_ctx", &full);
                }
                if seen_exec.contains(p) {
                    rep.count("multi_repeat_same_proc", &full);
                }
                if shape.dirty && i == 0 {
                    rep.count("multi_dirty_entry", &full);
                }
                root_used = true;
                seen_exec.push(*p);
            }
            How::Call => rep.count("multi_fresh_ctx", &full),
            How::DirtyCall => {
                rep.count("multi_fresh_ctx", &full);
                rep.count("multi_dirty_entry", &full);
            }
        }
    }
    rep.eval(&format!("multi|{sname}|{class}"));
    let same_proc = shape.steps.iter().all(|(_, p)| *p == shape.steps[0].1);
    match out {
        ExecOutcome::Panic(pi) => rep.violation(
            format!("multi-call/panic/{}", pi.site()),
            format!("multi-call program [{sname}] panicked ({}) at {}", pi.message, pi.location),
            multi_witness(shape, case),
        ),
        ExecOutcome::Err(e) => rep.violation(
            if same_proc { format!("{}/unexpected-failure/multi-call", shape.steps[0].1.full()) } else { "multi-call/unexpected-failure".to_string() },
            format!("multi-call program [{sname}] failed with {e}; every step has operands inside its documented domain (classes {class})"),
            multi_witness(shape, case),
        ),
        ExecOutcome::Ok(mut trace) => {
            let got: Vec<u64> = trace.stack_outputs().stack().to_vec();
            let mut want: Vec<u64> = tops.concat();
            let n_res = want.len();
            want.extend_from_slice(&case.stack);
            if trimmed(&got) == trimmed(&want) {
                if monitor {
                    rep.count("side_monitor", "multi-call");
                    crate::props::c03::monitor_trace(case, &mut trace, rng, 1, 0, rep);
                }
                return;
            }
            // attribute to the first step whose result differs
            let mut off = 0usize;
            let mut bad: Vec<String> = vec![];
            let mut first: Option<(usize, Proc, Vec<u64>, Vec<u64>)> = None;
            for (i, ((h, p), top)) in shape.steps.iter().zip(tops.iter()).enumerate() {
                let g: Vec<u64> = got.iter().skip(off).take(top.len()).copied().collect();
                if g != *top {
                    bad.push(format!("step {i} ({h:?} {})", p.full()));
                    if first.is_none() {
                        first = Some((i, *p, top.clone(), g));
                    }
                }
                off += top.len();
            }
            match first {
                Some((i, p, top, g)) => rep.violation(
                    format!("{}/digest-mismatch/multi-call", p.full()),
                    format!(
                        "multi-call program [{sname}]: result of step {i} ({}) differs from the reference: expected {:?}, got {:?}; wrong steps: {}; input classes {class}",
                        p.full(),
                        top,
                        g,
                        bad.join(", ")
                    ),
                    multi_witness(shape, case),
                ),
                None => rep.violation(
                    "multi-call/canary-clobbered",
                    format!("multi-call program [{sname}]: all results correct but the stack below them changed: expected {:?}, got {:?}", trimmed(&case.stack), trimmed(&got[n_res.min(got.len())..])),
                    multi_witness(shape, case),
                ),
            }
        }
    }
}

/// the fixed multi-call shapes (every procedure: x2, x3, dirty+x2, exec/call/exec, dirty + call +
/// dirtycall; mixed sequences) plus `n_random` seed-dependent mixed shapes
fn multi_shapes(rng: &mut Rng8, n_random: usize) -> Vec<Shape> {
    use How::*;
    let mut v = vec![];
    for p in PROCS {
        v.push(Shape { dirty: false, steps: vec![(Exec, p), (Exec, p)] });
        v.push(Shape { dirty: false, steps: vec![(Exec, p), (Exec, p), (Exec, p)] });
        v.push(Shape { dirty: true, steps: vec![(Exec, p), (Exec, p)] });
        v.push(Shape { dirty: false, steps: vec![(Exec, p), (Call, p), (Exec, p)] });
        v.push(Shape { dirty: true, steps: vec![(Call, p), (DirtyCall, p)] });
    }
    let mixed: Vec<Vec<Proc>> = vec![
        vec![Proc::Keccak, Proc::Sha2, Proc::Keccak],
        vec![Proc::Sha1, Proc::Keccak, Proc::Blake1, Proc::Keccak],
        vec![Proc::Blake2, Proc::ShaMem, Proc::Blake2, Proc::NatMem],
        vec![Proc::NatMem, Proc::ShaMem, Proc::NatEven, Proc::NatDigest, Proc::ShaMem],
        vec![Proc::Sha2, Proc::Sha1, Proc::ShaMem, Proc::Sha2],
        vec![Proc::Blake1, Proc::Blake2, Proc::Blake1],
        vec![Proc::KeccakToBi, Proc::Keccak, Proc::KeccakFromBi, Proc::Keccak],
        vec![Proc::ShaMem, Proc::Keccak, Proc::ShaMem],
    ];
    for (i, m) in mixed.into_iter().enumerate() {
        v.push(Shape { dirty: i % 2 == 1, steps: m.into_iter().map(|p| (Exec, p)).collect() });
    }
    for _ in 0..n_random {
        let n = rng.gen_range(2..=4);
        let mut steps = vec![];
        for _ in 0..n {
            // keccak is the expensive one: at most twice per random shape
            let mut p = PROCS[rng.gen_range(0..PROCS.len())];
            if p == Proc::Keccak && steps.iter().filter(|(_, q)| *q == Proc::Keccak).count() >= 2 {
                p = Proc::Blake2;
            }
            let h = match rng.gen_range(0..6) {
                0 => Call,
                1 => DirtyCall,
                _ => Exec,
            };
            steps.push((h, p));
        }
        let s = Shape { dirty: rng.gen_bool(0.5), steps };
        if !v.contains(&s) {
            v.push(s);
        }
    }
    v
}

fn run_multi(cfg: &Cfg) -> Report {
    let mut head = Report::new();
    let mut srng = rng_for(cfg.seed, "C17", 1u64 << 47);
    let shapes = multi_shapes(&mut srng, 10);
    // assemble every shape once (in parallel)
    let progs: Vec<Result<Box<Program>, String>> = par_map(shapes.len(), |i| {
        let mut c = Case::new(shapes[i].src());
        c.stdlib = true;
        match c.assemble() {
            AsmOutcome::Ok(p) => Ok(p),
            AsmOutcome::Err(e) => Err(e),
            AsmOutcome::Panic(p) => Err(format!("panic {}", p.site())),
        }
    });
    let mut items: Vec<(usize, usize)> = vec![];
    for (si, (sh, pr)) in shapes.iter().zip(progs.iter()).enumerate() {
        if let Err(e) = pr {
            head.inconclusive(format!("multi-call:cannot-assemble:[{}]:{}", sh.name(), crate::report::truncate(e, 80)));
            continue;
        }
        // CPU budget per shape: quick 4 s, thorough 160 s
        let c = sh.cost_ms();
        let n = cfg.n(((4_000.0 / c) as usize).clamp(16, 200), ((160_000.0 / c) as usize).clamp(400, 8_000));
        for j in 0..n {
            items.push((si, j));
        }
    }
    // interleave expensive and cheap shapes across shards
    let shards = 256usize;
    let reports = par_map(shards, |sh| {
        let mut rep = Report::new();
        let mut mon_rng = rng_for(cfg.seed, "C17", (1u64 << 41) + sh as u64);
        for (g, &(si, j)) in items.iter().enumerate() {
            if g % shards != sh {
                continue;
            }
            let Ok(prog) = &progs[si] else { continue };
            let mut rng = rng_for(cfg.seed, "C17", (1u64 << 48) | ((si as u64) << 24) | j as u64);
            let (case, class) = multi_case(&shapes[si], &mut rng);
            evaluate_multi(&shapes[si], prog, &case, &class, j % MULTI_MONITOR_EVERY == MULTI_MONITOR_EVERY / 2, &mut mon_rng, &mut rep);
        }
        rep
    });
    let mut rep = merge_all(reports);
    rep.merge(head);
    let (later, fresh, dirty) = if cfg.tier == Tier::Quick { (40, 10, 10) } else { (800, 200, 200) };
    for p in PROCS {
        let full = p.full();
        rep.floor(rep.get_count("multi_later_same_ctx", &full) >= later, &format!("multi-call:{full}-as-later-call-in-same-context-{later}x"));
        rep.floor(rep.get_count("multi_repeat_same_proc", &full) >= later, &format!("multi-call:{full}-repeated-in-same-context-{later}x"));
        rep.floor(rep.get_count("multi_fresh_ctx", &full) >= fresh, &format!("multi-call:{full}-via-call-{fresh}x"));
        rep.floor(rep.get_count("multi_dirty_entry", &full) >= dirty, &format!("multi-call:{full}-entered-with-dirty-locals-{dirty}x"));
    }
    rep.floor(rep.get_count("multi_outcome", "ok") >= 500, "multi-call:500-successful-programs");
    rep.floor(rep.get_count("side_monitor", "multi-call") >= 5, "multi-call:side-monitor-5x");
    rep
}

// DRIVER
// ================================================================================================

fn assemble(p: Proc) -> Result<Box<Program>, String> {
    let mut c = Case::new(p.src());
    c.stdlib = true;
    match c.assemble() {
        AsmOutcome::Ok(p) => Ok(p),
        AsmOutcome::Err(e) => Err(e),
        AsmOutcome::Panic(p) => Err(format!("panic {}", p.site())),
    }
}

pub fn meta() -> Meta {
    Meta {
        level: "exploration",
        rule: "each evaluation = one execution of `use.std::crypto::hashes::M begin [loader] exec.M::PROC end` (assembled once) whose complete final stack (digest words, 8-element canary, zero tail) was compared with the reference crate (blake3 / sha2 / sha3 / miden-crypto Rpo256) on the input decoded from the case itself; inputs: all structured 32/64-byte blocks (constants, every single-bit and single-zero-bit position, every single 0xFF byte, byte-boundary straddles, all prefix/suffix fills, single words) plus random blocks; sha256::hash_memory for every length 0..130 and block-boundary lengths up to 1023 x 4 contents x 8 addresses; native hashing for every word count 0..21 (+32,33,64,65) x 10 addresses x 6 element classes (x 3 capacity kinds for hash_memory_even); distinct = distinct (procedure, input class, pattern index | length, address and content class)".into(),
        assumptions: vec![
            "crates blake3, sha2, sha3 and miden-crypto's Rpo256 are the reference definitions".into(),
            "input/output encodings (endianness, word order, memory layout) are taken from the header comments and from how stdlib/tests/crypto feed the procedures; a wrong encoding cannot make digests agree".into(),
            "memory side effects of the procedures are not observed, only the final stack".into(),
            "random blocks are sampled; 2^256 / 2^512 inputs are not enumerated".into(),
        ],
    }
}

struct Plan {
    /// number of items per procedure
    n: [usize; 11],
    sha_lens: Vec<u64>,
    nat_ns: Vec<u64>,
    even_ns: Vec<u64>,
}

fn plan(cfg: &Cfg) -> Plan {
    let sha_lens = sha_structured_lens();
    let mut nat_ns: Vec<u64> = (0..=21).collect();
    nat_ns.extend([32, 33, 64, 65]);
    let mut even_ns: Vec<u64> = (0..=10).map(|k| 2 * k).collect();
    even_ns.extend([32, 64]);
    let r = |q: usize, t: usize| cfg.n(q, t);
    let n = [
        n_structured(32) + r(4_000, 400_000),                                   // blake3 1to1
        n_structured(64) + r(4_000, 400_000),                                   // blake3 2to1
        n_structured(32) + r(2_500, 200_000),                                   // sha256 1to1
        n_structured(64) + r(2_000, 120_000),                                   // sha256 2to1
        sha_lens.len() * 4 + r(1_200, 60_000),                                  // sha256 hash_memory
        n_structured(64) + r(500, 24_000),                                      // keccak256 hash
        N_BI_STRUCT + r(3_000, 100_000),                                        // to_bit_interleaved
        N_BI_STRUCT + r(3_000, 100_000),                                        // from_bit_interleaved
        r(3_000, 100_000),                                                      // state_to_digest
        even_ns.len() * ADDRS.len() * CONTENT_KINDS * 3 + r(2_000, 200_000),    // hash_memory_even
        nat_ns.len() * ADDRS.len() * CONTENT_KINDS + r(3_000, 300_000),         // hash_memory
    ];
    Plan { n, sha_lens, nat_ns, even_ns }
}

fn make_case(p: Proc, j: usize, pl: &Plan, rng: &mut Rng8) -> (Case, String, String) {
    match p {
        Proc::Blake1 | Proc::Blake2 | Proc::Sha1 | Proc::Sha2 | Proc::Keccak => block_case(p, j, rng),
        Proc::KeccakToBi | Proc::KeccakFromBi => bi_case(p, j, rng),
        Proc::NatDigest => nat_digest_case(j, rng),
        Proc::ShaMem => {
            let ns = pl.sha_lens.len() * 4;
            if j < ns {
                sha_mem_case(pl.sha_lens[j / 4], j, j % 4, rng)
            } else {
                let len = match rng.gen_range(0..4) {
                    0 => rng.gen_range(0..1024),
                    1 => 64 * rng.gen_range(0..8u64) + [0, 1, 54, 55, 56, 57, 62, 63][rng.gen_range(0..8)],
                    _ => rng.gen_range(0..300),
                };
                sha_mem_case(len, rng.gen_range(0..8), 3, rng)
            }
        }
        Proc::NatMem => {
            let ns = pl.nat_ns.len() * ADDRS.len() * CONTENT_KINDS;
            if j < ns {
                let n = pl.nat_ns[j / (ADDRS.len() * CONTENT_KINDS)];
                nat_mem_case(n, j / CONTENT_KINDS % ADDRS.len(), j % CONTENT_KINDS, rng)
            } else {
                let n = if rng.gen_ratio(1, 10) { rng.gen_range(22..200) } else { rng.gen_range(1..22) };
                nat_mem_case(n, rng.gen_range(0..ADDRS.len()), rng.gen_range(3..CONTENT_KINDS), rng)
            }
        }
        Proc::NatEven => {
            let per_n = ADDRS.len() * CONTENT_KINDS * 3;
            let ns = pl.even_ns.len() * per_n;
            if j < ns {
                let n = pl.even_ns[j / per_n];
                nat_even_case(n, j / (CONTENT_KINDS * 3) % ADDRS.len(), j / 3 % CONTENT_KINDS, j % 3, rng)
            } else {
                let n = 2 * if rng.gen_ratio(1, 10) { rng.gen_range(11..100) } else { rng.gen_range(0..11u64) };
                nat_even_case(n, rng.gen_range(0..ADDRS.len()), rng.gen_range(3..CONTENT_KINDS), rng.gen_range(0..3), rng)
            }
        }
    }
}

pub fn run(cfg: &Cfg) -> Report {
    crate::props::c16::tune_allocator();
    let mut head = Report::new();
    // every exported procedure of the four modules must be in the table
    for m in ["blake3", "sha256", "keccak256", "native"] {
        let exp = exported(&format!("std::crypto::hashes::{m}"));
        head.note(&format!("exports_{m}"), json!(exp));
        head.floor(!exp.is_empty(), &format!("exports-of-{m}-enumerated"));
        for e in &exp {
            if !PROCS.iter().any(|p| p.module() == m && p.name() == e) {
                head.inconclusive(format!("exported-procedure-without-oracle:{m}::{e}"));
            }
        }
        for p in PROCS.iter().filter(|p| p.module() == m) {
            if !exp.iter().any(|e| e == p.name()) {
                head.inconclusive(format!("procedure-not-exported:{}", p.full()));
            }
        }
    }
    let mut progs: Vec<Box<Program>> = vec![];
    for p in PROCS {
        match assemble(p) {
            Ok(x) => progs.push(x),
            Err(e) => {
                head.inconclusive(format!("cannot-assemble:{}:{}", p.full(), crate::report::truncate(&e, 80)));
                return head;
            }
        }
    }
    let pl = plan(cfg);
    // global work list: item g -> (procedure, j); expensive procedures are interleaved with cheap
    // ones by striding so that shards finish together
    let mut items: Vec<(usize, usize)> = vec![];
    for (pi, &n) in pl.n.iter().enumerate() {
        for j in 0..n {
            items.push((pi, j));
        }
    }
    let shards = 256usize;
    let reports = par_map(shards, |sh| {
        let mut rep = Report::new();
        let mut mon_rng = rng_for(cfg.seed, "C17", (1u64 << 40) + sh as u64);
        for (g, &(pi, j)) in items.iter().enumerate() {
            if g % shards != sh {
                continue;
            }
            let p = PROCS[pi];
            let mut rng = rng_for(cfg.seed, "C17", ((pi as u64) << 32) | j as u64);
            let (case, class, key) = make_case(p, j, &pl, &mut rng);
            if p == Proc::ShaMem {
                let len = case.stack[3];
                rep.count("sha256_hash_memory_len_mod64", sha_len_bucket(len));
                rep.count("sha256_hash_memory_len_mod4", &(len % 4).to_string());
                rep.count("sha256_hash_memory_blocks", &((len + 9 + 63) / 64).min(17).to_string());
            }
            if p == Proc::NatMem || p == Proc::NatEven {
                let (s, e) = if p == Proc::NatMem { (case.stack[2], case.stack[3]) } else { (case.stack[14], case.stack[15]) };
                rep.count(&format!("{}_words", p.name()), &(e - s).min(66).to_string());
                rep.count(&format!("{}_addr", p.name()), &s.to_string());
            }
            let monitor = j % MONITOR_EVERY == MONITOR_EVERY / 2;
            evaluate(p, &progs[pi], &case, &class, &key, monitor, &mut mon_rng, &mut rep);
        }
        rep
    });
    let mut rep = merge_all(reports);
    rep.merge(head);
    rep.merge(run_multi(cfg));

    // floors
    let min = if cfg.tier == Tier::Quick { 300 } else { 3000 };
    for p in PROCS {
        let full = p.full();
        rep.floor(rep.get_count("proc", &full) >= min, &format!("{full}-exercised-{min}x"));
        rep.floor(rep.get_count("outcome", &format!("{full}|ok")) >= min / 2, &format!("{full}-succeeded-{}x", min / 2));
    }
    for p in [Proc::Blake1, Proc::Blake2, Proc::Sha1, Proc::Sha2, Proc::Keccak] {
        let full = p.full();
        let n = p.block_len() as u64;
        rep.floor(rep.get_count("class", &format!("{full}|walk-one")) == 8 * n, &format!("{full}-every-single-bit-position"));
        rep.floor(rep.get_count("class", &format!("{full}|walk-zero")) == 8 * n, &format!("{full}-every-single-zero-bit-position"));
        rep.floor(rep.get_count("class", &format!("{full}|byte-ff")) == n, &format!("{full}-every-byte-position"));
        for c in ["all-zero", "all-one", "random"] {
            rep.floor(rep.get_count("class", &format!("{full}|{c}")) >= 1, &format!("{full}-{c}"));
        }
    }
    for b in ["0", "1-54", "55", "56", "57-62", "63"] {
        rep.floor(rep.get_count("sha256_hash_memory_len_mod64", b) >= 8, &format!("sha256::hash_memory-length-mod-64-class-{b}"));
    }
    for b in 0..4 {
        rep.floor(rep.get_count("sha256_hash_memory_len_mod4", &b.to_string()) >= 20, &format!("sha256::hash_memory-length-mod-4-class-{b}"));
    }
    for b in 1..=3 {
        rep.floor(rep.get_count("sha256_hash_memory_blocks", &b.to_string()) >= 8, &format!("sha256::hash_memory-{b}-blocks"));
    }
    for n in 0..=10u64 {
        // 4n elements = 0, 4, …, 40
        rep.floor(rep.get_count("hash_memory_words", &n.to_string()) >= 20, &format!("native::hash_memory-{}-elements", 4 * n));
        if n % 2 == 0 {
            rep.floor(rep.get_count("hash_memory_even_words", &n.to_string()) >= 20, &format!("native::hash_memory_even-{}-elements", 4 * n));
        }
    }
    rep.floor(rep.hist_len("hash_memory_addr") >= 8 && rep.hist_len("hash_memory_even_addr") >= 8, "native-hashing-at-8-memory-offsets");
    rep.floor(rep.hist_len("side_monitor") >= 8, "side-monitor-saw-8-procedures");
    rep
}

pub fn replay(v: &serde_json::Value, rep: &mut Report) {
    let Some(case) = v.get("case").and_then(Case::from_json) else { return };
    if let Some(sname) = v.get("shape").and_then(|x| x.as_str()) {
        let Some(shape) = Shape::parse(sname) else {
            rep.inconclusive("replay:unknown-shape");
            return;
        };
        let mut c = Case::new(shape.src());
        c.stdlib = true;
        let prog = match c.assemble() {
            AsmOutcome::Ok(p) => p,
            _ => {
                rep.inconclusive("replay:cannot-assemble-shape");
                return;
            }
        };
        let mut rng = rng_for(0, "C17-replay", 0);
        evaluate_multi(&shape, &prog, &case, "replay", true, &mut rng, rep);
        return;
    }
    let Some(p) = v.get("proc").and_then(|x| x.as_str()).and_then(Proc::from_full) else {
        // a side-monitor (C03) witness: plain case
        let mut rng = rng_for(0, "C17-replay", 0);
        crate::props::c03::run_case(&case, &mut rng, rep, false);
        return;
    };
    let prog = match assemble(p) {
        Ok(x) => x,
        Err(e) => {
            rep.inconclusive(format!("replay:cannot-assemble:{e}"));
            return;
        }
    };
    let mut rng = rng_for(0, "C17-replay", 0);
    let class = v.get("class").and_then(|c| c.as_str()).unwrap_or("replay").to_string();
    evaluate(p, &prog, &case, &class, &format!("{}|replay", p.full()), true, &mut rng, rep);
}
