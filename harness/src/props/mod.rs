use crate::report::{Cfg, Meta, Report};
use serde_json::Value;

pub mod c01;
pub mod c03;

pub fn dispatch(cfg: &Cfg) -> Option<(Meta, Report)> {
    Some(match cfg.id.as_str() {
        "C01" => (c01::meta(), c01::run(cfg)),
        "C03" => (c03::meta(), c03::run(cfg)),
        _ => return None,
    })
}

pub fn replay(id: &str, v: &Value, rep: &mut Report) -> bool {
    match id {
        "C01" => c01::replay(v, rep),
        "C03" => c03::replay(v, rep),
        _ => return false,
    }
    true
}
