use crate::report::{Cfg, Meta, Report};
use serde_json::Value;

pub mod c01;
pub mod c02;
pub mod c03;
pub mod c04;
pub mod c05;
pub mod c06;
pub mod c07;
pub mod c08;
pub mod c09;
pub mod c10;
pub mod c11;
pub mod c12;
pub mod c13;
pub mod c14;
pub mod c15;
pub mod c16;
pub mod c17;
pub mod c18;
pub mod c19;

pub fn dispatch(cfg: &Cfg) -> Option<(Meta, Report)> {
    Some(match cfg.id.as_str() {
        "C01" => (c01::meta(), c01::run(cfg)),
        "C02" => (c02::meta(), c02::run(cfg)),
        "C03" => (c03::meta(), c03::run(cfg)),
        "C04" => (c04::meta(), c04::run(cfg)),
        "C05" => (c05::meta(), c05::run(cfg)),
        "C06" => (c06::meta(), c06::run(cfg)),
        "C07" => (c07::meta(), c07::run(cfg)),
        "C08" => (c08::meta(), c08::run(cfg)),
        "C09" => (c09::meta(), c09::run(cfg)),
        "C10" => (c10::meta(), c10::run(cfg)),
        "C11" => (c11::meta(), c11::run(cfg)),
        "C12" => (c12::meta(), c12::run(cfg)),
        "C13" => (c13::meta(), c13::run(cfg)),
        "C14" => (c14::meta(), c14::run(cfg)),
        "C15" => (c15::meta(), c15::run(cfg)),
        "C16" => (c16::meta(), c16::run(cfg)),
        "C17" => (c17::meta(), c17::run(cfg)),
        "C18" => (c18::meta(), c18::run(cfg)),
        "C19" => (c19::meta(), c19::run(cfg)),
        _ => return None,
    })
}

pub fn replay(id: &str, v: &Value, rep: &mut Report) -> bool {
    match id {
        "C01" => c01::replay(v, rep),
        "C02" => c02::replay(v, rep),
        "C03" => c03::replay(v, rep),
        "C04" => c04::replay(v, rep),
        "C05" => c05::replay(v, rep),
        "C06" => c06::replay(v, rep),
        "C07" => c07::replay(v, rep),
        "C08" => c08::replay(v, rep),
        "C09" => c09::replay(v, rep),
        "C10" => c10::replay(v, rep),
        "C11" => c11::replay(v, rep),
        "C12" => c12::replay(v, rep),
        "C13" => c13::replay(v, rep),
        "C14" => c14::replay(v, rep),
        "C15" => c15::replay(v, rep),
        "C16" => c16::replay(v, rep),
        "C17" => c17::replay(v, rep),
        "C18" => c18::replay(v, rep),
        "C19" => c19::replay(v, rep),
        _ => return false,
    }
    true
}
