//! C07 — contexts isolate memory and stack; memory is zero-initialised word RAM.
//!
//! Generated programs are straight-line scripts of memory gadgets over a small colliding address set,
//! spread over procedures reached through nestings of exec / call / syscall / dyncall / dynexec (with a
//! generated kernel), at varied caller stack depths. Every stored element is a unique id. After every
//! gadget an `emit.<n>` probe lets a recording `Host` (public `Host` trait) capture ctx, fmp and the
//! stack, and a final probe dumps the memory of every context. The same script is replayed through the
//! reference model M-ctx (below, written from docs/src/user_docs/assembly/{execution_contexts,
//! io_operations,code_organization}.md and docs/src/design/stack/io_ops.md) and every probe, the final
//! stack, the final memory and the time-ordered list of memory accesses are compared. The
//! memory-chiplet rows of the main trace are checked as a second, model-free history.

use crate::case::{err_kind, AsmOutcome, Case};
use crate::report::{merge_all, truncate, Cfg, Meta, Report};
use crate::util::{catch, felts, par_map, rng_for, Rng8, P};
use processor::{
    AdviceExtractor, AdviceInjector, ContextId, DefaultHost, ExecutionError, ExecutionOptions, ExecutionTrace, Host,
    HostResponse, MemAdviceProvider, Process, ProcessState, Program,
};
use rand::Rng;
use serde_json::{json, Value};
use std::collections::{BTreeMap, BTreeSet, HashMap};
use winter_prover::Trace;

pub fn meta() -> Meta {
    Meta {
        level: "exploration",
        rule: "each evaluation = one memory/locals/stack-visibility operation (mem_load/loadw/store/storew/stream, adv_pipe, loc_load/loadw/store/storew, locaddr, sdepth, caller, call/syscall/dyncall/dynexec/exec return) executed by the real VM inside a generated multi-context program and compared, through a host probe placed right after it, with the reference model M-ctx (ctx, fmp, every visible stack element), plus per program: final stack, final memory of every context, the time-ordered memory access list, and the model-free consistency of the memory-chiplet rows; planned-failure programs (address >= 2^32 incl. second word of stream/pipe, return depth != 16, unknown dyn target, syscall to non-kernel procedure, caller outside syscall) must fail exactly at the planned instruction; distinct = distinct (op kind, same/different/no context of the last writer of that address, address class, call-nesting signature)".into(),
        assumptions: vec![
            "probes use the public Host::on_event callback and ProcessState accessors (get_stack_item, get_stack_state, ctx, fmp, get_mem_value)".into(),
            "procedure MAST roots are taken from procref in the same program (C08 checks them against the MAST model)".into(),
            "the offset of local 0 from the frame base is calibrated once per run with `locaddr.0` (docs say 2^30 for the first local; see note local0_offset)".into(),
            "scripts are straight-line (no data-dependent control flow); <= 9 procedures, invocation depth <= 4".into(),
        ],
    }
}

// CONSTANTS
// ================================================================================================

const A30: u64 = 1 << 30;
const A31: u64 = 1 << 31;
const A32: u64 = 1 << 32;
const VALID_ADDRS: [u64; 16] =
    [0, 1, 2, 3, A30 - 1, A30, A30 + 1, A30 + 2, A30 + 3, A30 + 4, A31, A31 + 1, A31 + 2, A31 + 3, A32 - 2, A32 - 1];
const INVALID_ADDRS: [u64; 3] = [A32, A32 + 1, P - 1];
const FINAL_PROBE: u32 = 4_000_000;
const HASH_PROBE_BASE: u32 = 3_000_000;
/// placeholder values standing for the elements of a procedure's MAST root in the model
const PH_BASE: u64 = 1 << 40;
/// same, for the words produced by `caller` (kept apart so that a deviation can be isolated)
const CPH_BASE: u64 = PH_BASE + 2048;

fn addr_class(a: u64) -> &'static str {
    match a {
        0..=3 => "low",
        x if x == A30 - 1 => "2^30-1",
        x if (A30..A30 + 16).contains(&x) => "locals-region",
        x if (A31..A31 + 16).contains(&x) => "syscall-locals-region",
        x if x == A32 - 2 => "2^32-2",
        x if x == A32 - 1 => "2^32-1",
        x if x == A32 => "invalid:2^32",
        x if x == A32 + 1 => "invalid:2^32+1",
        x if x == P - 1 => "invalid:p-1",
        x if x < A32 => "other-valid",
        _ => "invalid:other",
    }
}

// PROGRAM REPRESENTATION
// ================================================================================================

#[derive(Clone, Debug, PartialEq, Eq)]
pub enum Ins {
    Push(u64),
    Drop,
    Dropw,
    Padw,
    Swap(u8),
    MemLoad(Option<u32>),
    MemLoadw(Option<u32>),
    MemStore(Option<u32>),
    MemStorew(Option<u32>),
    MemStream,
    AdvPipe,
    LocLoad(u16),
    LocLoadw(u16),
    LocStore(u16),
    LocStorew(u16),
    LocAddr(u16),
    Sdepth,
    Caller,
    Procref(usize),
    Exec(usize),
    Call(usize),
    Syscall(usize),
    Dyncall,
    Dynexec,
    /// `emit.<id>`; the tag names the gadget the probe closes (used for signatures and coverage)
    Probe(u32, &'static str),
}

#[derive(Clone, Copy, Debug, PartialEq, Eq)]
pub enum Class {
    Root,
    Call,
    Nested,
    Sys,
}

impl Class {
    fn name(&self) -> &'static str {
        match self {
            Class::Root => "root",
            Class::Call => "call",
            Class::Nested => "nested-call",
            Class::Sys => "syscall",
        }
    }
}

#[derive(Clone, Debug)]
pub struct ProcDef {
    pub name: String,
    pub locals: u16,
    pub kernel: bool,
    pub class: Class,
    /// invoked through dyncall/dynexec: the body starts by dropping the hash
    pub via_dyn: bool,
    /// (transitively) executes `caller`: may only be reached from a user context
    pub needs_user_caller: bool,
    pub body: Vec<Ins>,
}

#[derive(Clone, Debug, Default)]
pub struct Prog {
    pub procs: Vec<ProcDef>,
    pub main: Vec<Ins>,
    /// top first
    pub stack_in: Vec<u64>,
    /// procedures whose MAST root is needed (targets of dyn*, owners of user contexts)
    pub hashed: BTreeSet<usize>,
    pub planned_fail: Option<&'static str>,
}

fn ins_text(p: &Prog, i: &Ins) -> String {
    let opt = |n: &str, a: &Option<u32>| match a {
        Some(a) => format!("{n}.{a}"),
        None => n.to_string(),
    };
    match i {
        Ins::Push(v) => format!("push.{v}"),
        Ins::Drop => "drop".into(),
        Ins::Dropw => "dropw".into(),
        Ins::Padw => "padw".into(),
        Ins::Swap(k) => format!("swap.{k}"),
        Ins::MemLoad(a) => opt("mem_load", a),
        Ins::MemLoadw(a) => opt("mem_loadw", a),
        Ins::MemStore(a) => opt("mem_store", a),
        Ins::MemStorew(a) => opt("mem_storew", a),
        Ins::MemStream => "mem_stream".into(),
        Ins::AdvPipe => "adv_pipe".into(),
        Ins::LocLoad(i) => format!("loc_load.{i}"),
        Ins::LocLoadw(i) => format!("loc_loadw.{i}"),
        Ins::LocStore(i) => format!("loc_store.{i}"),
        Ins::LocStorew(i) => format!("loc_storew.{i}"),
        Ins::LocAddr(i) => format!("locaddr.{i}"),
        Ins::Sdepth => "sdepth".into(),
        Ins::Caller => "caller".into(),
        Ins::Procref(t) => format!("procref.{}", p.procs[*t].name),
        Ins::Exec(t) => format!("exec.{}", p.procs[*t].name),
        Ins::Call(t) => format!("call.{}", p.procs[*t].name),
        Ins::Syscall(t) => format!("syscall.{}", p.procs[*t].name),
        Ins::Dyncall => "dyncall".into(),
        Ins::Dynexec => "dynexec".into(),
        Ins::Probe(n, _) => format!("emit.{n}"),
    }
}

fn body_text(p: &Prog, body: &[Ins], out: &mut String) {
    let mut line = String::from(" ");
    for i in body {
        let t = ins_text(p, i);
        line.push(' ');
        line.push_str(&t);
        if matches!(i, Ins::Probe(..)) || line.len() > 90 {
            out.push_str(&line);
            out.push('\n');
            line = String::from(" ");
        }
    }
    if line.trim().len() > 0 {
        out.push_str(&line);
        out.push('\n');
    }
}

/// (program source, kernel source)
pub fn render(p: &Prog) -> (String, Option<String>) {
    let mut src = String::new();
    let mut ker = String::new();
    // callees are created after their callers, so definition order = reverse creation order
    for pr in p.procs.iter().rev() {
        let out = if pr.kernel { &mut ker } else { &mut src };
        out.push_str(&format!("{}.{}.{}\n", if pr.kernel { "export" } else { "proc" }, pr.name, pr.locals));
        body_text(p, &pr.body, out);
        out.push_str("end\n");
    }
    src.push_str("begin\n");
    body_text(p, &p.main, &mut src);
    src.push_str("end\n");
    (src, if ker.is_empty() { None } else { Some(ker) })
}

// GENERATOR
// ================================================================================================

struct Gen<'a> {
    rng: &'a mut Rng8,
    prog: Prog,
    next_id: u64,
    next_probe: u32,
    /// gadgets left before the planned failure is injected
    fail_in: Option<usize>,
    gadget_budget: usize,
}

#[derive(Clone, Copy)]
struct FrameCtx {
    /// creation index of the procedure being generated (usize::MAX for main)
    me: usize,
    class: Class,
    kernel: bool,
    locals: u16,
    /// statically known stack depth (main and called frames); None in exec'd procedures
    depth: Option<usize>,
    inv_depth: usize,
    allow_caller: bool,
    /// the frame is the top-level body of a call/syscall/dyncall (must return with depth 16)
    called: bool,
}

impl<'a> Gen<'a> {
    fn fresh(&mut self) -> u64 {
        self.next_id += 1;
        self.next_id
    }
    fn probe(&mut self, tag: &'static str) -> Ins {
        self.next_probe += 1;
        Ins::Probe(self.next_probe, tag)
    }
    fn slot(&mut self) -> u8 {
        self.rng.gen_range(1..=15)
    }
    fn valid_addr(&mut self) -> u64 {
        VALID_ADDRS[self.rng.gen_range(0..VALID_ADDRS.len())]
    }

    /// removes `n` freshly produced result elements from the top: some are kept in a slot of the
    /// visible 16 (so they are also returned to the caller / the final stack), the rest is dropped
    fn consume(&mut self, b: &mut Vec<Ins>, n: usize) {
        for _ in 0..n {
            if self.rng.gen_range(0..3) == 0 {
                let k = self.slot();
                b.push(Ins::Swap(k));
            }
            b.push(Ins::Drop);
        }
    }

    fn addr_operand(&mut self, b: &mut Vec<Ins>, a: u64) -> Option<u32> {
        // immediate form only for valid addresses
        if a < A32 && self.rng.gen_range(0..2) == 0 {
            Some(a as u32)
        } else {
            b.push(Ins::Push(a));
            None
        }
    }

    fn g_mem(&mut self, b: &mut Vec<Ins>, op: usize, a: u64) {
        match op {
            0 => {
                let v = self.fresh();
                b.push(Ins::Push(v));
                let o = self.addr_operand(b, a);
                b.push(Ins::MemStore(o));
                b.push(self.probe("mem_store"));
            }
            1 => {
                for _ in 0..4 {
                    let v = self.fresh();
                    b.push(Ins::Push(v));
                }
                let o = self.addr_operand(b, a);
                b.push(Ins::MemStorew(o));
                b.push(self.probe("mem_storew"));
                b.push(Ins::Dropw);
            }
            2 => {
                let o = self.addr_operand(b, a);
                b.push(Ins::MemLoad(o));
                b.push(self.probe("mem_load"));
                self.consume(b, 1);
            }
            3 => {
                b.push(Ins::Padw);
                let o = self.addr_operand(b, a);
                b.push(Ins::MemLoadw(o));
                b.push(self.probe("mem_loadw"));
                self.consume(b, 4);
            }
            4 => {
                b.push(Ins::Push(a));
                b.extend([Ins::Padw, Ins::Padw, Ins::Padw, Ins::MemStream]);
                b.push(self.probe("mem_stream"));
                self.consume(b, 13);
            }
            _ => {
                b.push(Ins::Push(a));
                b.extend([Ins::Padw, Ins::Padw, Ins::Padw, Ins::AdvPipe]);
                b.push(self.probe("adv_pipe"));
                self.consume(b, 13);
            }
        }
    }

    fn g_loc(&mut self, b: &mut Vec<Ins>, locals: u16) {
        let i = self.rng.gen_range(0..locals);
        match self.rng.gen_range(0..5) {
            0 => {
                let v = self.fresh();
                b.push(Ins::Push(v));
                b.push(Ins::LocStore(i));
                b.push(self.probe("loc_store"));
            }
            1 => {
                for _ in 0..4 {
                    let v = self.fresh();
                    b.push(Ins::Push(v));
                }
                b.push(Ins::LocStorew(i));
                b.push(self.probe("loc_storew"));
                b.push(Ins::Dropw);
            }
            2 => {
                b.push(Ins::LocLoad(i));
                b.push(self.probe("loc_load"));
                self.consume(b, 1);
            }
            3 => {
                b.push(Ins::Padw);
                b.push(Ins::LocLoadw(i));
                b.push(self.probe("loc_loadw"));
                self.consume(b, 4);
            }
            _ => {
                b.push(Ins::LocAddr(i));
                b.push(self.probe("locaddr"));
                self.consume(b, 1);
            }
        }
    }

    fn new_proc(&mut self, kernel: bool, class: Class, via_dyn: bool) -> usize {
        let idx = self.prog.procs.len();
        let locals = *[0u16, 1, 2, 3, 5].get(self.rng.gen_range(0..5)).unwrap();
        self.prog.procs.push(ProcDef {
            name: format!("{}{}", if kernel { "k" } else { "f" }, idx),
            locals,
            kernel,
            class,
            via_dyn,
            needs_user_caller: false,
            body: vec![],
        });
        idx
    }

    /// picks an existing procedure that may be invoked from `f` in the given way, or creates one
    fn target(&mut self, f: &FrameCtx, kind: &str) -> Option<usize> {
        let (kernel, class, via_dyn) = match kind {
            "exec" => (f.kernel, f.class, false),
            "dynexec" => (false, f.class, true),
            "call" => (false, child_class(f.class), false),
            "dyncall" => (false, child_class(f.class), true),
            _ => (true, Class::Sys, false),
        };
        // definition order = reverse creation order: only procedures created after `f.me` are visible
        // (kernel procedures are visible to every user procedure)
        let cands: Vec<usize> = (0..self.prog.procs.len())
            .filter(|&q| {
                let pr = &self.prog.procs[q];
                let visible = if kind == "syscall" { true } else { f.me == usize::MAX || q > f.me };
                // a procedure still under construction (an ancestor) can never be a target
                visible
                    && !pr.body.is_empty()
                    && pr.kernel == kernel
                    && pr.class == class
                    && pr.via_dyn == via_dyn
                    && (if kind == "syscall" { f.class != Class::Root } else { f.allow_caller } || !pr.needs_user_caller)
            })
            .collect();
        if !cands.is_empty() && (self.prog.procs.len() >= 9 || self.rng.gen_range(0..3) == 0) {
            return Some(cands[self.rng.gen_range(0..cands.len())]);
        }
        if self.prog.procs.len() >= 9 || f.inv_depth >= 4 {
            return None;
        }
        let q = self.new_proc(kernel, class, via_dyn);
        let locals = self.prog.procs[q].locals;
        let called = kind != "exec" && kind != "dynexec";
        let cf = FrameCtx {
            me: q,
            class,
            kernel,
            locals,
            depth: if called { Some(16) } else { None },
            inv_depth: f.inv_depth + 1,
            allow_caller: if kind == "syscall" { f.class != Class::Root } else { f.allow_caller },
            called,
        };
        let n = self.rng.gen_range(2..=6);
        let mut body = vec![];
        if via_dyn {
            body.push(Ins::Dropw);
        }
        self.gen_body(&cf, n, &mut body);
        self.prog.procs[q].body = body;
        Some(q)
    }

    fn g_invoke(&mut self, f: &mut FrameCtx, b: &mut Vec<Ins>) -> bool {
        let kinds: &[&str] = if f.kernel { &["exec"] } else { &["exec", "call", "call", "syscall", "syscall", "dyncall", "dynexec"] };
        let kind = kinds[self.rng.gen_range(0..kinds.len())];
        let t = match self.target(f, kind) {
            Some(t) => t,
            None => return false,
        };
        if self.prog.procs[t].needs_user_caller && f.me != usize::MAX && (kind == "exec" || kind == "dynexec") {
            self.prog.procs[f.me].needs_user_caller = true;
        }
        // vary the caller's depth at the call site
        let k = *[0usize, 0, 1, 3, 5, 8].get(self.rng.gen_range(0..6)).unwrap();
        for _ in 0..k {
            let v = self.fresh();
            b.push(Ins::Push(v));
        }
        let tag: &'static str = match kind {
            "exec" => {
                b.push(Ins::Exec(t));
                "exec-return"
            }
            "call" => {
                b.push(Ins::Call(t));
                self.prog.hashed.insert(t);
                "call-return"
            }
            "syscall" => {
                b.push(Ins::Syscall(t));
                "syscall-return"
            }
            "dyncall" => {
                b.push(Ins::Procref(t));
                b.push(Ins::Dyncall);
                self.prog.hashed.insert(t);
                "dyncall-return"
            }
            _ => {
                b.push(Ins::Procref(t));
                b.push(Ins::Dynexec);
                self.prog.hashed.insert(t);
                "dynexec-return"
            }
        };
        // a real operation after the block so that the probe never sits alone in a span
        b.push(Ins::Push(0));
        b.push(Ins::Drop);
        b.push(self.probe(tag));
        if kind == "dyncall" {
            // the hash was dropped inside the callee's context only: depth is still +4 here
            b.push(Ins::Dropw);
        }
        for _ in 0..k {
            b.push(Ins::Drop);
        }
        true
    }

    fn g_fail(&mut self, f: &FrameCtx, b: &mut Vec<Ins>) {
        let r = self.rng.gen_range(0..100);
        let name: &'static str;
        if r < 40 {
            let a = INVALID_ADDRS[self.rng.gen_range(0..3)];
            let op = self.rng.gen_range(0..6);
            self.g_mem(b, op, a);
            name = "invalid-address";
        } else if r < 52 {
            self.g_mem(b, 4, A32 - 1);
            name = "stream-second-word";
        } else if r < 64 {
            self.g_mem(b, 5, A32 - 1);
            name = "pipe-second-word";
        } else if r < 78 && f.called {
            // handled by the caller of gen_body: extra element at return
            name = "return-depth";
        } else if r < 88 && !f.kernel {
            for _ in 0..4 {
                let v = self.fresh();
                b.push(Ins::Push(v));
            }
            b.push(if self.rng.gen_range(0..2) == 0 { Ins::Dyncall } else { Ins::Dynexec });
            b.push(Ins::Push(0));
            b.push(Ins::Drop);
            b.push(self.probe("dyn-unknown-target"));
            name = "dyn-unknown-target";
        } else if !f.kernel {
            b.push(Ins::Padw);
            b.push(Ins::Caller);
            b.push(self.probe("caller-outside-syscall"));
            b.push(Ins::Dropw);
            name = "caller-outside-syscall";
        } else {
            let a = INVALID_ADDRS[self.rng.gen_range(0..3)];
            self.g_mem(b, 2, a);
            name = "invalid-address";
        }
        self.prog.planned_fail = Some(name);
    }

    fn gen_body(&mut self, f0: &FrameCtx, n: usize, b: &mut Vec<Ins>) {
        let mut f = *f0;
        let mut return_depth_fail = false;
        // a real operation first so that the probe never sits alone in a span; the constant is unique so
        // that no two generated procedures share a MAST root (the assembler's procedure cache is keyed by
        // MAST root: `call.f1` would otherwise run the decorators, i.e. the probes, of its twin)
        let uniq = self.fresh();
        b.push(Ins::Push(uniq));
        b.push(Ins::Drop);
        b.push(self.probe("entry"));
        for _ in 0..n {
            if self.gadget_budget == 0 {
                break;
            }
            self.gadget_budget -= 1;
            if let Some(c) = self.fail_in {
                if c == 0 {
                    self.fail_in = None;
                    self.g_fail(&f, b);
                    if self.prog.planned_fail == Some("return-depth") {
                        return_depth_fail = true;
                    }
                    continue;
                }
                self.fail_in = Some(c - 1);
            }
            let r = self.rng.gen_range(0..100);
            if r < 50 {
                let op = self.rng.gen_range(0..6);
                let mut a = self.valid_addr();
                if op >= 4 && a == A32 - 1 {
                    // the second word would be out of range: that is a planned-failure gadget
                    a = A30 - 1;
                }
                self.g_mem(b, op, a);
            } else if r < 68 && f.locals > 0 {
                self.g_loc(b, f.locals);
            } else if r < 74 {
                b.push(Ins::Sdepth);
                b.push(self.probe("sdepth"));
                self.consume(b, 1);
            } else if r < 80 && f.kernel && f.allow_caller {
                b.push(Ins::Padw);
                b.push(Ins::Caller);
                b.push(self.probe("caller"));
                self.consume(b, 4);
                self.prog.procs[f.me].needs_user_caller = true;
            } else if r < 84 && f.depth.is_some() {
                // drop: below depth 16 zeros (never the caller's hidden elements) must appear
                let k = self.rng.gen_range(1..=3);
                for _ in 0..k {
                    b.push(Ins::Drop);
                    f.depth = f.depth.map(|d| d.saturating_sub(1).max(16));
                }
                b.push(self.probe("drop-pull"));
            } else if !self.g_invoke(&mut f, b) {
                let a = self.valid_addr();
                self.g_mem(b, 2, a);
            }
        }
        if f.called {
            // gadgets are depth-neutral, `drop` never goes below 16: the frame ends at depth 16 when it
            // started there
            if return_depth_fail {
                let k = self.rng.gen_range(1..=2);
                for _ in 0..k {
                    let v = self.fresh();
                    b.push(Ins::Push(v));
                }
            }
        }
    }
}

fn child_class(c: Class) -> Class {
    match c {
        Class::Root => Class::Call,
        _ => Class::Nested,
    }
}

pub fn gen_prog(rng: &mut Rng8) -> Prog {
    let d0 = rng.gen_range(16..=40usize);
    let planned = rng.gen_range(0..100) < 22;
    let n_main = rng.gen_range(5..=16);
    let mut g = Gen {
        rng,
        prog: Prog::default(),
        next_id: 1_000_000,
        next_probe: 0,
        fail_in: None,
        gadget_budget: 60,
    };
    if planned {
        g.fail_in = Some(g.rng.gen_range(0..24));
    }
    g.prog.stack_in = (0..d0).map(|i| 9_000_000 + i as u64).collect();
    let f = FrameCtx { me: usize::MAX, class: Class::Root, kernel: false, locals: 0, depth: Some(d0), inv_depth: 0, allow_caller: false, called: false };
    let mut main = vec![];
    g.gen_body(&f, n_main, &mut main);
    main.push(Ins::Push(0));
    main.push(Ins::Drop);
    main.push(Ins::Probe(FINAL_PROBE, "final"));
    // prelude: learn the MAST roots of the procedures the model needs
    let mut pre = vec![];
    for &h in &g.prog.hashed {
        pre.push(Ins::Procref(h));
        pre.push(Ins::Probe(HASH_PROBE_BASE + h as u32, "hash"));
        pre.push(Ins::Dropw);
    }
    pre.extend(main);
    g.prog.main = pre;
    if g.fail_in.is_some() {
        // the countdown never reached zero: no failure was injected
        g.prog.planned_fail = None;
    }
    g.prog
}

// M-ctx: THE REFERENCE MODEL
// ================================================================================================

#[derive(Clone, Debug, PartialEq, Eq)]
pub struct ProbeExp {
    pub id: u32,
    pub tag: String,
    pub ctx: usize,
    pub fmp: u64,
    /// physical stack, top first: visible stack of the current context, then the `hidden` elements of
    /// the calling contexts
    pub stack: Vec<u64>,
    /// invocation path, e.g. "root>call>syscall"
    pub path: String,
    pub class: String,
    /// number of stack elements of the calling contexts that are hidden from this context
    pub hidden: usize,
}

#[derive(Clone, Debug, PartialEq, Eq)]
pub struct Access {
    pub ctx: usize,
    pub addr: u64,
    pub write: bool,
    pub word: [u64; 4],
}

#[derive(Clone, Debug, PartialEq, Eq)]
pub struct Fail {
    /// base of the violation signature if the real code accepts it
    pub sig: String,
    pub why: String,
}

#[derive(Clone, Debug, Default)]
pub struct ModelOut {
    pub probes: Vec<ProbeExp>,
    pub accesses: Vec<Access>,
    pub fail: Option<Fail>,
    pub final_stack: Vec<u64>,
    pub mem: BTreeMap<(usize, u64), [u64; 4]>,
    pub advice: Vec<u64>,
    /// (op kind, writer relation, address class, path) coverage keys, one per memory/visibility op
    pub ops: Vec<(String, String, String, String)>,
    pub n_ctx: usize,
}

struct CtxM {
    id: usize,
    /// top LAST
    stack: Vec<u64>,
    fmp: u64,
    owner: Option<usize>,
    in_syscall: bool,
    caller_owner: Option<usize>,
    path: String,
    class: Class,
}

struct Model<'a> {
    p: &'a Prog,
    loc_off: u64,
    ctxs: Vec<CtxM>,
    next_ctx: usize,
    adv_pos: usize,
    next_adv: u64,
    last_writer: HashMap<u64, usize>,
    out: ModelOut,
}

type R = Result<(), Fail>;

impl<'a> Model<'a> {
    fn cur(&mut self) -> &mut CtxM {
        self.ctxs.last_mut().unwrap()
    }
    fn pop(&mut self) -> u64 {
        let c = self.cur();
        let v = c.stack.pop().unwrap();
        if c.stack.len() < 16 {
            // the stack never gets shallower than 16: a zero enters at the bottom
            c.stack.insert(0, 0);
        }
        v
    }
    fn push(&mut self, v: u64) {
        self.cur().stack.push(v);
    }
    /// element at position `i` from the top
    fn at(&mut self, i: usize) -> &mut u64 {
        let c = self.cur();
        let n = c.stack.len();
        &mut c.stack[n - 1 - i]
    }
    fn mem_ctx(&mut self) -> usize {
        self.cur().id
    }
    fn read(&mut self, a: u64, op: &str) -> [u64; 4] {
        let c = self.mem_ctx();
        let w = self.out.mem.get(&(c, a)).copied().unwrap_or([0; 4]);
        self.out.accesses.push(Access { ctx: c, addr: a, write: false, word: w });
        self.cover(op, a);
        w
    }
    fn write(&mut self, a: u64, w: [u64; 4], op: &str) {
        let c = self.mem_ctx();
        self.out.mem.insert((c, a), w);
        self.out.accesses.push(Access { ctx: c, addr: a, write: true, word: w });
        self.cover(op, a);
        self.last_writer.insert(a, c);
    }
    fn cover(&mut self, op: &str, a: u64) {
        let c = self.mem_ctx();
        let rel = match self.last_writer.get(&a) {
            None => "no-writer",
            Some(w) if *w == c => "same-ctx",
            Some(_) => "other-ctx",
        };
        let path = self.cur().path.clone();
        self.out.ops.push((op.to_string(), rel.to_string(), addr_class(a).to_string(), path));
    }
    fn check_addr(&self, a: u64, op: &str) -> R {
        if a >= A32 {
            Err(Fail { sig: format!("{op}/invalid-address"), why: format!("{op} at address {a} >= 2^32 ({})", addr_class(a)) })
        } else {
            Ok(())
        }
    }
    fn local_addr(&self, base: u64, i: u16) -> u64 {
        base + self.loc_off + i as u64
    }
    fn next_advice(&mut self) -> u64 {
        if self.adv_pos == self.out.advice.len() {
            self.next_adv += 1;
            let v = self.next_adv;
            self.out.advice.push(v);
        }
        let v = self.out.advice[self.adv_pos];
        self.adv_pos += 1;
        v
    }

    fn run_proc(&mut self, t: usize) -> R {
        let p = self.p;
        let pr = &p.procs[t];
        let base = self.cur().fmp;
        self.cur().fmp = base + pr.locals as u64;
        self.body(&pr.body, base)?;
        self.cur().fmp = base;
        Ok(())
    }

    fn enter_ctx(&mut self, t: usize, syscall: bool, how: &str) -> R {
        let p = self.p;
        if syscall && !p.procs[t].kernel {
            return Err(Fail { sig: "syscall/non-kernel-target".into(), why: "syscall to a procedure which is not in the kernel".into() });
        }
        let (vis, owner, path, class) = {
            let c = self.cur();
            let n = c.stack.len();
            let vis: Vec<u64> = c.stack[n - 16..].to_vec();
            (vis, c.owner, format!("{}>{how}", c.path), c.class)
        };
        let id = if syscall {
            0
        } else {
            self.next_ctx += 1;
            self.next_ctx
        };
        self.out.n_ctx = self.out.n_ctx.max(id + 1);
        self.ctxs.push(CtxM {
            id,
            stack: vis,
            fmp: if syscall { A31 } else { A30 },
            owner: if syscall { None } else { Some(t) },
            in_syscall: syscall,
            caller_owner: if syscall { owner } else { None },
            path,
            class: if syscall { Class::Sys } else { child_class(class) },
        });
        self.run_proc(t)?;
        let done = self.ctxs.pop().unwrap();
        if done.stack.len() != 16 {
            return Err(Fail { sig: format!("{how}/return-depth-not-16"), why: format!("callee returned with stack depth {}", done.stack.len()) });
        }
        let c = self.cur();
        let n = c.stack.len();
        c.stack.truncate(n - 16);
        c.stack.extend(done.stack);
        Ok(())
    }

    fn dyn_target(&mut self, how: &str) -> Result<usize, Fail> {
        let h: Vec<u64> = (0..4).map(|i| *self.at(i)).collect();
        let ok = h[0] >= PH_BASE && (h[0] - PH_BASE) % 4 == 0 && (0..4).all(|j| h[j] == h[0] + j as u64);
        if !ok {
            return Err(Fail { sig: format!("{how}/unknown-target"), why: "dynamic target hash is not a known code block".into() });
        }
        Ok(((h[0] - PH_BASE) / 4) as usize)
    }

    fn body(&mut self, body: &[Ins], base: u64) -> R {
        for ins in body {
            match ins {
                Ins::Push(v) => self.push(*v),
                Ins::Drop => {
                    self.pop();
                }
                Ins::Dropw => {
                    for _ in 0..4 {
                        self.pop();
                    }
                }
                Ins::Padw => {
                    for _ in 0..4 {
                        self.push(0);
                    }
                }
                Ins::Swap(k) => {
                    let a = *self.at(0);
                    let b = *self.at(*k as usize);
                    *self.at(0) = b;
                    *self.at(*k as usize) = a;
                }
                Ins::MemLoad(o) => {
                    let a = match o {
                        Some(a) => *a as u64,
                        None => self.pop(),
                    };
                    self.check_addr(a, "mem_load")?;
                    let w = self.read(a, "mem_load");
                    self.push(w[0]);
                }
                Ins::MemLoadw(o) => {
                    let a = match o {
                        Some(a) => *a as u64,
                        None => self.pop(),
                    };
                    self.check_addr(a, "mem_loadw")?;
                    let w = self.read(a, "mem_loadw");
                    for i in 0..4 {
                        *self.at(i) = w[3 - i];
                    }
                }
                Ins::MemStore(o) => {
                    let a = match o {
                        Some(a) => *a as u64,
                        None => self.pop(),
                    };
                    self.check_addr(a, "mem_store")?;
                    let v = self.pop();
                    let c = self.mem_ctx();
                    let mut w = self.out.mem.get(&(c, a)).copied().unwrap_or([0; 4]);
                    w[0] = v;
                    self.write(a, w, "mem_store");
                }
                Ins::MemStorew(o) => {
                    let a = match o {
                        Some(a) => *a as u64,
                        None => self.pop(),
                    };
                    self.check_addr(a, "mem_storew")?;
                    let w = [*self.at(3), *self.at(2), *self.at(1), *self.at(0)];
                    self.write(a, w, "mem_storew");
                }
                Ins::MemStream => {
                    let a = *self.at(12);
                    self.check_addr(a, "mem_stream")?;
                    if a + 1 >= A32 {
                        return Err(Fail { sig: "mem_stream/addr-wrap".into(), why: format!("mem_stream at {a}: second word address {} >= 2^32", a + 1) });
                    }
                    let d = self.read(a, "mem_stream");
                    let e = self.read(a + 1, "mem_stream");
                    for i in 0..4 {
                        *self.at(i) = e[3 - i];
                        *self.at(4 + i) = d[3 - i];
                    }
                    *self.at(12) = a + 2;
                }
                Ins::AdvPipe => {
                    let a = *self.at(12);
                    self.check_addr(a, "adv_pipe")?;
                    if a + 1 >= A32 {
                        return Err(Fail { sig: "adv_pipe/addr-wrap".into(), why: format!("adv_pipe at {a}: second word address {} >= 2^32", a + 1) });
                    }
                    let mut d = [0; 4];
                    let mut e = [0; 4];
                    for x in d.iter_mut() {
                        *x = self.next_advice();
                    }
                    for x in e.iter_mut() {
                        *x = self.next_advice();
                    }
                    self.write(a, d, "adv_pipe");
                    self.write(a + 1, e, "adv_pipe");
                    for i in 0..4 {
                        *self.at(i) = e[3 - i];
                        *self.at(4 + i) = d[3 - i];
                    }
                    *self.at(12) = a + 2;
                }
                Ins::LocLoad(i) => {
                    let a = self.local_addr(base, *i);
                    let w = self.read(a, "loc_load");
                    self.push(w[0]);
                }
                Ins::LocLoadw(i) => {
                    let a = self.local_addr(base, *i);
                    let w = self.read(a, "loc_loadw");
                    for j in 0..4 {
                        *self.at(j) = w[3 - j];
                    }
                }
                Ins::LocStore(i) => {
                    let a = self.local_addr(base, *i);
                    let v = self.pop();
                    let c = self.mem_ctx();
                    let mut w = self.out.mem.get(&(c, a)).copied().unwrap_or([0; 4]);
                    w[0] = v;
                    self.write(a, w, "loc_store");
                }
                Ins::LocStorew(i) => {
                    let a = self.local_addr(base, *i);
                    let w = [*self.at(3), *self.at(2), *self.at(1), *self.at(0)];
                    self.write(a, w, "loc_storew");
                }
                Ins::LocAddr(i) => {
                    let a = self.local_addr(base, *i);
                    self.cover("locaddr", a);
                    self.push(a);
                }
                Ins::Sdepth => {
                    let d = self.cur().stack.len() as u64;
                    self.cover("sdepth", 0);
                    self.push(d);
                }
                Ins::Caller => {
                    if !self.cur().in_syscall {
                        return Err(Fail { sig: "caller/outside-syscall".into(), why: "caller executed outside of a syscall".into() });
                    }
                    self.cover("caller", 0);
                    match self.cur().caller_owner {
                        Some(o) => {
                            for j in 0..4 {
                                *self.at(j) = CPH_BASE + 4 * o as u64 + j as u64;
                            }
                        }
                        None => {
                            // syscall made from the root context: the docs do not define the value
                            return Err(Fail { sig: "model-gap/caller-from-root".into(), why: "generator bug".into() });
                        }
                    }
                }
                Ins::Procref(t) => {
                    for j in (0..4).rev() {
                        self.push(PH_BASE + 4 * *t as u64 + j as u64);
                    }
                }
                Ins::Exec(t) => {
                    let old = self.cur().path.clone();
                    self.cur().path = format!("{old}>exec");
                    self.run_proc(*t)?;
                    self.cur().path = old;
                }
                Ins::Call(t) => self.enter_ctx(*t, false, "call")?,
                Ins::Syscall(t) => self.enter_ctx(*t, true, "syscall")?,
                Ins::Dyncall => {
                    let t = self.dyn_target("dyncall")?;
                    self.enter_ctx(t, false, "dyncall")?;
                }
                Ins::Dynexec => {
                    let t = self.dyn_target("dynexec")?;
                    let old = self.cur().path.clone();
                    self.cur().path = format!("{old}>dynexec");
                    self.run_proc(t)?;
                    self.cur().path = old;
                }
                Ins::Probe(id, tag) => {
                    let nctx = self.ctxs.len();
                    let hidden: usize = self.ctxs[..nctx - 1].iter().map(|c| c.stack.len() - 16).sum();
                    // physical stack, top first: the visible stack of the current context followed by the
                    // hidden parts (everything below the top 16) of the calling contexts, nearest first
                    let mut tail: Vec<u64> = vec![];
                    for anc in self.ctxs[..nctx - 1].iter().rev() {
                        let n = anc.stack.len();
                        tail.extend(anc.stack[..n - 16].iter().rev());
                    }
                    let c = self.cur();
                    let mut st = c.stack.clone();
                    st.reverse();
                    st.extend(tail);
                    let pe = ProbeExp { id: *id, tag: tag.to_string(), ctx: c.id, fmp: c.fmp, stack: st, path: c.path.clone(), class: c.class.name().to_string(), hidden };
                    self.out.probes.push(pe);
                }
            }
        }
        Ok(())
    }
}

/// Replays the script through M-ctx. `advice` = values to hand out (extended with fresh ids on demand).
pub fn run_model(p: &Prog, loc_off: u64, advice: Vec<u64>) -> ModelOut {
    let mut st = p.stack_in.clone();
    while st.len() < 16 {
        st.push(0);
    }
    st.reverse();
    let mut m = Model {
        p,
        loc_off,
        ctxs: vec![CtxM { id: 0, stack: st, fmp: A30, owner: None, in_syscall: false, caller_owner: None, path: "root".into(), class: Class::Root }],
        next_ctx: 0,
        adv_pos: 0,
        next_adv: 5_000_000,
        last_writer: HashMap::new(),
        out: ModelOut { advice, n_ctx: 1, ..Default::default() },
    };
    // exec inside the model changes `path` only for readability of coverage keys
    let r = m.body(&p.main, A30);
    if let Err(f) = r {
        m.out.fail = Some(f);
    }
    let mut fs = m.ctxs[0].stack.clone();
    fs.reverse();
    m.out.final_stack = fs;
    m.out
}

// PROBE HOST
// ================================================================================================

#[derive(Clone, Debug)]
pub struct ProbeRec {
    pub id: u32,
    pub clk: u32,
    pub ctx: u32,
    pub fmp: u64,
    pub top16: [u64; 16],
    pub state: Vec<u64>,
}

pub struct ProbeHost {
    pub inner: DefaultHost<MemAdviceProvider>,
    pub probes: Vec<ProbeRec>,
    /// (ctx, addr) -> word, dumped at the final probe
    pub final_mem: BTreeMap<(u32, u64), [u64; 4]>,
    pub final_seen: bool,
    pub interest: Vec<u64>,
}

impl Host for ProbeHost {
    fn get_advice<S: ProcessState>(&mut self, process: &S, extractor: AdviceExtractor) -> Result<HostResponse, ExecutionError> {
        self.inner.get_advice(process, extractor)
    }
    fn set_advice<S: ProcessState>(&mut self, process: &S, injector: AdviceInjector) -> Result<HostResponse, ExecutionError> {
        self.inner.set_advice(process, injector)
    }
    fn on_event<S: ProcessState>(&mut self, process: &S, event_id: u32) -> Result<HostResponse, ExecutionError> {
        let mut top16 = [0u64; 16];
        for (i, t) in top16.iter_mut().enumerate() {
            *t = process.get_stack_item(i).as_int();
        }
        let state = process.get_stack_state().iter().map(|f| f.as_int()).collect();
        self.probes.push(ProbeRec { id: event_id, clk: process.clk(), ctx: process.ctx().into(), fmp: process.fmp(), top16, state });
        if event_id == FINAL_PROBE {
            self.final_seen = true;
            let mut ctxs: BTreeSet<u32> = self.probes.iter().map(|p| p.ctx).collect();
            ctxs.insert(0);
            for c in ctxs {
                let mut addrs: BTreeSet<u64> = self.interest.iter().copied().collect();
                for (a, _) in process.get_mem_state(ContextId::from(c)) {
                    addrs.insert(a);
                }
                for a in addrs {
                    if let Some(w) = process.get_mem_value(ContextId::from(c), a as u32) {
                        self.final_mem.insert((c, a), [w[0].as_int(), w[1].as_int(), w[2].as_int(), w[3].as_int()]);
                    }
                }
            }
        }
        Ok(HostResponse::None)
    }
    fn on_trace<S: ProcessState>(&mut self, _process: &S, _trace_id: u32) -> Result<HostResponse, ExecutionError> {
        Ok(HostResponse::None)
    }
    fn on_debug<S: ProcessState>(&mut self, _process: &S, _options: &vm_core::DebugOptions) -> Result<HostResponse, ExecutionError> {
        Ok(HostResponse::None)
    }
}

pub enum RealOutcome {
    Ok(Box<ExecutionTrace>),
    Err(String, String),
    Panic(String, String),
}

impl RealOutcome {
    fn class(&self) -> String {
        match self {
            RealOutcome::Ok(_) => "ok".into(),
            RealOutcome::Err(k, _) => format!("err:{k}"),
            RealOutcome::Panic(s, _) => format!("panic:{s}"),
        }
    }
}

pub struct RealRun {
    pub outcome: RealOutcome,
    pub probes: Vec<ProbeRec>,
    pub final_mem: BTreeMap<(u32, u64), [u64; 4]>,
    pub final_seen: bool,
}

pub fn run_real(case: &Case, prog: &Program, kernel_override: Option<&Program>) -> RealRun {
    let mut interest: Vec<u64> = VALID_ADDRS.to_vec();
    interest.extend((5..12).map(|i| A30 + i));
    interest.extend((4..10).map(|i| A31 + i));
    let mut host = ProbeHost { inner: case.default_host(), probes: vec![], final_mem: BTreeMap::new(), final_seen: false, interest };
    let outcome = if let Some(kp) = kernel_override {
        // run against the kernel of ANOTHER program (kernel-membership check at run time)
        let mut process = Process::new(kp.kernel().clone(), case.stack_inputs(), &mut host, crate::case::bounded_opts());
        match catch(|| process.execute(prog)) {
            Ok(Ok(_)) => RealOutcome::Err("accepted".into(), "execution succeeded".into()),
            Ok(Err(e)) => RealOutcome::Err(err_kind(&e), format!("{e:?}")),
            Err(p) => RealOutcome::Panic(p.site(), format!("{} at {}", p.message, p.location)),
        }
    } else {
        match catch(|| processor::execute(prog, case.stack_inputs(), &mut host, crate::case::bounded_opts())) {
            Ok(Ok(t)) => RealOutcome::Ok(Box::new(t)),
            Ok(Err(e)) => RealOutcome::Err(err_kind(&e), format!("{e:?}")),
            Err(p) => RealOutcome::Panic(p.site(), format!("{} at {}", p.message, p.location)),
        }
    };
    RealRun { outcome, probes: host.probes, final_mem: host.final_mem, final_seen: host.final_seen }
}

// SECOND HISTORY: memory chiplet rows of the main trace
// ================================================================================================

const CHIPLETS: usize = 53;
const MEM_SEL: usize = CHIPLETS + 3; // two operation selectors
const MEM_CTX: usize = MEM_SEL + 2;
const MEM_ADDR: usize = MEM_CTX + 1;
const MEM_CLK: usize = MEM_ADDR + 1;
const MEM_V: usize = MEM_CLK + 1;

#[derive(Clone, Debug)]
pub struct MemRow {
    pub sel: (u64, u64),
    pub ctx: u64,
    pub addr: u64,
    pub clk: u64,
    pub v: [u64; 4],
}

pub fn memory_rows(trace: &ExecutionTrace) -> Vec<MemRow> {
    let main = trace.main_segment();
    let n = main.num_rows();
    let col = |c: usize| main.get_column(c);
    let (s0, s1, s2) = (col(CHIPLETS), col(CHIPLETS + 1), col(CHIPLETS + 2));
    let mut rows = vec![];
    for r in 0..n {
        if s0[r].as_int() == 1 && s1[r].as_int() == 1 && s2[r].as_int() == 0 {
            rows.push(MemRow {
                sel: (col(MEM_SEL)[r].as_int(), col(MEM_SEL + 1)[r].as_int()),
                ctx: col(MEM_CTX)[r].as_int(),
                addr: col(MEM_ADDR)[r].as_int(),
                clk: col(MEM_CLK)[r].as_int(),
                v: [col(MEM_V)[r].as_int(), col(MEM_V + 1)[r].as_int(), col(MEM_V + 2)[r].as_int(), col(MEM_V + 3)[r].as_int()],
            });
        }
    }
    rows
}

/// Model-free check: rows sorted by (ctx, addr, clk); a read returns the previous word or zeros.
pub fn check_memory_rows(rows: &[MemRow]) -> Option<(String, String)> {
    let mut prev: Option<&MemRow> = None;
    for (i, r) in rows.iter().enumerate() {
        let same_cell = prev.map(|p| p.ctx == r.ctx && p.addr == r.addr).unwrap_or(false);
        if let Some(p) = prev {
            let ord = (p.ctx, p.addr, p.clk) <= (r.ctx, r.addr, r.clk);
            if !ord {
                return Some(("memory-rows/not-sorted".into(), format!("row {i}: ({},{},{}) after ({},{},{})", r.ctx, r.addr, r.clk, p.ctx, p.addr, p.clk)));
            }
        }
        if r.addr >= A32 {
            return Some(("memory-rows/address-out-of-range".into(), format!("row {i}: address {}", r.addr)));
        }
        match r.sel {
            (0, 0) => {}
            (1, 0) => {
                // init & read: first access of the cell, zeros
                if same_cell {
                    return Some(("memory-rows/init-read-on-used-cell".into(), format!("row {i}: ctx {} addr {}", r.ctx, r.addr)));
                }
                if r.v != [0; 4] {
                    return Some(("memory-rows/first-read-not-zero".into(), format!("row {i}: ctx {} addr {} reads {:?}", r.ctx, r.addr, r.v)));
                }
            }
            (1, 1) => {
                if !same_cell {
                    return Some(("memory-rows/copy-read-on-fresh-cell".into(), format!("row {i}: ctx {} addr {}", r.ctx, r.addr)));
                }
                if r.v != prev.unwrap().v {
                    return Some((
                        "memory-rows/read-differs-from-previous".into(),
                        format!("row {i}: ctx {} addr {} reads {:?}, previous row holds {:?}", r.ctx, r.addr, r.v, prev.unwrap().v),
                    ));
                }
            }
            s => return Some(("memory-rows/bad-selectors".into(), format!("row {i}: selectors {s:?}"))),
        }
        prev = Some(r);
    }
    None
}

// COMPARISON
// ================================================================================================

fn subst(v: u64, ph: &HashMap<u64, u64>) -> u64 {
    if (v >= PH_BASE && v < PH_BASE + 4096) || v == A32 {
        ph.get(&v).copied().unwrap_or(v)
    } else {
        v
    }
}

fn accepted_sig(f: &Fail) -> String {
    if f.sig.ends_with("addr-wrap") {
        f.sig.clone()
    } else {
        format!("{}-accepted", f.sig)
    }
}

pub struct Checked {
    pub compared_probes: usize,
    pub ok: bool,
}

/// Compares one real run with the model output. Returns the number of probes that matched.
pub fn compare(case: &Case, m: &ModelOut, real: &RealRun, rep: &mut Report, wit: &dyn Fn() -> Value) -> Checked {
    let _ = case;
    // MAST roots learned from the prelude
    let mut ph: HashMap<u64, u64> = HashMap::new();
    for r in &real.probes {
        if r.id >= HASH_PROBE_BASE && r.id < FINAL_PROBE {
            let pidx = (r.id - HASH_PROBE_BASE) as u64;
            for j in 0..4 {
                ph.insert(PH_BASE + 4 * pidx + j, r.top16[j as usize]);
                ph.insert(CPH_BASE + 4 * pidx + j, r.top16[j as usize]);
            }
        }
    }
    let mut ctx_map: HashMap<usize, u32> = HashMap::new();
    let mut ctx_rev: HashMap<u32, usize> = HashMap::new();
    ctx_map.insert(0, 0);
    ctx_rev.insert(0, 0);
    let n = m.probes.len().min(real.probes.len());
    let mut matched = 0;
    let mut clean = true;
    let mut healed = false;
    for i in 0..n {
        let (e, r) = (&m.probes[i], &real.probes[i]);
        if e.id != r.id {
            rep.violation(
                "ctx/probe-order-mismatch",
                format!("probe #{i}: model reached emit.{} ({}), real emit.{}", e.id, e.tag, r.id),
                wit(),
            );
            clean = false;
            break;
        }
        // context identity: injective, root = 0, syscall -> root
        let bound = *ctx_map.entry(e.ctx).or_insert(r.ctx);
        let back = *ctx_rev.entry(r.ctx).or_insert(e.ctx);
        if bound != r.ctx || back != e.ctx {
            let sig = if e.class == "syscall" { "syscall/not-in-root-context" } else { "ctx/context-identity-mismatch" };
            rep.violation(
                sig,
                format!("probe #{i} emit.{} ({}, path {}): model context #{} is bound to real ctx {}, but real ctx is {}", e.id, e.tag, e.path, e.ctx, bound, r.ctx),
                wit(),
            );
            clean = false;
            break;
        }
        if e.fmp != r.fmp {
            rep.violation(
                format!("fmp/mismatch/{}", e.tag),
                format!("probe #{i} emit.{} ({}, path {}): fmp {} expected {}", e.id, e.tag, e.path, r.fmp, e.fmp),
                wit(),
            );
            clean = false;
            break;
        }
        let exp: Vec<u64> = e.stack.iter().map(|v| subst(*v, &ph)).collect();
        // get_stack_state lists the visible stack followed by whatever else is in the overflow table
        let mut mism: Vec<usize> = (0..exp.len()).filter(|&j| r.state.get(j) != Some(&exp[j])).collect();
        for j in 0..16 {
            if r.top16[j] != exp[j] && !mism.contains(&j) {
                mism.push(j);
            }
        }
        if !mism.is_empty() {
            // two isolated, already understood deviations are reported under their own signature and the
            // comparison goes on with the real value (so that the rest of the program is still checked)
            if (e.tag == "mem_stream" || e.tag == "adv_pipe") && mism == [12] && e.stack[12] == A32 && r.top16[12] == 0 {
                rep.violation(
                    format!("{}/next-address-wrap", e.tag),
                    format!("{} at address 2^32-2 leaves a' = 0 on the stack instead of a + 2 = 2^32 (u32 wrap-around)", e.tag),
                    wit(),
                );
                ph.insert(A32, 0);
            } else if e.tag == "caller" && mism.iter().all(|j| *j < 4) && e.stack[0] >= CPH_BASE {
                let how = e.path.rsplit('>').find(|s| *s == "call" || *s == "dyncall").unwrap_or("call");
                rep.violation(
                    format!("caller/wrong-hash-after-{how}"),
                    format!(
                        "caller in a syscall made from a context created by {how} (path {}) returned {:?}, the MAST root of the procedure that owns that context is {:?}",
                        e.path,
                        &r.top16[..4],
                        &exp[..4]
                    ),
                    wit(),
                );
                for j in 0..4 {
                    ph.insert(e.stack[j], r.top16[j]);
                }
            } else {
                let pos = mism[0];
                rep.violation(
                    format!("{}/result-mismatch", e.tag),
                    format!(
                        "probe #{i} emit.{} ({}, path {}, ctx {}): stack position {pos}: real {:?} expected {} (real top16 {:?}; expected {:?})",
                        e.id,
                        e.tag,
                        e.path,
                        r.ctx,
                        r.state.get(pos),
                        exp[pos],
                        r.top16,
                        &exp[..exp.len().min(24)]
                    ),
                    wit(),
                );
                clean = false;
                break;
            }
            healed = true;
        }
        if r.state.len() != exp.len() {
            rep.violation(
                format!("{}/stack-depth-mismatch", e.tag),
                format!("probe #{i} emit.{} ({}, path {}): physical stack depth {} expected {} ({} hidden)", e.id, e.tag, e.path, r.state.len(), exp.len(), e.hidden),
                wit(),
            );
            clean = false;
            break;
        }
        rep.count("hidden_elements_checked", &e.hidden.min(30).to_string());
        matched += 1;
        rep.count("probe_tags", &format!("{}@{}", e.tag, e.class));
    }
    let _ = healed;
    if !clean {
        return Checked { compared_probes: matched, ok: false };
    }
    let next_tag = m.probes.get(real.probes.len()).map(|p| p.tag.clone()).unwrap_or_else(|| "end".into());
    match (&m.fail, &real.outcome) {
        (None, RealOutcome::Ok(trace)) => {
            if real.probes.len() != m.probes.len() {
                rep.violation("ctx/probe-count-mismatch", format!("real {} probes, model {}", real.probes.len(), m.probes.len()), wit());
                return Checked { compared_probes: matched, ok: false };
            }
            let fs: Vec<u64> = m.final_stack.iter().map(|v| subst(*v, &ph)).collect();
            if trace.stack_outputs().stack() != &fs[..] {
                rep.violation(
                    "ctx/final-stack-mismatch",
                    format!("final stack {:?} expected {:?}", trace.stack_outputs().stack(), fs),
                    wit(),
                );
                clean = false;
            }
            // final memory of every context
            if real.final_seen {
                for ((c, a), w) in &m.mem {
                    let rc = match ctx_map.get(c) {
                        Some(rc) => *rc,
                        None => continue, // context never probed (cannot happen: every frame starts with a probe)
                    };
                    let rw = real.final_mem.get(&(rc, *a)).copied().unwrap_or([0; 4]);
                    if rw != *w {
                        rep.violation(
                            "ctx/final-memory-mismatch",
                            format!("ctx {rc} (model #{c}) address {a} ({}): real {:?} expected {:?}", addr_class(*a), rw, w),
                            wit(),
                        );
                        clean = false;
                        break;
                    }
                }
                for ((rc, a), w) in &real.final_mem {
                    let mc = ctx_rev.get(rc).copied();
                    let known = mc.map(|mc| m.mem.contains_key(&(mc, *a))).unwrap_or(false);
                    if !known && *w != [0; 4] {
                        rep.violation(
                            "ctx/unexpected-memory-content",
                            format!("ctx {rc} address {a} holds {:?} but the script never wrote it in that context", w),
                            wit(),
                        );
                        clean = false;
                        break;
                    }
                }
            }
            // third history: time-ordered access list == memory chiplet rows ordered by clk
            let rows = memory_rows(trace);
            if let Some((sig, what)) = check_memory_rows(&rows) {
                rep.violation(sig, what, wit());
                clean = false;
            }
            rep.count_n("memory_rows_checked", "rows", rows.len() as u64);
            let mut by_time: Vec<&MemRow> = rows.iter().collect();
            by_time.sort_by_key(|r| (r.clk, r.addr));
            if by_time.len() != m.accesses.len() {
                rep.violation(
                    "memory-rows/access-count-mismatch",
                    format!("{} memory rows in the trace, {} accesses in the script", by_time.len(), m.accesses.len()),
                    wit(),
                );
                clean = false;
            } else {
                // two accesses of one stream/pipe share the clk and are ordered by address, as in the model
                for (i, (row, acc)) in by_time.iter().zip(m.accesses.iter()).enumerate() {
                    let rc = ctx_map.get(&acc.ctx).copied().unwrap_or(u32::MAX) as u64;
                    let is_write = row.sel == (0, 0);
                    if row.ctx != rc || row.addr != acc.addr || is_write != acc.write || row.v != acc.word {
                        rep.violation(
                            "memory-rows/access-mismatch",
                            format!("access #{i}: trace row (ctx {}, addr {}, write {}, {:?}) vs script (ctx {rc}, addr {}, write {}, {:?})", row.ctx, row.addr, is_write, row.v, acc.addr, acc.write, acc.word),
                            wit(),
                        );
                        clean = false;
                        break;
                    }
                }
            }
        }
        (None, RealOutcome::Err(k, d)) => {
            rep.violation(format!("spurious-failure/{next_tag}/{k}"), format!("the script is valid but execution failed before probe '{next_tag}': {d}"), wit());
            clean = false;
        }
        (_, RealOutcome::Panic(site, d))
            if real.probes.len() < m.probes.len()
                && (next_tag == "mem_stream" || next_tag == "adv_pipe")
                && m.probes.get(real.probes.len()).map(|p| p.stack.get(12) == Some(&A32)).unwrap_or(false) =>
        {
            rep.violation(
                format!("{next_tag}/next-address-wrap/panic"),
                format!("{next_tag} at address 2^32-2: computing a' = a + 2 panicked at {site}: {d}"),
                wit(),
            );
            clean = false;
        }
        (None, RealOutcome::Panic(site, d)) => {
            rep.violation(format!("panic/{next_tag}/{site}"), format!("the script is valid but the processor panicked before probe '{next_tag}': {d}"), wit());
            clean = false;
        }
        (Some(_), RealOutcome::Panic(site, d)) if real.probes.len() < m.probes.len() => {
            rep.violation(format!("panic/{next_tag}/{site}"), format!("the script is valid but the processor panicked before probe '{next_tag}': {d}"), wit());
            clean = false;
        }
        (Some(f), RealOutcome::Ok(_)) => {
            rep.violation(accepted_sig(f), format!("{} — execution must fail but succeeded", f.why), wit());
            clean = false;
        }
        (Some(f), RealOutcome::Err(k, d)) => {
            rep.count("planned_failure_error_kind", &format!("{}:{k}", f.sig));
            if real.probes.len() > m.probes.len() {
                rep.violation(accepted_sig(f), format!("{} — execution continued past the instruction (failed later with {d})", f.why), wit());
                clean = false;
            } else if real.probes.len() < m.probes.len() {
                rep.violation(format!("spurious-failure/{next_tag}/{k}"), format!("execution failed before probe '{next_tag}', earlier than the planned failure ({}): {d}", f.why), wit());
                clean = false;
            } else {
                rep.count("rejected", &f.sig);
            }
        }
        (Some(f), RealOutcome::Panic(site, d)) => {
            rep.violation(format!("{}/panic", f.sig), format!("{} — expected an execution error, the processor panicked at {site}: {d}", f.why), wit());
            clean = false;
        }
    }
    Checked { compared_probes: matched, ok: clean }
}

// EXPECTATION <-> JSON (for replay)
// ================================================================================================

fn model_to_json(m: &ModelOut) -> Value {
    json!({
        "probes": m.probes.iter().map(|p| json!([p.id, p.tag, p.ctx, p.fmp, p.stack, p.path, p.class, p.hidden])).collect::<Vec<_>>(),
        "accesses": m.accesses.iter().map(|a| json!([a.ctx, a.addr, a.write, a.word])).collect::<Vec<_>>(),
        "fail": m.fail.as_ref().map(|f| json!([f.sig, f.why])),
        "final_stack": m.final_stack,
        "mem": m.mem.iter().map(|((c, a), w)| json!([c, a, w])).collect::<Vec<_>>(),
    })
}

fn model_from_json(v: &Value) -> Option<ModelOut> {
    let nums = |x: &Value| -> Vec<u64> { x.as_array().map(|a| a.iter().filter_map(|e| e.as_u64()).collect()).unwrap_or_default() };
    let word = |x: &Value| -> [u64; 4] {
        let n = nums(x);
        [n.first().copied().unwrap_or(0), n.get(1).copied().unwrap_or(0), n.get(2).copied().unwrap_or(0), n.get(3).copied().unwrap_or(0)]
    };
    let mut m = ModelOut::default();
    for p in v.get("probes")?.as_array()? {
        m.probes.push(ProbeExp {
            id: p[0].as_u64()? as u32,
            tag: p[1].as_str()?.to_string(),
            ctx: p[2].as_u64()? as usize,
            fmp: p[3].as_u64()?,
            stack: nums(&p[4]),
            path: p[5].as_str()?.to_string(),
            class: p[6].as_str()?.to_string(),
            hidden: p.get(7).and_then(|x| x.as_u64()).unwrap_or(0) as usize,
        });
    }
    for a in v.get("accesses")?.as_array()? {
        m.accesses.push(Access { ctx: a[0].as_u64()? as usize, addr: a[1].as_u64()?, write: a[2].as_bool()?, word: word(&a[3]) });
    }
    if let Some(f) = v.get("fail") {
        if !f.is_null() {
            m.fail = Some(Fail { sig: f[0].as_str()?.to_string(), why: f[1].as_str()?.to_string() });
        }
    }
    m.final_stack = nums(v.get("final_stack")?);
    for e in v.get("mem")?.as_array()? {
        m.mem.insert((e[0].as_u64()? as usize, e[1].as_u64()?), word(&e[2]));
    }
    Some(m)
}

// ONE GENERATED CASE
// ================================================================================================

fn make_case(p: &Prog, advice: &[u64]) -> Case {
    let (src, ker) = render(p);
    let mut c = Case::new(src).with_stack(&p.stack_in).with_advice(advice);
    c.kernel = ker;
    c
}

fn assemble(case: &Case, rep: &mut Report, planned: Option<&str>) -> Option<Box<Program>> {
    match case.assemble() {
        AsmOutcome::Ok(p) => Some(p),
        AsmOutcome::Err(e) => {
            if e.contains("Kernel can not have duplicated procedures") {
                // two generated kernel procedures happened to have the same MAST root: explicit,
                // deliberate assembler diagnostic; the program is simply not usable
                rep.count("outcome", "asm-rejected:duplicate-kernel-procedures");
                return None;
            }
            rep.count("outcome", "asm-err");
            if planned == Some("caller-outside-syscall") && e.contains("caller") {
                // `caller` outside a kernel module is rejected at assembly time: documented restriction
                rep.count("rejected", "caller/outside-syscall(asm)");
                return None;
            }
            rep.violation(
                "ctx/assembly-rejected",
                format!("a documented-valid program was rejected by the assembler: {}", truncate(&e, 200)),
                json!({"kind": "asm", "case": case.to_json()}),
            );
            None
        }
        AsmOutcome::Panic(pi) => {
            rep.count("outcome", "asm-panic");
            rep.violation(
                format!("ctx/assembly-panic/{}", pi.site()),
                format!("assembler panicked: {} at {}", pi.message, pi.location),
                json!({"kind": "asm", "case": case.to_json()}),
            );
            None
        }
    }
}

fn run_one(rng: &mut Rng8, rep: &mut Report, loc_off: u64, idx: usize) {
    let p = gen_prog(rng);
    let mut m = run_model(&p, loc_off, vec![]);
    if let Some(f) = &m.fail {
        if f.sig.starts_with("model-gap") {
            rep.count("outcome", "generator-gap");
            return;
        }
    }
    // spare advice so that a run that wrongly continues does not die of advice starvation first
    let mut advice = m.advice.clone();
    advice.extend((0..32).map(|i| 6_000_000 + i as u64));
    m.advice = advice.clone();
    let case = make_case(&p, &advice);
    let prog = match assemble(&case, rep, p.planned_fail) {
        Some(x) => x,
        None => return,
    };
    let real = run_real(&case, &prog, None);
    rep.count("real_outcome", &real.outcome.class());
    rep.count("planned", p.planned_fail.unwrap_or("none"));
    rep.count("model_fail", m.fail.as_ref().map(|f| f.sig.as_str()).unwrap_or("none"));
    rep.count("initial_depth", &p.stack_in.len().to_string());
    rep.count("contexts_per_program", &m.n_ctx.min(8).to_string());
    let wit = || json!({"kind": "ctx", "case": case.to_json(), "expect": model_to_json(&m)});
    let res = compare(&case, &m, &real, rep, &wit);
    // coverage: one evaluation per operation whose closing probe was compared
    let _ = res.compared_probes;
    if res.ok {
        for (op, rel, cls, path) in &m.ops {
            rep.eval(&format!("{op}|{rel}|{cls}|{path}"));
            rep.count("ops", op);
            rep.count("op_by_context_class", &format!("{op}@{}", class_of_path(path)));
            rep.count("writer_relation", &format!("{op}:{rel}"));
            rep.count("address_class", &format!("{op}:{cls}"));
        }
        for pe in &m.probes {
            let segs: Vec<&str> = pe.path.split('>').collect();
            if segs.len() <= 4 {
                rep.count("nesting", &pe.path);
            } else {
                rep.count("nesting", &format!("{}>…", segs[..4].join(">")));
            }
        }
    }
    if idx % 101 == 0 {
        rep.sample(json!({"src": truncate(&case.src, 700), "kernel": case.kernel.as_ref().map(|k| truncate(k, 300)), "planned_fail": p.planned_fail, "outcome": real.outcome.class(), "probes": real.probes.len()}));
    }
    if let RealOutcome::Ok(t) = real.outcome {
        if rng.gen_range(0..100) == 0 {
            let mut t = t;
            rep.count("air_monitored", "trace");
            crate::props::c03::monitor_trace(&case, &mut t, rng, 1, 0, rep);
        }
    }
}

fn class_of_path(path: &str) -> &'static str {
    let mut class = Class::Root;
    let mut stack = vec![];
    for seg in path.split('>').skip(1) {
        match seg {
            "call" | "dyncall" => {
                stack.push(class);
                class = child_class(class);
            }
            "syscall" => {
                stack.push(class);
                class = Class::Sys;
            }
            _ => {}
        }
    }
    class.name()
}

// FIXED CASES
// ================================================================================================

/// Measures where local 0 of the first frame lives relative to 2^30 (docs: at 2^30).
fn calibrate_local_offset() -> Option<u64> {
    let case = Case::new("proc.f.1 locaddr.0 end begin exec.f end");
    let prog = match case.assemble() {
        AsmOutcome::Ok(p) => p,
        _ => return None,
    };
    match case.execute(&prog) {
        crate::case::ExecOutcome::Ok(t) => t.stack_outputs().stack().first().map(|v| v.wrapping_sub(A30)),
        _ => None,
    }
}

fn expect_fail(rep: &mut Report, name: &str, sig: &str, case: Case, asm_may_reject: bool) {
    rep.eval(&format!("fixed|{name}"));
    rep.count("fixed", name);
    let wit = json!({"kind": "must-fail", "name": name, "sig": sig, "asm_may_reject": asm_may_reject, "case": case.to_json()});
    let prog = match case.assemble() {
        AsmOutcome::Ok(p) => p,
        AsmOutcome::Err(_) if asm_may_reject => {
            rep.count("rejected", &format!("{sig}(asm)"));
            return;
        }
        AsmOutcome::Err(e) => {
            rep.violation("ctx/assembly-rejected", format!("fixed case {name}: {e}"), wit);
            return;
        }
        AsmOutcome::Panic(p) => {
            rep.violation(format!("ctx/assembly-panic/{}", p.site()), format!("fixed case {name}: {}", p.message), wit);
            return;
        }
    };
    let real = run_real(&case, &prog, None);
    match real.outcome {
        RealOutcome::Ok(t) => rep.violation(
            if sig.ends_with("addr-wrap") { sig.to_string() } else { format!("{sig}-accepted") },
            format!("fixed case {name}: execution must fail but succeeded; final stack {:?}", t.stack_outputs().stack()),
            wit,
        ),
        RealOutcome::Err(k, _) => {
            rep.count("rejected", sig);
            rep.count("planned_failure_error_kind", &format!("{sig}:{k}"));
        }
        RealOutcome::Panic(site, d) => {
            rep.violation(format!("{sig}/panic"), format!("fixed case {name}: processor panicked at {site}: {d}"), wit)
        }
    }
}

/// Fixed witness with an expectation on final stack positions: (pos, Ok(value)) or (pos, Err(other pos)).
fn expect_stack(rep: &mut Report, name: &str, sig: &str, what: &str, case: Case, checks: &[(usize, Result<u64, usize>)]) {
    rep.eval(&format!("fixed|{name}"));
    rep.count("fixed", name);
    let wit = json!({
        "kind": "expect-stack", "name": name, "sig": sig, "what": what, "case": case.to_json(),
        "checks": checks.iter().map(|(p, c)| match c { Ok(v) => json!([p, "eq", v]), Err(q) => json!([p, "same-as", q]) }).collect::<Vec<_>>(),
    });
    let prog = match case.assemble() {
        AsmOutcome::Ok(p) => p,
        _ => {
            rep.inconclusive(format!("fixed-case-did-not-assemble:{name}"));
            return;
        }
    };
    let real = run_real(&case, &prog, None);
    match real.outcome {
        RealOutcome::Ok(t) => {
            let st = t.stack_outputs().stack();
            for (p, c) in checks {
                let want = match c {
                    Ok(v) => *v,
                    Err(q) => st[*q],
                };
                if st[*p] != want {
                    rep.violation(sig, format!("{what}: final stack position {p} is {} expected {want}; final stack {:?}", st[*p], &st[..16]), wit);
                    return;
                }
            }
        }
        RealOutcome::Err(k, d) => rep.violation(format!("spurious-failure/{name}/{k}"), format!("fixed case {name} failed: {d}"), wit),
        RealOutcome::Panic(site, d) => rep.violation(format!("{sig}/panic"), format!("fixed case {name}: processor panicked at {site}: {d}"), wit),
    }
}

fn fixed_cases(rep: &mut Report) {
    let top = A32 - 1;
    // minimal witnesses of the second-word rule and of each invalid-address class per op
    expect_fail(rep, "mem_stream@2^32-1", "mem_stream/addr-wrap", Case::new(format!("begin push.11.12.13.14 mem_storew.0 dropw push.{top} padw padw padw mem_stream end")), false);
    expect_fail(
        rep,
        "adv_pipe@2^32-1",
        "adv_pipe/addr-wrap",
        Case::new(format!("begin push.{top} padw padw padw adv_pipe end")).with_advice(&[1, 2, 3, 4, 5, 6, 7, 8]),
        false,
    );
    for a in INVALID_ADDRS {
        for (op, sig, code) in [
            ("mem_load", "mem_load/invalid-address", format!("begin push.{a} mem_load end")),
            ("mem_loadw", "mem_loadw/invalid-address", format!("begin padw push.{a} mem_loadw end")),
            ("mem_store", "mem_store/invalid-address", format!("begin push.7 push.{a} mem_store end")),
            ("mem_storew", "mem_storew/invalid-address", format!("begin push.1.2.3.4 push.{a} mem_storew end")),
            ("mem_stream", "mem_stream/invalid-address", format!("begin push.{a} padw padw padw mem_stream end")),
            ("adv_pipe", "adv_pipe/invalid-address", format!("begin push.{a} padw padw padw adv_pipe end")),
        ] {
            let c = Case::new(code).with_advice(&[1, 2, 3, 4, 5, 6, 7, 8]);
            expect_fail(rep, &format!("{op}@{}", addr_class(a)), sig, c, false);
        }
    }
    // last valid position of the two-word instructions: a' = a + 2 = 2^32
    expect_stack(
        rep,
        "mem_stream@2^32-2",
        "mem_stream/next-address-wrap",
        "mem_stream at address 2^32-2 must leave a' = a + 2 = 2^32",
        Case::new(format!("begin push.{} padw padw padw mem_stream end", A32 - 2)),
        &[(12, Ok(A32))],
    );
    expect_stack(
        rep,
        "adv_pipe@2^32-2",
        "adv_pipe/next-address-wrap",
        "adv_pipe at address 2^32-2 must leave a' = a + 2 = 2^32",
        Case::new(format!("begin push.{} padw padw padw adv_pipe end", A32 - 2)).with_advice(&[1, 2, 3, 4, 5, 6, 7, 8]),
        &[(12, Ok(A32))],
    );
    // caller = MAST root of the procedure whose context made the syscall (call and dyncall)
    for (how, code) in [("call", "proc.f dropw syscall.k end begin padw call.f procref.f end"), ("dyncall", "proc.f dropw syscall.k end begin procref.f dyncall procref.f end")] {
        let mut c = Case::new(code);
        c.kernel = Some("export.k caller end".into());
        expect_stack(
            rep,
            &format!("caller-after-{how}"),
            &format!("caller/wrong-hash-after-{how}"),
            &format!("caller inside a syscall made by a procedure invoked with {how} must yield that procedure's MAST root (positions 4..7) = procref (positions 0..3)"),
            c,
            &[(4, Err(0)), (5, Err(1)), (6, Err(2)), (7, Err(3))],
        );
    }
    // immediate form with an address >= 2^32: must be rejected (at assembly or at run time)
    expect_fail(rep, "mem_load.imm@2^32", "mem_load/invalid-address", Case::new(format!("begin mem_load.{A32} end")), true);
    expect_fail(rep, "mem_store.imm@2^32", "mem_store/invalid-address", Case::new(format!("begin push.1 mem_store.{A32} end")), true);
    // return depth
    expect_fail(rep, "call-return-17", "call/return-depth-not-16", Case::new("proc.f push.1 end begin call.f end"), false);
    {
        let mut c = Case::new("begin syscall.k end");
        c.kernel = Some("export.k push.1 end".into());
        expect_fail(rep, "syscall-return-17", "syscall/return-depth-not-16", c, false);
    }
    expect_fail(rep, "dyncall-return-17", "dyncall/return-depth-not-16", Case::new("proc.f dropw push.1 end begin procref.f dyncall end"), false);
    // syscall to a procedure that is not in the kernel
    expect_fail(rep, "syscall-to-user-proc", "syscall/non-kernel-target", Case::new("proc.f push.1 drop end begin syscall.f end"), true);
    {
        let mut c = Case::new("proc.f push.1 drop end begin syscall.f end");
        c.kernel = Some("export.k push.1 drop end".into());
        expect_fail(rep, "syscall-to-user-proc-with-kernel", "syscall/non-kernel-target", c, true);
    }
    // caller outside a syscall
    expect_fail(rep, "caller-in-main", "caller/outside-syscall", Case::new("begin padw caller end"), true);
    expect_fail(rep, "caller-in-call", "caller/outside-syscall", Case::new("proc.f padw caller dropw end begin call.f end"), true);
    // unknown dynamic targets
    expect_fail(rep, "dyncall-unknown", "dyncall/unknown-target", Case::new("begin push.1.2.3.4 dyncall end"), false);
    expect_fail(rep, "dynexec-unknown", "dynexec/unknown-target", Case::new("begin push.1.2.3.4 dynexec end"), false);

    // kernel membership at run time: program compiled against kernel {k0,k1}, run against kernel {k0}
    {
        rep.eval("fixed|kernel-mismatch");
        rep.count("fixed", "kernel-mismatch");
        let mut c = Case::new("proc.u syscall.k1 end begin call.u end");
        c.kernel = Some("export.k0 push.1 drop end export.k1 push.2 drop end".into());
        let mut c2 = Case::new("begin syscall.k0 end");
        c2.kernel = Some("export.k0 push.1 drop end".into());
        if let (AsmOutcome::Ok(p1), AsmOutcome::Ok(p2)) = (c.assemble(), c2.assemble()) {
            let r = run_real(&c, &p1, Some(&p2));
            match r.outcome {
                RealOutcome::Err(k, _) if k == "accepted" => rep.violation(
                    "syscall/non-kernel-target-accepted",
                    "a syscall to a procedure missing from the process kernel was executed",
                    json!({"kind": "kernel-mismatch", "case": c.to_json(), "case_b": c2.to_json()}),
                ),
                RealOutcome::Err(k, _) => {
                    rep.count("rejected", "syscall/non-kernel-target(runtime)");
                    rep.count("planned_failure_error_kind", &format!("syscall/non-kernel-target:{k}"));
                }
                RealOutcome::Panic(site, d) => rep.violation(
                    "syscall/non-kernel-target/panic",
                    format!("panicked at {site}: {d}"),
                    json!({"kind": "kernel-mismatch", "case": c.to_json(), "case_b": c2.to_json()}),
                ),
                RealOutcome::Ok(_) => {}
            }
        } else {
            rep.inconclusive("kernel-mismatch-case-did-not-assemble");
        }
    }

    // deep caller stack invisible to the callee and intact afterwards; locals of live frames distinct;
    // documented example of execution_contexts.md (addresses of first locals)
    {
        rep.eval("fixed|docs-example");
        rep.count("fixed", "docs-example");
        let mut c = Case::new(
            "proc.bar.1 locaddr.0 swap.2 drop syscall.baz end
             proc.foo.3 locaddr.0 swap.3 drop call.bar exec.bar end
             begin call.foo end",
        );
        c.kernel = Some("export.baz.2 locaddr.0 swap.4 drop end".into());
        if let AsmOutcome::Ok(p) = c.assemble() {
            if let crate::case::ExecOutcome::Ok(t) = c.execute(&p) {
                rep.note("docs_example_final_stack", json!(t.stack_outputs().stack()[..8].to_vec()));
            }
        }
    }
}

pub fn run(cfg: &Cfg) -> Report {
    let loc_off = match calibrate_local_offset() {
        Some(o) if o < 4 => o,
        _ => {
            let mut r = Report::new();
            r.inconclusive("local-offset-calibration-failed");
            return r;
        }
    };
    let shards = 64;
    let per = cfg.n(5000, 60000);
    let mut reports = par_map(shards, |sh| {
        let mut rng = rng_for(cfg.seed, "C07", sh as u64);
        let mut rep = Report::new();
        for i in 0..per {
            run_one(&mut rng, &mut rep, loc_off, i);
        }
        rep
    });
    let mut fx = Report::new();
    fixed_cases(&mut fx);
    reports.push(fx);
    let mut rep = merge_all(reports);
    rep.note(
        "local0_offset",
        json!({"observed_address_of_first_local_minus_2^30": loc_off, "docs": "execution_contexts.md: 'The address of the first procedure local in foo (e.g., accessed via loc_load.0) is 2^30'", "handling": "calibrated constant of the model, not a violation of the property statement"}),
    );
    for op in ["mem_load", "mem_loadw", "mem_store", "mem_storew", "mem_stream", "adv_pipe", "loc_load", "loc_loadw", "loc_store", "loc_storew", "locaddr"] {
        for class in ["root", "call", "nested-call", "syscall"] {
            rep.floor(rep.get_count("op_by_context_class", &format!("{op}@{class}")) >= 3, &format!("{op}-in-{class}"));
        }
    }
    for sig in [
        "mem_load/invalid-address",
        "mem_loadw/invalid-address",
        "mem_store/invalid-address",
        "mem_storew/invalid-address",
        "mem_stream/invalid-address",
        "adv_pipe/invalid-address",
        "call/return-depth-not-16",
        "syscall/return-depth-not-16",
        "dyncall/return-depth-not-16",
    ] {
        rep.floor(rep.get_count("rejected", sig) >= 3, &format!("rejected-{sig}"));
    }
    rep.floor(rep.get_count("real_outcome", "ok") >= 100, "at-least-100-successful-executions");
    rep.floor(rep.get_count("air_monitored", "trace") >= 1, "air-monitor-sampled");
    for n in ["root>call", "root>call>call", "root>call>syscall", "root>syscall", "root>dyncall", "root>dynexec"] {
        rep.floor(rep.get_count("nesting", n) >= 3, &format!("nesting-{n}"));
    }
    rep
}

pub fn replay(v: &Value, rep: &mut Report) {
    let case = match v.get("case").and_then(Case::from_json) {
        Some(c) => c,
        None => return,
    };
    match v.get("kind").and_then(|k| k.as_str()).unwrap_or("") {
        "ctx" => {
            let m = match v.get("expect").and_then(model_from_json) {
                Some(m) => m,
                None => return,
            };
            if let Some(prog) = assemble(&case, rep, None) {
                rep.eval("replay-ctx");
                let real = run_real(&case, &prog, None);
                let wit = || json!({"kind": "ctx", "case": case.to_json()});
                compare(&case, &m, &real, rep, &wit);
            }
        }
        "expect-stack" => {
            let name = v.get("name").and_then(|s| s.as_str()).unwrap_or("replay").to_string();
            let sig = v.get("sig").and_then(|s| s.as_str()).unwrap_or("expect-stack").to_string();
            let what = v.get("what").and_then(|s| s.as_str()).unwrap_or("").to_string();
            let mut checks = vec![];
            for c in v.get("checks").and_then(|c| c.as_array()).cloned().unwrap_or_default() {
                let p = c[0].as_u64().unwrap_or(0) as usize;
                if c[1].as_str() == Some("eq") {
                    checks.push((p, Ok(c[2].as_u64().unwrap_or(0))));
                } else {
                    checks.push((p, Err(c[2].as_u64().unwrap_or(0) as usize)));
                }
            }
            expect_stack(rep, &name, &sig, &what, case, &checks);
        }
        "must-fail" => {
            let name = v.get("name").and_then(|s| s.as_str()).unwrap_or("replay").to_string();
            let sig = v.get("sig").and_then(|s| s.as_str()).unwrap_or("must-fail").to_string();
            let may = v.get("asm_may_reject").and_then(|b| b.as_bool()).unwrap_or(false);
            expect_fail(rep, &name, &sig, case, may);
        }
        "kernel-mismatch" => {
            if let Some(c2) = v.get("case_b").and_then(Case::from_json) {
                if let (AsmOutcome::Ok(p1), AsmOutcome::Ok(p2)) = (case.assemble(), c2.assemble()) {
                    rep.eval("replay-kernel-mismatch");
                    if let RealOutcome::Err(k, _) = run_real(&case, &p1, Some(&p2)).outcome {
                        if k == "accepted" {
                            rep.violation("syscall/non-kernel-target-accepted", "accepted", json!({}));
                        }
                    }
                }
            }
        }
        "asm" => {
            rep.eval("replay-asm");
            let _ = assemble(&case, rep, None);
        }
        "case" => {
            let mut rng = rng_for(0, "C07-replay", 0);
            if let AsmOutcome::Ok(prog) = case.assemble() {
                if let crate::case::ExecOutcome::Ok(mut t) = case.execute(&prog) {
                    rep.eval("replay-air");
                    crate::props::c03::monitor_trace(&case, &mut t, &mut rng, 1, 0, rep);
                }
            }
        }
        _ => {}
    }
    let _ = felts(&[]);
}
