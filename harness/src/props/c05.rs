//! C05 — instruction semantics match the instruction reference on every stack state.
//!
//! Differential runtime monitor: the REAL pipeline (`Case::assemble` + `Case::execute`, final stack
//! from `ExecutionTrace::stack_outputs()`) against the documentation-derived reference interpreter
//! `models::isa` (M-isa), compared three-valued:
//!
//! * `Defined(stack)`  — the real final stack must be identical at every position (incl. > 15),
//! * `Fail(kind)`      — the real code must fail with the documented error family (and error code),
//! * `Undefined`       — the real code must not panic.
//!
//! Workload: (a) single-instruction programs with a boundary operand grid in every operand position
//! over initial depths 0..40 with unique filler elements, every immediate / textual form;
//! (b) model-guided random instruction sequences (2..40 instructions) that mostly satisfy the
//! documented preconditions and violate them at a configurable rate.

use crate::case::{err_kind, AsmOutcome, Case, ExecOutcome};
use crate::models::isa::{self, FailKind, Machine, Op, Parsed, ProgramText, Step, Verdict, P};
use crate::report::{merge_all, Cfg, Meta, Report};
use crate::util::{biased_felt, biased_u32, par_map, rng_for, PanicInfo, Rng8};
use processor::ExecutionError;
use rand::seq::SliceRandom;
use rand::Rng;
use serde_json::{json, Value};
use std::collections::BTreeSet;

pub fn meta() -> Meta {
    Meta {
        level: "exploration",
        rule: "each evaluation = one generated program (source text + initial stack) run through the real assembler+processor and through the docs-derived reference interpreter M-isa, compared three-valued (Defined: final stacks identical at every position incl. overflow; Fail: documented error family and error code; Undefined: no panic). Phase `single`: one instruction, boundary grid {0,1,2,2^16-1,2^16,2^31,2^32-1,2^32,2^32+1,2^63,p-2,p-1,rand u32,rand felt} in every operand position and for every immediate, all textual immediate forms, initial depth 0..40 with unique fillers. Phase `seq`: model-guided sequences of 2..40 instructions with deliberate precondition violations. distinct = distinct (phase, instruction kind, immediate form, operand-class tuple, depth class, outcome class) for single cases and (length bucket, depth class, outcome class, last instruction kind) for sequences".into(),
        assumptions: vec![
            "M-isa is hand-written from docs/src/user_docs/assembly/*.md; where the docs say 'undefined' or are silent the oracle only requires no panic".into(),
            "the extension field of ext2inv/ext2div (modulus q not defined in the user docs) is F_p[x]/(x^2-x+2)".into(),
            "immediates of non-push instructions are only generated in decimal form (the docs define no other form for them)".into(),
            "clk is excluded (no cycle model); advice/memory/crypto/flow-control instructions are out of scope".into(),
        ],
    }
}

// REAL SIDE
// ================================================================================================

pub enum Real {
    AsmErr(String),
    AsmPanic(PanicInfo),
    ExecErr(ExecutionError),
    ExecPanic(PanicInfo),
    Ok(Vec<u64>),
}

impl Real {
    pub fn class(&self) -> String {
        match self {
            Real::AsmErr(_) => "asm-err".into(),
            Real::AsmPanic(_) => "asm-panic".into(),
            Real::ExecErr(e) => format!("exec-err:{}", err_kind(e)),
            Real::ExecPanic(_) => "exec-panic".into(),
            Real::Ok(_) => "ok".into(),
        }
    }
}

pub fn make_case(prog: &ProgramText, stack: &[u64]) -> Case {
    Case::new(prog.to_source()).with_stack(stack)
}

/// Runs the real pipeline. If `side` is given, the T-air side monitor is run on a successful trace.
pub fn run_real(case: &Case, side: Option<(&mut Rng8, &mut Report)>) -> Real {
    let prog = match case.assemble() {
        AsmOutcome::Ok(p) => p,
        AsmOutcome::Err(e) => return Real::AsmErr(e),
        AsmOutcome::Panic(p) => return Real::AsmPanic(p),
    };
    match case.execute(&prog) {
        ExecOutcome::Ok(mut t) => {
            let out = t.stack_outputs().stack().to_vec();
            if let Some((rng, rep)) = side {
                rep.count("side_monitor", "t-air-checked");
                crate::props::c03::monitor_trace(case, &mut t, rng, 1, 0, rep);
            }
            Real::Ok(out)
        }
        ExecOutcome::Err(e) => Real::ExecErr(e),
        ExecOutcome::Panic(p) => Real::ExecPanic(p),
    }
}

// COMPARISON
// ================================================================================================

/// A deviation: signature suffix (the culprit instruction kind is prepended later) + description.
#[derive(Clone, Debug)]
pub struct Deviation {
    pub suffix: String,
    pub what: String,
    /// panic on an input the docs leave undefined
    pub undefined_panic: bool,
}

fn dev(suffix: impl Into<String>, what: impl Into<String>) -> Option<Deviation> {
    Some(Deviation { suffix: suffix.into(), what: what.into(), undefined_panic: false })
}

/// Three-valued comparison of the reference verdict with the real outcome.
pub fn compare(prog: &ProgramText, verdict: &Verdict, real: &Real) -> Option<Deviation> {
    let undefined = matches!(verdict, Verdict::Undefined { .. });
    match real {
        Real::AsmPanic(p) => {
            return Some(Deviation {
                suffix: format!("asm-panic/{}", p.site()),
                what: format!("assembler panicked: {} at {} (reference: {})", p.message, p.location, verdict.class()),
                undefined_panic: undefined,
            })
        }
        Real::ExecPanic(p) => {
            return Some(Deviation {
                suffix: format!("exec-panic/{}", p.site()),
                what: format!("processor panicked: {} at {} (reference: {})", p.message, p.location, verdict.class()),
                undefined_panic: undefined,
            })
        }
        _ => {}
    }
    match (verdict, real) {
        (Verdict::Undefined { .. }, _) => None,
        (Verdict::Defined(exp), Real::Ok(got)) => {
            if exp == got {
                return None;
            }
            if exp.len() != got.len() {
                return dev(
                    "depth-mismatch",
                    format!("final depth: reference {} real {}; reference {:?} real {:?}", exp.len(), got.len(), exp, got),
                );
            }
            let i = (0..exp.len()).find(|&i| exp[i] != got[i]).unwrap();
            dev(
                if i < 16 { "result-mismatch" } else { "deep-result-mismatch" },
                format!("final stack differs at position {i}: reference {} real {}; reference {:?} real {:?}", exp[i], got[i], exp, got),
            )
        }
        (Verdict::Defined(_), Real::AsmErr(e)) => dev("rejected-where-doc-defined", format!("docs define the program but assembly fails: {e}")),
        (Verdict::Defined(_), Real::ExecErr(e)) => {
            dev(format!("fails-where-doc-defined/{}", err_kind(e)), format!("docs define the result but execution fails: {e:?}"))
        }
        (Verdict::Fail { kind, .. }, Real::Ok(got)) => dev(
            format!("succeeds-where-doc-fails/{}", kind.class()),
            format!("docs require failure {:?} but execution succeeds with {:?}", kind, got),
        ),
        (Verdict::Fail { kind, .. }, Real::AsmErr(e)) => match kind {
            FailKind::Asm(_) | FailKind::DivideByZero { imm: true } => None,
            // a zero immediate divisor anywhere may legitimately be reported by the assembler
            _ if isa::has_zero_divisor_imm(prog) && e.contains("division by zero") => None,
            _ => dev(
                format!("rejected-at-assembly/{}", kind.class()),
                format!("docs require run-time failure {:?} but assembly fails: {e}", kind),
            ),
        },
        (Verdict::Fail { kind, .. }, Real::ExecErr(e)) => {
            let fam = |ok: bool| {
                if ok {
                    None
                } else {
                    dev(
                        format!("wrong-error/{}-got-{}", kind.class(), err_kind(e)),
                        format!("docs require failure {:?}, real error is {e:?}", kind),
                    )
                }
            };
            match kind {
                FailKind::Asm(w) => dev(
                    format!("assembles-where-doc-invalid/{w}"),
                    format!("docs make the parameter invalid ({w}) but the program assembles (then fails with {e:?})"),
                ),
                FailKind::DivideByZero { .. } => fam(matches!(e, ExecutionError::DivideByZero(_))),
                FailKind::NotBinary => fam(matches!(e, ExecutionError::NotBinaryValue(_))),
                FailKind::LogArgumentZero => fam(matches!(e, ExecutionError::LogArgumentZero(_))),
                FailKind::Pow2Range => None,
                FailKind::NotU32 { code } => match e {
                    ExecutionError::NotU32Value(_, c) => match code {
                        Some(code) if c.as_int() != *code as u64 => dev(
                            "wrong-err-code",
                            format!("docs require error code {code}, real error is {e:?}"),
                        ),
                        _ => None,
                    },
                    _ => fam(false),
                },
                FailKind::Assertion { code } => match e {
                    ExecutionError::FailedAssertion { err_code, .. } => {
                        if err_code == code {
                            None
                        } else {
                            dev("wrong-err-code", format!("docs require error code {code}, real error is {e:?}"))
                        }
                    }
                    _ => fam(false),
                },
            }
        }
        (_, Real::AsmPanic(_)) | (_, Real::ExecPanic(_)) => None,
    }
}

fn depth_class(d: usize) -> &'static str {
    match d {
        0 => "0",
        1..=15 => "1-15",
        16 => "16",
        _ => "17-40",
    }
}

fn val_class(v: u64) -> &'static str {
    match v {
        0 => "0",
        1 => "1",
        2..=31 => "2..31",
        32..=63 => "32..63",
        64..=0xFFFF => "<2^16",
        0x1_0000..=0x7FFF_FFFF => "<2^31",
        0x8000_0000..=0xFFFF_FFFE => "<2^32-1",
        0xFFFF_FFFF => "2^32-1",
        0x1_0000_0000 => "2^32",
        0x1_0000_0001..=0x7FFF_FFFF_FFFF_FFFF => "<2^63",
        _ => {
            if v >= P - 2 {
                "p-2..p-1"
            } else {
                ">=2^63"
            }
        }
    }
}

/// Result of one oracle evaluation.
pub struct Checked {
    pub verdict: Verdict,
    pub real_class: String,
    pub violated: bool,
}

/// Finds the first instruction at which real and reference diverge, and a minimal witness.
fn attribute(prog: &ProgramText, stack: &[u64], full: &Deviation) -> (String, Deviation, ProgramText, Vec<u64>) {
    let n = prog.tokens.len();
    if let Verdict::Fail { at: None, .. } | Verdict::Undefined { at: None, .. } = isa::run_program(prog, stack) {
        // the reference already stops at a constant declaration
        let minimal = ProgramText { consts: prog.consts.clone(), tokens: vec!["push.1".into()] };
        let v = isa::run_program(&minimal, &[]);
        let r = run_real(&make_case(&minimal, &[]), None);
        return match compare(&minimal, &v, &r) {
            Some(d) if d.suffix == full.suffix => ("const-decl".into(), d, minimal, vec![]),
            _ => ("const-decl".into(), full.clone(), prog.clone(), stack.to_vec()),
        };
    }
    for k in 1..=n {
        let pk = prog.prefix(k);
        let v = isa::run_program(&pk, stack);
        let r = run_real(&make_case(&pk, stack), None);
        if let Some(d) = compare(&pk, &v, &r) {
            let culprit = isa::token_kind(&pk.tokens[k - 1]);
            // try to reduce to the single instruction on the reference's pre-state
            if k > 1 {
                if let Verdict::Defined(pre) = isa::run_program(&prog.prefix(k - 1), stack) {
                    let single = ProgramText { consts: prog.consts.clone(), tokens: vec![pk.tokens[k - 1].clone()] };
                    let v1 = isa::run_program(&single, &pre);
                    let r1 = run_real(&make_case(&single, &pre), None);
                    if let Some(d1) = compare(&single, &v1, &r1) {
                        if d1.suffix == d.suffix {
                            return (culprit, d1, single, pre);
                        }
                    }
                }
            }
            return (culprit, d, pk, stack.to_vec());
        }
    }
    // only the complete program deviates (should not happen): blame the last instruction
    let culprit = prog.tokens.last().map(|t| isa::token_kind(t)).unwrap_or_else(|| "empty".into());
    (culprit, full.clone(), prog.clone(), stack.to_vec())
}

/// One oracle evaluation of (program, initial stack); reports violations with attribution.
pub fn check_program(
    prog: &ProgramText,
    stack: &[u64],
    phase: &str,
    rep: &mut Report,
    side: Option<&mut Rng8>,
    force_side: bool,
) -> Checked {
    let verdict = isa::run_program(prog, stack);
    let case = make_case(prog, stack);
    let undefined = matches!(verdict, Verdict::Undefined { .. });
    // T-air side monitor: a sample of all successful executions, and a denser sample of the
    // executions that succeed on inputs the docs leave undefined (the trace must still be valid)
    let mut side = side;
    let do_side = match side.as_mut() {
        Some(rng) => force_side || rng.gen_ratio(1, if undefined { 8 } else { 256 }),
        None => false,
    };
    let real = match side {
        Some(rng) if do_side => {
            let mut side_rep = Report::new();
            let r = run_real(&case, Some((rng, &mut side_rep)));
            let culprit = match &verdict {
                Verdict::Undefined { at: Some(i), .. } => prog.tokens.get(*i).map(|t| isa::token_kind(t)).unwrap_or_default(),
                _ => String::new(),
            };
            for v in std::mem::take(&mut side_rep.violations) {
                if undefined {
                    // inputs the docs call undefined are outside C05 (only "no panic" is required):
                    // an invalid trace is evidence, not a violation
                    let vm_op = v.sig.split('@').nth(1).unwrap_or(&v.sig).to_string();
                    rep.count("undefined_input_invalid_trace", &vm_op);
                    rep.count("undefined_input_invalid_trace_by_instruction", &format!("{culprit} -> {vm_op}"));
                    continue;
                }
                rep.violation(
                    format!("invalid-trace/{}", v.sig),
                    format!(
                        "[{phase}] `{}` on stack (top first) {:?} executes successfully but its trace violates the AIR: {}",
                        prog.to_source().replace('\n', " "),
                        stack,
                        v.what
                    ),
                    json!({"kind": "case", "case": case.to_json(), "phase": phase, "side_monitor": true}),
                );
            }
            side_rep.violation_counts.clear();
            rep.merge(side_rep);
            r
        }
        _ => run_real(&case, None),
    };
    let real_class = real.class();
    rep.count("outcome", &format!("{} -> {}", verdict.class().split(':').next().unwrap_or(""), real_class));
    let mut violated = false;
    if let Some(d) = compare(prog, &verdict, &real) {
        violated = true;
        let (culprit, d, wprog, wstack) = attribute(prog, stack, &d);
        let sig = if d.undefined_panic {
            // one finding per panic site, whichever instruction reaches it
            format!("undefined-input-panic/{}", d.suffix.splitn(2, '/').nth(1).unwrap_or(&d.suffix))
        } else {
            format!("{culprit}/{}", d.suffix)
        };
        let wcase = make_case(&wprog, &wstack);
        rep.violation(
            sig,
            format!("[{}] `{}` on stack (top first) {:?}: {}", phase, wprog.to_source().replace('\n', " "), wstack, d.what),
            json!({"kind": "case", "case": wcase.to_json(), "phase": phase}),
        );
    }
    Checked { verdict, real_class, violated }
}

/// Coverage bookkeeping for a non-violating evaluation.
fn record(prog: &ProgramText, stack: &[u64], chk: &Checked, phase: &str, rep: &mut Report) {
    rep.count("phase", phase);
    rep.count(&format!("initial_depth_{phase}"), depth_class(stack.len()));
    match &chk.verdict {
        Verdict::Defined(fin) => {
            for t in &prog.tokens {
                rep.count("kind_ok", &isa::token_kind(t));
                rep.count("imm_form", &format!("{}:{}", Op::from_name(t.split('.').next().unwrap_or("")).map(|o| if o == Op::Push { "push" } else { "op" }).unwrap_or("?"), isa::param_form(t)));
            }
            for c in &prog.consts {
                let e = c.split_once('=').map(|x| x.1).unwrap_or("");
                let f = if e.starts_with("0x") {
                    "hex"
                } else if e.bytes().all(|b| b.is_ascii_digit()) {
                    "dec"
                } else {
                    "expr"
                };
                rep.count("const_decl_form", f);
            }
            rep.count("final_depth", if fin.len() > 16 { ">16" } else { "16" });
            if fin.len() > 16 || stack.len() > 16 {
                rep.count("deep_checked", phase);
            }
        }
        Verdict::Fail { kind, at } => {
            let k = at.and_then(|i| prog.tokens.get(i)).map(|t| isa::token_kind(t)).unwrap_or_else(|| "const-decl".into());
            rep.count("kind_fail", &format!("{k} | {} -> {}", kind.class(), chk.real_class));
            rep.count("kind_fail_class", &format!("{k} | {}", kind.class()));
        }
        Verdict::Undefined { why, at } => {
            let k = at.and_then(|i| prog.tokens.get(i)).map(|t| isa::token_kind(t)).unwrap_or_else(|| "const-decl".into());
            rep.count("kind_undefined", &format!("{k} | {why} -> {}", chk.real_class));
            rep.count("undefined_real_outcome", &chk.real_class);
        }
    }
}

// INSTRUCTION SPECS (generator metadata; semantics live in the model)
// ================================================================================================

/// Operand kinds (what a "good" operand looks like for the docs' preconditions).
#[derive(Clone, Copy, Debug, PartialEq, Eq)]
pub enum K {
    /// any field element
    F,
    /// unique tagged filler (stack manipulation: position matters, value does not)
    T,
    /// u32
    U,
    /// binary
    B,
    /// non-zero field element
    NZ,
    /// non-zero u32
    UNZ,
    /// shift amount 0..=31
    Sh,
    /// pow2 exponent 0..=63
    P2,
    One,
    Zero,
    /// exponent limited to the declared number of bits (exp.uN)
    EB,
}

#[derive(Clone, Copy, Debug, PartialEq, Eq)]
pub enum ImmGen {
    None,
    Felt,
    NzFelt,
    U32,
    NzU32,
    Shift,
    Index(u64, u64),
    ExpBits,
    ExpVal,
    Err,
    Push,
}

#[derive(Clone, Debug)]
pub struct Spec {
    pub kind: String,
    pub name: &'static str,
    pub op: Op,
    /// stack operands in this form, top first
    pub operands: Vec<K>,
    pub imm: ImmGen,
    /// documented failing cases (FailKind::class) that must be observed
    pub fails: Vec<&'static str>,
}

pub fn specs() -> Vec<Spec> {
    use ImmGen as I;
    use K::*;
    let mut v: Vec<Spec> = vec![];
    let mut add = |name: &'static str, suffix: &str, operands: Vec<K>, imm: ImmGen, fails: Vec<&'static str>| {
        v.push(Spec { kind: format!("{name}{suffix}"), name, op: Op::from_name(name).expect(name), operands, imm, fails });
    };
    // assertions
    for (n, ops) in [("assert", vec![One]), ("assertz", vec![Zero]), ("assert_eq", vec![F, F]), ("assert_eqw", vec![F; 8])] {
        add(n, "", ops.clone(), I::None, vec!["Assertion"]);
        add(n, ".err", ops, I::Err, vec!["Assertion", "Asm(err-code-not-32-bit)"]);
    }
    // field arithmetic
    for n in ["add", "sub", "mul"] {
        add(n, "", vec![F, F], I::None, vec![]);
        add(n, ".b", vec![F], I::Felt, vec![]);
    }
    add("div", "", vec![NZ, F], I::None, vec!["DivideByZero"]);
    add("div", ".b", vec![F], I::NzFelt, vec!["DivideByZero(imm)"]);
    add("neg", "", vec![F], I::None, vec![]);
    add("inv", "", vec![NZ], I::None, vec!["DivideByZero"]);
    add("pow2", "", vec![P2], I::None, vec!["Pow2Range"]);
    add("exp", "", vec![F, F], I::None, vec![]);
    add("exp", ".uN", vec![EB, F], I::ExpBits, vec!["Asm(exp-bits-out-of-range)"]);
    add("exp", ".b", vec![F], I::ExpVal, vec![]);
    add("ilog2", "", vec![NZ], I::None, vec!["LogArgumentZero"]);
    add("not", "", vec![B], I::None, vec!["NotBinary"]);
    for n in ["and", "or", "xor"] {
        add(n, "", vec![B, B], I::None, vec!["NotBinary"]);
    }
    // comparisons
    for n in ["eq", "neq"] {
        add(n, "", vec![F, F], I::None, vec![]);
        add(n, ".b", vec![F], I::Felt, vec![]);
    }
    for n in ["lt", "lte", "gt", "gte"] {
        add(n, "", vec![F, F], I::None, vec![]);
    }
    add("is_odd", "", vec![F], I::None, vec![]);
    add("eqw", "", vec![F; 8], I::None, vec![]);
    // extension field
    for n in ["ext2add", "ext2sub", "ext2mul"] {
        add(n, "", vec![F; 4], I::None, vec![]);
    }
    add("ext2neg", "", vec![F; 2], I::None, vec![]);
    add("ext2inv", "", vec![F; 2], I::None, vec!["DivideByZero"]);
    add("ext2div", "", vec![F; 4], I::None, vec!["DivideByZero"]);
    // u32 conversions / tests
    add("u32test", "", vec![F], I::None, vec![]);
    add("u32testw", "", vec![F; 4], I::None, vec![]);
    for (n, k) in [("u32assert", 1), ("u32assert2", 2), ("u32assertw", 4)] {
        add(n, "", vec![U; k], I::None, vec!["NotU32(code)"]);
        add(n, ".err", vec![U; k], I::Err, vec!["NotU32(code)", "Asm(err-code-not-32-bit)"]);
    }
    add("u32cast", "", vec![F], I::None, vec![]);
    add("u32split", "", vec![F], I::None, vec![]);
    // u32 arithmetic
    for n in ["u32overflowing_add", "u32wrapping_add", "u32overflowing_sub", "u32wrapping_sub", "u32overflowing_mul", "u32wrapping_mul"] {
        add(n, "", vec![U, U], I::None, vec![]);
        add(n, ".b", vec![U], I::U32, vec![]);
    }
    for n in ["u32overflowing_add3", "u32wrapping_add3", "u32overflowing_madd", "u32wrapping_madd"] {
        add(n, "", vec![U, U, U], I::None, vec![]);
    }
    for n in ["u32div", "u32mod", "u32divmod"] {
        add(n, "", vec![UNZ, U], I::None, vec!["DivideByZero"]);
        add(n, ".b", vec![U], I::NzU32, vec!["DivideByZero(imm)"]);
    }
    // u32 bitwise
    for n in ["u32and", "u32or", "u32xor"] {
        add(n, "", vec![U, U], I::None, vec!["NotU32"]);
    }
    add("u32not", "", vec![U], I::None, vec!["NotU32"]);
    for n in ["u32shl", "u32shr", "u32rotl", "u32rotr"] {
        add(n, "", vec![Sh, U], I::None, vec![]);
        add(n, ".b", vec![U], I::Shift, vec![]);
    }
    for n in ["u32popcnt", "u32clz", "u32ctz", "u32clo", "u32cto"] {
        add(n, "", vec![U], I::None, vec![]);
    }
    for n in ["u32lt", "u32lte", "u32gt", "u32gte", "u32min", "u32max"] {
        add(n, "", vec![U, U], I::None, vec![]);
    }
    // stack manipulation
    add("drop", "", vec![T], I::None, vec![]);
    add("dropw", "", vec![T; 4], I::None, vec![]);
    add("padw", "", vec![], I::None, vec![]);
    for (n, lo, hi, bare) in [
        ("dup", 0, 15, true),
        ("dupw", 0, 3, true),
        ("swap", 1, 15, true),
        ("swapw", 1, 3, true),
        ("movup", 2, 15, false),
        ("movupw", 2, 3, false),
        ("movdn", 2, 15, false),
        ("movdnw", 2, 3, false),
    ] {
        if bare {
            add(n, "", vec![T; 16], I::None, vec![]);
        }
        add(n, ".n", vec![T; 16], I::Index(lo, hi), vec!["Asm(index-out-of-range)"]);
    }
    add("swapdw", "", vec![T; 16], I::None, vec![]);
    add("cswap", "", vec![B, T, T], I::None, vec!["NotBinary"]);
    add("cdrop", "", vec![B, T, T], I::None, vec!["NotBinary"]);
    let mut w9 = vec![B];
    w9.extend(vec![T; 8]);
    add("cswapw", "", w9.clone(), I::None, vec!["NotBinary"]);
    add("cdropw", "", w9, I::None, vec!["NotBinary"]);
    // inputs
    add("push", "", vec![], I::Push, vec!["Asm(not-a-field-element)", "Asm(push-more-than-16)"]);
    add("sdepth", "", vec![], I::None, vec![]);
    v
}

pub const GRID_FIXED: [u64; 12] =
    [0, 1, 2, (1 << 16) - 1, 1 << 16, 1 << 31, (1 << 32) - 1, 1 << 32, (1 << 32) + 1, 1 << 63, P - 2, P - 1];

fn grid(rng: &mut Rng8) -> Vec<u64> {
    let mut g = GRID_FIXED.to_vec();
    g.push(rng.gen::<u32>() as u64);
    g.push(rng.gen_range(0..P));
    g
}

/// unique, distinguishable filler for absolute position `i` of the initial stack
fn filler(i: usize, salt: u64) -> u64 {
    (((i as u64 + 1) << 40) | ((salt & 0xFFFF) << 16) | (0x5A00 + i as u64)) % P
}

fn good(k: K, pos: usize, salt: u64, rng: &mut Rng8) -> u64 {
    match k {
        K::F | K::EB => biased_felt(rng),
        K::T => filler(pos, salt),
        K::U => biased_u32(rng),
        K::B => rng.gen_range(0..2),
        K::NZ => loop {
            let v = biased_felt(rng);
            if v != 0 {
                break v;
            }
        },
        K::UNZ => loop {
            let v = biased_u32(rng);
            if v != 0 {
                break v;
            }
        },
        K::Sh => *[0u64, 1, 2, 15, 16, 30, 31, rng.gen_range(0..32)].choose(rng).unwrap(),
        K::P2 => *[0u64, 1, 31, 32, 62, 63, rng.gen_range(0..64)].choose(rng).unwrap(),
        K::One => 1,
        K::Zero => 0,
    }
}

/// a value violating the documented precondition of kind `k` (or just any value if there is none)
fn bad(k: K, rng: &mut Rng8) -> u64 {
    let big = [1u64 << 32, (1 << 32) + 1, 1 << 63, P - 2, P - 1, rng.gen_range((1u64 << 32)..P)];
    match k {
        K::F | K::T | K::EB => biased_felt(rng),
        K::U => *big.choose(rng).unwrap(),
        K::B => *[2u64, 3, (1 << 32) - 1, 1 << 32, P - 1, rng.gen_range(2..P)].choose(rng).unwrap(),
        K::NZ => 0,
        K::UNZ => {
            if rng.gen_bool(0.8) {
                0
            } else {
                *big.choose(rng).unwrap()
            }
        }
        K::Sh => *[32u64, 33, 64, (1 << 32) - 1, 1 << 32, P - 1].choose(rng).unwrap(),
        K::P2 => *[64u64, 65, 128, (1 << 32) - 1, 1 << 32, P - 1].choose(rng).unwrap(),
        K::One => *[0u64, 2, P - 1, rng.gen_range(2..P)].choose(rng).unwrap(),
        K::Zero => *[1u64, 2, P - 1, rng.gen_range(1..P)].choose(rng).unwrap(),
    }
}

/// Relations between operands needed for the instruction to succeed / be interesting.
fn relate(op: Op, ops: &mut [u64], rng: &mut Rng8) {
    match op {
        Op::AssertEq if ops.len() == 2 => ops[1] = ops[0],
        Op::AssertEqw if ops.len() == 8 => {
            for i in 0..4 {
                ops[i + 4] = ops[i];
            }
        }
        Op::Eqw if ops.len() == 8 && rng.gen_bool(0.5) => {
            for i in 0..4 {
                ops[i + 4] = ops[i];
            }
        }
        Op::Eq | Op::Neq | Op::Lt | Op::Lte | Op::Gt | Op::Gte | Op::U32Lt | Op::U32Lte | Op::U32Gt | Op::U32Gte
        | Op::U32Min | Op::U32Max
            if ops.len() == 2 && rng.gen_bool(0.25) =>
        {
            ops[1] = ops[0]
        }
        _ => {}
    }
}

fn partner(op: Op, j: usize) -> Option<usize> {
    match op {
        Op::AssertEq => Some(1 - j),
        Op::AssertEqw | Op::Eqw => Some((j + 4) % 8),
        _ => None,
    }
}

// TEXT RENDERING
// ================================================================================================

fn hex_short(v: u64, rng: &mut Rng8) -> String {
    let mut h = format!("{v:x}");
    if h.len() % 2 == 1 {
        h.insert(0, '0');
    }
    // optional zero padding (even number of digits, at most 16)
    let room = (16 - h.len()) / 2;
    let pad = if room > 0 && rng.gen_bool(0.5) { rng.gen_range(0..=room) } else { 0 };
    format!("0x{}{}", "00".repeat(pad), h)
}

fn hex_word(vals: &[u64]) -> String {
    let mut s = String::from("0x");
    for v in vals {
        for b in v.to_le_bytes() {
            s.push_str(&format!("{b:02x}"));
        }
    }
    s
}

/// Named constants available to a program: (name, value)
#[derive(Clone, Debug, Default)]
pub struct Consts {
    pub decls: Vec<String>,
    pub vals: Vec<(String, u64)>,
}

impl Consts {
    /// declares a constant with value `v` in a random documented form; returns its name
    fn declare(&mut self, v: u64, rng: &mut Rng8) -> String {
        if let Some((n, _)) = self.vals.iter().find(|(_, x)| *x == v) {
            if rng.gen_bool(0.7) {
                return n.clone();
            }
        }
        let name = match rng.gen_range(0..4) {
            0 => format!("C{}", self.vals.len()),
            1 => format!("K_{}_X", self.vals.len()),
            2 => format!("Z9{}", "_A".repeat(self.vals.len() + 1)),
            _ => format!("ERR{}", self.vals.len()),
        };
        let expr = match rng.gen_range(0..8) {
            0 | 1 => format!("{v}"),
            2 => hex_short(v, rng),
            3 => {
                // a+b
                let a = rng.gen_range(0..=v);
                format!("{}+{}", a, v - a)
            }
            4 => {
                // a-b with a < p
                let b = rng.gen_range(0..=(P - 1 - v).min(1 << 40));
                format!("{}-{}", v + b, b)
            }
            5 => {
                // (q*d+r) written as q*d+r, standard precedence, no wrap
                let d = rng.gen_range(1..=1000u64);
                format!("{}*{}+{}", v / d, d, v % d)
            }
            6 => {
                // integer division: (v*d + r)//d with r < d, no wrap
                let d = rng.gen_range(1..=255u64);
                if v <= (P - 1) / d - 1 {
                    format!("({}+{})//{}", v * d, rng.gen_range(0..d), d)
                } else {
                    format!("{v}")
                }
            }
            _ => {
                // exact field division and a reference to an earlier constant
                let d = rng.gen_range(1..=255u64);
                if let Some((n, x)) = self.vals.last().cloned() {
                    if x <= v && rng.gen_bool(0.6) {
                        return self.push_decl(name, format!("{}+({})", n, v - x), v);
                    }
                }
                if v <= (P - 1) / d {
                    format!("{}/{}", v * d, d)
                } else {
                    format!("{v}")
                }
            }
        };
        self.push_decl(name, expr, v)
    }
    fn push_decl(&mut self, name: String, expr: String, v: u64) -> String {
        self.decls.push(format!("const.{name}={expr}"));
        self.vals.push((name.clone(), v));
        name
    }
}

/// renders one pushed value in a random textual form
fn value_text(v: u64, consts: &mut Consts, allow_const: bool, rng: &mut Rng8) -> String {
    match rng.gen_range(0..10) {
        0..=4 => format!("{v}"),
        5..=7 => hex_short(v, rng),
        _ if allow_const => consts.declare(v, rng),
        _ => format!("{v}"),
    }
}

/// tokens that push `vals` (first pushed first, i.e. the last value ends up on top)
fn push_tokens(vals: &[u64], consts: &mut Consts, allow_const: bool, rng: &mut Rng8) -> Vec<String> {
    let mut out = vec![];
    let mut i = 0;
    while i < vals.len() {
        let left = vals.len() - i;
        if left >= 4 && rng.gen_bool(0.25) {
            out.push(format!("push.{}", hex_word(&vals[i..i + 4])));
            i += 4;
            continue;
        }
        let n = rng.gen_range(1..=left.min(16));
        let parts: Vec<String> = vals[i..i + n].iter().map(|v| value_text(*v, consts, allow_const, rng)).collect();
        out.push(format!("push.{}", parts.join(".")));
        i += n;
    }
    out
}

/// candidate immediates for the single-instruction phase: (text suffix, consts needed)
fn imm_candidates(spec: &Spec, rng: &mut Rng8) -> Vec<(String, Consts)> {
    let plain = |s: String| (s, Consts::default());
    let g = grid(rng);
    match spec.imm {
        ImmGen::None => vec![plain(String::new())],
        ImmGen::Felt | ImmGen::NzFelt | ImmGen::ExpVal => {
            let mut v: Vec<_> = g.iter().map(|x| plain(format!(".{x}"))).collect();
            if spec.imm == ImmGen::ExpVal {
                // small exponents have dedicated expansions
                for x in [3u64, 4, 5, 6, 7, 8, 9, 15, 16, 17, 31, 32, 33, 63, 64, 65, 255, 256] {
                    v.push(plain(format!(".{x}")));
                }
            } else {
                for x in [3u64, 4, 255, 256] {
                    v.push(plain(format!(".{x}")));
                }
            }
            // not field elements: docs silent -> Undefined, must not panic
            v.push(plain(format!(".{}", P)));
            v.push(plain(".18446744073709551615".into()));
            v.push(plain(".18446744073709551616".into()));
            v
        }
        ImmGen::U32 | ImmGen::NzU32 => {
            let mut v: Vec<_> = [0u64, 1, 2, 65535, 65536, 1 << 31, (1 << 32) - 1, rng.gen::<u32>() as u64]
                .iter()
                .map(|x| plain(format!(".{x}")))
                .collect();
            for x in [1u64 << 32, (1 << 32) + 1, P - 1, P] {
                v.push(plain(format!(".{x}")));
            }
            v
        }
        ImmGen::Shift => (0u64..=33).chain([64, 1 << 32]).map(|x| plain(format!(".{x}"))).collect(),
        ImmGen::Index(lo, hi) => {
            let mut v: Vec<_> = (lo..=hi).map(|x| plain(format!(".{x}"))).collect();
            if lo > 0 {
                v.push(plain(format!(".{}", lo - 1)));
                v.push(plain(".0".into()));
            }
            v.push(plain(format!(".{}", hi + 1)));
            v.push(plain(".16".into()));
            v.push(plain(".4294967296".into()));
            v
        }
        ImmGen::ExpBits => (0u64..=66).chain([100, 1 << 32]).map(|x| plain(format!(".u{x}"))).collect(),
        ImmGen::Err => {
            let mut v: Vec<_> = [0u64, 1, 65536, (1 << 32) - 1, rng.gen::<u32>() as u64, 1 << 32, P - 1]
                .iter()
                .map(|x| plain(format!(".err={x}")))
                .collect();
            for x in [0u64, 7, (1 << 32) - 1, rng.gen::<u32>() as u64, 1 << 32] {
                let mut c = Consts::default();
                let n = c.declare(x, rng);
                v.push((format!(".err={n}"), c));
            }
            v
        }
        ImmGen::Push => vec![],
    }
}

// PHASE (a): SINGLE INSTRUCTIONS
// ================================================================================================

fn pick_depth(nops: usize, rng: &mut Rng8) -> usize {
    match rng.gen_range(0..10) {
        0 => 0,
        1 => rng.gen_range(0..=nops.min(15)),
        2 | 3 => rng.gen_range(1..16),
        4 | 5 => 16,
        6 => 17,
        _ => rng.gen_range(17..=40),
    }
}

/// initial stack of depth `d`: operands on top (truncated if d is smaller), unique fillers below
fn build_stack(operands: &[u64], d: usize, salt: u64) -> Vec<u64> {
    (0..d).map(|i| if i < operands.len() { operands[i] } else { filler(i, salt) }).collect()
}

fn eval_single(spec_kind: &str, prog: &ProgramText, stack: &[u64], nops: usize, rep: &mut Report, rng: &mut Rng8) {
    let chk = check_program(prog, stack, "single", rep, Some(rng), false);
    rep.count("single_evals", spec_kind);
    let opclasses: Vec<&str> = stack.iter().take(nops.min(4)).map(|v| val_class(*v)).collect();
    let form = prog.tokens.first().map(|t| isa::param_form(t)).unwrap_or_default();
    rep.eval(&format!(
        "single|{spec_kind}|{form}|{}|{}|{}",
        opclasses.join(","),
        depth_class(stack.len()),
        chk.verdict.class()
    ));
    if !chk.violated {
        record(prog, stack, &chk, "single", rep);
        if rep.samples.len() < 3 && rng.gen_ratio(1, 2000) {
            rep.sample(json!({"phase": "single", "src": prog.to_source(), "stack_top_first": stack.iter().map(|v| v.to_string()).collect::<Vec<_>>(), "reference": chk.verdict.class(), "real": chk.real_class}));
        }
    }
}

fn single_cases_for(spec: &Spec, rep: &mut Report, rng: &mut Rng8) {
    if spec.imm == ImmGen::Push {
        return push_cases(rep, rng);
    }
    let nops = spec.operands.len();
    let salt = rng.gen::<u64>();
    for (suffix, consts) in imm_candidates(spec, rng) {
        let tok = format!("{}{}", spec.name, suffix);
        let prog = ProgramText { consts: consts.decls.clone(), tokens: vec![tok] };
        // exp.uN: keep the good exponent within the declared bits
        let bits: Option<u64> = suffix.strip_prefix(".u").and_then(|b| b.parse().ok());
        let good_ops = |rng: &mut Rng8| -> Vec<u64> {
            let mut ops: Vec<u64> = spec.operands.iter().enumerate().map(|(i, k)| good(*k, i, salt, rng)).collect();
            if let (Some(n), Some(K::EB)) = (bits, spec.operands.first()) {
                if n < 64 {
                    ops[0] &= (1u64 << n) - 1;
                }
            }
            relate(spec.op, &mut ops, rng);
            ops
        };
        if nops == 0 {
            for d in [0usize, rng.gen_range(1..16), 15, 16, 17, rng.gen_range(18..=40)] {
                let st = build_stack(&[], d, salt);
                eval_single(&spec.kind, &prog, &st, nops, rep, rng);
            }
            continue;
        }
        let g = grid(rng);
        for j in 0..nops {
            let gv: Vec<u64> = if nops > 4 { g.choose_multiple(rng, 3).cloned().collect() } else { g.clone() };
            for v in gv {
                let mut ops = good_ops(rng);
                ops[j] = v;
                if let Some(pj) = partner(spec.op, j) {
                    if rng.gen_bool(0.5) {
                        ops[pj] = v;
                    }
                }
                let d = if rng.gen_bool(0.6) { rng.gen_range(nops..=40.max(nops)) } else { pick_depth(nops, rng) };
                let st = build_stack(&ops, d, salt);
                eval_single(&spec.kind, &prog, &st, nops, rep, rng);
            }
        }
        // all pairs of grid values for binary / ternary instructions
        if (2..=3).contains(&nops) && suffix.is_empty() {
            for a in &g {
                for b in &g {
                    let mut ops = good_ops(rng);
                    ops[0] = *a;
                    ops[1] = *b;
                    let d = if rng.gen_bool(0.5) { 16 + rng.gen_range(0..=24) } else { rng.gen_range(nops..=16) };
                    let st = build_stack(&ops, d, salt);
                    eval_single(&spec.kind, &prog, &st, nops, rep, rng);
                }
            }
        }
        // extension-field elements (0, v) whose inversion exercises a carry corner of the base
        // field arithmetic used by the host (2v = +-(2^32 + 2^31 - 1) mod p)
        if matches!(spec.op, Op::Ext2Inv | Op::Ext2Div | Op::Ext2Mul) {
            for v in [9223372031486066689u64, 9223372037928517632, 6442450944, 262146] {
                for d in [4usize, 16, rng.gen_range(17..=40)] {
                    let mut ops = good_ops(rng);
                    ops[0] = v;
                    ops[1] = 0;
                    let st = build_stack(&ops, d, salt);
                    eval_single(&spec.kind, &prog, &st, nops, rep, rng);
                }
            }
        }
        // a few fully "good" and fully random operand tuples at every depth class
        for d in [0usize, rng.gen_range(1..16), 16, 17, rng.gen_range(18..=40)] {
            let ops = good_ops(rng);
            let st = build_stack(&ops, d, salt);
            eval_single(&spec.kind, &prog, &st, nops, rep, rng);
        }
    }
}

/// constant pushes in every textual form, including the same value in all forms
fn push_cases(rep: &mut Report, rng: &mut Rng8) {
    let salt = rng.gen::<u64>();
    let g = grid(rng);
    let run = |prog: ProgramText, rep: &mut Report, rng: &mut Rng8| {
        let d = pick_depth(0, rng);
        let st = build_stack(&[], d, salt);
        eval_single("push", &prog, &st, 0, rep, rng);
    };
    // one value, every form (the reference gives the same answer for each, so any difference
    // between forms shows up as a mismatch of that form)
    for v in &g {
        let v = *v;
        let mut forms: Vec<(Vec<String>, String)> = vec![
            (vec![], format!("push.{v}")),
            (vec![], format!("push.{}", hex_short(v, rng))),
            (vec![], format!("push.0x{:016x}", v)),
        ];
        for e in [format!("{v}"), format!("0x{:016x}", v), hex_short(v, rng)] {
            forms.push((vec![format!("const.VAL={e}")], "push.VAL".into()));
        }
        if v >= 1 {
            forms.push((vec![format!("const.A={}", v - 1), "const.VAL=A+1".into()], "push.VAL".into()));
        }
        if v < P - 1 {
            forms.push((vec![format!("const.VAL={}-1", v + 1)], "push.VAL".into()));
        }
        if v % 2 == 0 {
            forms.push((vec![format!("const.VAL={}*2", v / 2)], "push.VAL".into()));
            forms.push((vec![format!("const.VAL=({})", v / 2), "const.W=VAL+VAL".into()], "push.W".into()));
        }
        if v < P / 3 {
            forms.push((vec![format!("const.VAL={}/3", v * 3)], "push.VAL".into()));
            forms.push((vec![format!("const.VAL={}//3", v * 3 + 2)], "push.VAL".into()));
        }
        for (consts, tok) in forms {
            run(ProgramText { consts, tokens: vec![tok] }, rep, rng);
        }
        // the value inside a word, long and short forms
        let w = [rng.gen_range(0..P), v, biased_felt(rng), biased_u32(rng)];
        run(ProgramText { consts: vec![], tokens: vec![format!("push.{}", hex_word(&w))] }, rep, rng);
        run(ProgramText { consts: vec![], tokens: vec![format!("push.{}.{}.{}.{}", w[0], hex_short(w[1], rng), w[2], hex_short(w[3], rng))] }, rep, rng);
    }
    // 1..=16 values (and 17, 18: invalid), mixed forms
    for n in 1..=18usize {
        let vals: Vec<u64> = (0..n).map(|_| biased_felt(rng)).collect();
        let mut c = Consts::default();
        let parts: Vec<String> = vals.iter().map(|v| value_text(*v, &mut c, true, rng)).collect();
        run(ProgramText { consts: c.decls.clone(), tokens: vec![format!("push.{}", parts.join("."))] }, rep, rng);
        let parts: Vec<String> = vals.iter().map(|v| v.to_string()).collect();
        run(ProgramText { consts: vec![], tokens: vec![format!("push.{}", parts.join("."))] }, rep, rng);
    }
    // values that are not field elements, in each form
    for bad in [P, P + 1, u64::MAX] {
        run(ProgramText { consts: vec![], tokens: vec![format!("push.{bad}")] }, rep, rng);
        run(ProgramText { consts: vec![], tokens: vec![format!("push.0x{bad:016x}")] }, rep, rng);
        run(ProgramText { consts: vec![], tokens: vec![format!("push.1.{bad}.2")] }, rep, rng);
        let mut w = [1u64, 2, 3, 4];
        w[rng.gen_range(0..4)] = bad;
        run(ProgramText { consts: vec![], tokens: vec![format!("push.{}", hex_word(&w))] }, rep, rng);
        run(ProgramText { consts: vec![format!("const.VAL={bad}")], tokens: vec!["push.VAL".into()] }, rep, rng);
    }
    run(ProgramText { consts: vec![], tokens: vec!["push.18446744073709551616".into()] }, rep, rng);
    run(ProgramText { consts: vec![], tokens: vec!["push.340282366920938463463374607431768211456".into()] }, rep, rng);
    // malformed hex lengths / names
    for t in ["push.0x0102030405060708090a", "push.0x123", &format!("push.0x{}", "00".repeat(31)), &format!("push.0x{}", "00".repeat(33)), "push.UNDEFINED_CONST"] {
        run(ProgramText { consts: vec![], tokens: vec![t.to_string()] }, rep, rng);
    }
    // malformed / borderline constant declarations (the reference says Fail or Undefined; either way
    // the assembler must not panic)
    for c in [
        "const.lower=1", "const.1X=1", "const.A=1+", "const.A=B", "const.A=(1", "const.A=1)", "const.A=()", "const.A=",
        "const.A=+1", "const.A=1/0", "const.A=1//0", "const.A=0-1",
        "const.A=18446744069414584320+1", "const.A=18446744069414584320*2", "const.A=0x10+1", "const.A=((2))",
        "const.A=2*/3", "const.A=(1+2", "const.A=1+2)", "const.A=1//", "const.A=*2",
    ] {
        run(ProgramText { consts: vec![c.to_string()], tokens: vec!["push.1".into()] }, rep, rng);
    }
    // well-formed expressions: precedence, associativity, both divisions
    for (e, v) in [
        ("5/2", 9223372034707292163u64), ("7//2", 3), ("10-2-3", 5), ("100/5/2", 10), ("2+3*4", 14), ("2*(3+4)//5", 2),
        ("(1+2)*(3+4)", 21), ("100//7//2", 7), ("2*3+4*5", 26), ("((7))", 7), ("18446744069414584320", P - 1),
    ] {
        let prog = ProgramText { consts: vec![format!("const.A={e}")], tokens: vec!["push.A".into(), format!("push.{v}"), "assert_eq".into()] };
        run(prog, rep, rng);
    }
    for t in ["push.0xABCD", "push.0x", "push.1.", "push..1", "push.007"] {
        run(ProgramText { consts: vec![], tokens: vec![t.to_string()] }, rep, rng);
    }
    // sdepth after pushes at every depth (LIFO order of overflow elements)
    for d in [0usize, 5, 15, 16, 17, 30, 40] {
        let n = rng.gen_range(1..=16);
        let vals: Vec<u64> = (0..n).map(|i| filler(100 + i, salt)).collect();
        let mut c = Consts::default();
        let mut toks = push_tokens(&vals, &mut c, true, rng);
        toks.push("sdepth".into());
        let st = build_stack(&[], d, salt);
        eval_single("push", &ProgramText { consts: c.decls, tokens: toks }, &st, 0, rep, rng);
    }
}

// PHASE (b): SEQUENCES
// ================================================================================================

pub struct SeqCfg {
    pub violate_rate: f64,
    pub max_len: usize,
}

/// good immediate text for a spec in a sequence (always decimal / documented forms)
fn seq_imm(spec: &Spec, consts: &mut Consts, violate: bool, rng: &mut Rng8) -> String {
    match spec.imm {
        ImmGen::None | ImmGen::Push => String::new(),
        ImmGen::Felt | ImmGen::ExpVal => format!(".{}", biased_felt(rng)),
        ImmGen::NzFelt => format!(".{}", if violate { 0 } else { good(K::NZ, 0, 0, rng) }),
        ImmGen::U32 => format!(".{}", if violate { bad(K::U, rng) } else { biased_u32(rng) }),
        ImmGen::NzU32 => format!(".{}", if violate { 0 } else { good(K::UNZ, 0, 0, rng) }),
        ImmGen::Shift => format!(".{}", if violate { bad(K::Sh, rng) } else { good(K::Sh, 0, 0, rng) }),
        ImmGen::Index(lo, hi) => {
            if violate {
                format!(".{}", if lo > 0 && rng.gen_bool(0.5) { lo - 1 } else { hi + 1 })
            } else {
                format!(".{}", rng.gen_range(lo..=hi))
            }
        }
        ImmGen::ExpBits => {
            if violate {
                format!(".u{}", rng.gen_range(65..200))
            } else {
                format!(".u{}", *[0u64, 1, 5, 8, 31, 32, 33, 63, 64, rng.gen_range(0..=64)].choose(rng).unwrap())
            }
        }
        ImmGen::Err => {
            let code = if violate { 1u64 << 32 } else { biased_u32(rng) };
            if rng.gen_bool(0.4) {
                format!(".err={}", consts.declare(code, rng))
            } else {
                format!(".err={code}")
            }
        }
    }
}

pub struct Seq {
    pub prog: ProgramText,
    pub stack: Vec<u64>,
}

/// Model-guided generation: the reference state decides which operands are needed.
pub fn gen_sequence(specs: &[Spec], usable: &[usize], cfg: &SeqCfg, rng: &mut Rng8) -> Seq {
    let d = match rng.gen_range(0..8) {
        0 => 0,
        1 | 2 => rng.gen_range(1..16),
        3 => 16,
        4 => 17,
        _ => rng.gen_range(17..=40),
    };
    let salt = rng.gen::<u64>();
    let stack: Vec<u64> = (0..d)
        .map(|i| match rng.gen_range(0..10) {
            0..=3 => biased_u32(rng),
            4 | 5 => rng.gen_range(0..2),
            6 => rng.gen_range(0..64),
            7 => filler(i, salt),
            _ => biased_felt(rng),
        })
        .collect();
    let target = rng.gen_range(2..=cfg.max_len);
    let mut consts = Consts::default();
    let mut m = Machine::new(&stack);
    let mut tokens: Vec<String> = vec![];
    let mut n_ins = 0;
    // the constants are declared lazily; the machine learns them as they appear
    let sync = |m: &mut Machine, consts: &Consts| {
        for (n, v) in &consts.vals {
            m.consts.entry(n.clone()).or_insert(*v);
        }
    };
    let mut terminal = false;
    while n_ins < target && tokens.len() < 70 && !terminal {
        let spec = &specs[*usable.choose(rng).unwrap()];
        let violate = rng.gen_bool(cfg.violate_rate);
        n_ins += 1;
        if spec.imm == ImmGen::Push {
            let n = if violate && rng.gen_bool(0.5) { 17 } else { rng.gen_range(1..=16) };
            let mut vals: Vec<u64> = (0..n).map(|_| biased_felt(rng)).collect();
            let toks = if violate && n <= 16 {
                let k = rng.gen_range(0..n);
                vals[k] = P + rng.gen_range(0..3);
                vec![format!("push.{}", vals.iter().map(|v| v.to_string()).collect::<Vec<_>>().join("."))]
            } else if n == 17 {
                vec![format!("push.{}", vals.iter().map(|v| v.to_string()).collect::<Vec<_>>().join("."))]
            } else {
                push_tokens(&vals, &mut consts, true, rng)
            };
            sync(&mut m, &consts);
            for t in toks {
                match m.parse(&t) {
                    Parsed::Ins(ins) => {
                        m.step(&ins);
                    }
                    _ => terminal = true,
                }
                tokens.push(t);
            }
            continue;
        }
        let imm_violate = violate && spec.imm != ImmGen::None && rng.gen_bool(0.4);
        let suffix = seq_imm(spec, &mut consts, imm_violate, rng);
        sync(&mut m, &consts);
        let tok = format!("{}{}", spec.name, suffix);
        let ins = match m.parse(&tok) {
            Parsed::Ins(ins) => ins,
            _ => {
                // invalid / undefined immediate: whole program verdict is decided at assembly time
                tokens.push(tok);
                terminal = true;
                continue;
            }
        };
        // 1. try the current stack as it is
        if !violate && rng.gen_bool(0.6) {
            let mut trial = m.clone();
            if trial.step(&ins) == Step::Ok {
                m = trial;
                tokens.push(tok);
                continue;
            }
        }
        // 2. push operands that satisfy (or deliberately violate) the documented preconditions
        let nops = spec.operands.len();
        let mut ops: Vec<u64> = spec.operands.iter().enumerate().map(|(i, k)| good(*k, i + tokens.len(), salt, rng)).collect();
        if let (isa::Imm::Bits(n), Some(K::EB)) = (&ins.imm, spec.operands.first()) {
            if *n < 64 {
                ops[0] &= (1u64 << n) - 1;
            }
        }
        relate(spec.op, &mut ops, rng);
        if violate && !imm_violate && nops > 0 {
            let restrictive: Vec<usize> = (0..nops).filter(|i| !matches!(spec.operands[*i], K::F | K::T | K::EB)).collect();
            let j = if restrictive.is_empty() { rng.gen_range(0..nops) } else { *restrictive.choose(rng).unwrap() };
            ops[j] = bad(spec.operands[j], rng);
            if spec.operands[0] == K::EB {
                ops[0] = biased_felt(rng);
            }
        }
        // only the operands an instruction really reads need pushing for the stack-shuffling ones
        let need = if spec.operands.iter().all(|k| *k == K::T) { rng.gen_range(0..=nops.min(4)) } else { nops };
        let mut deepest_first: Vec<u64> = ops[..need].to_vec();
        deepest_first.reverse();
        if !deepest_first.is_empty() {
            let toks = push_tokens(&deepest_first, &mut consts, true, rng);
            sync(&mut m, &consts);
            for t in toks {
                if let Parsed::Ins(pi) = m.parse(&t) {
                    m.step(&pi);
                }
                tokens.push(t);
            }
        }
        let mut trial = m.clone();
        match trial.step(&ins) {
            Step::Ok => {
                m = trial;
                tokens.push(tok);
            }
            _ if violate => {
                tokens.push(tok);
                terminal = true;
            }
            _ => {
                // could not satisfy the preconditions (should be rare): skip the instruction
            }
        }
    }
    if terminal && rng.gen_bool(0.3) {
        // instructions after the failing one must not matter
        tokens.push((*["add", "drop", "swap", "push.1", "u32split"].choose(rng).unwrap()).to_string());
    }
    if tokens.is_empty() {
        tokens.push("push.1".into());
    }
    Seq { prog: ProgramText { consts: consts.decls, tokens }, stack }
}

fn eval_seq(seq: &Seq, rep: &mut Report, rng: &mut Rng8) {
    let chk = check_program(&seq.prog, &seq.stack, "seq", rep, Some(rng), false);
    let n = seq.prog.tokens.len();
    let last = match &chk.verdict {
        Verdict::Fail { at: Some(i), .. } | Verdict::Undefined { at: Some(i), .. } => isa::token_kind(&seq.prog.tokens[*i]),
        _ => seq.prog.tokens.last().map(|t| isa::token_kind(t)).unwrap_or_default(),
    };
    rep.eval(&format!("seq|len{}|{}|{}|{}", n / 8, depth_class(seq.stack.len()), chk.verdict.class(), last));
    rep.count("seq_len_tokens", &format!("{:02}-{:02}", (n / 10) * 10, (n / 10) * 10 + 9));
    if chk.violated {
        return;
    }
    record(&seq.prog, &seq.stack, &chk, "seq", rep);
    if rep.samples.len() < 3 && rng.gen_ratio(1, 50) {
        rep.sample(json!({"phase": "seq", "src": crate::report::truncate(&seq.prog.to_source(), 600), "stack_top_first": seq.stack.iter().map(|v| v.to_string()).collect::<Vec<_>>(), "reference": chk.verdict.class(), "real": chk.real_class}));
    }
    // a documented run-time failure must happen AT the failing instruction: the program cut right
    // before it must still succeed and match
    if let Verdict::Fail { at: Some(i), kind } = &chk.verdict {
        if !matches!(kind, FailKind::Asm(_)) && *i > 0 && rng.gen_bool(0.25) {
            let pre = seq.prog.prefix(*i);
            let c2 = check_program(&pre, &seq.stack, "seq-prefix", rep, None, false);
            rep.count("fail_prefix_checked", &c2.verdict.class().split(':').next().unwrap_or("").to_string());
        }
    }
}

// RUN
// ================================================================================================

pub fn run(cfg: &Cfg) -> Report {
    let all = specs();
    // ---- phase (a)
    let reps_a = cfg.n(24, 360);
    let shards_a = 128;
    let items: Vec<(usize, usize)> = (0..reps_a).flat_map(|r| (0..all.len()).map(move |s| (s, r))).collect();
    let reports = par_map(shards_a, |sh| {
        let mut rng = rng_for(cfg.seed, "C05-single", sh as u64);
        let mut rep = Report::new();
        for (idx, (s, _r)) in items.iter().enumerate() {
            if idx % shards_a == sh {
                single_cases_for(&all[*s], &mut rep, &mut rng);
            }
        }
        rep
    });
    let mut rep = merge_all(reports);

    // instruction kinds that already deviate on their own are reported once and kept out of the
    // sequences, so that they do not mask everything executed after them
    let mut quarantined: BTreeSet<String> = BTreeSet::new();
    for v in &rep.violations {
        if v.sig.starts_with("undefined-input-") || v.sig.starts_with("invalid-trace/") {
            continue;
        }
        if let Some(k) = v.sig.split('/').next() {
            // only systematic deviations (>= 25% of the single-instruction evaluations of the kind)
            // and panics (in the dbg lane `exp` panics whenever the base is 0, which is common in
            // sequences); input-specific ones (e.g. `mul.0` at depth 16) hardly ever mask a sequence
            let n = rep.violation_counts.get(&v.sig).copied().unwrap_or(0);
            if 4 * n >= rep.get_count("single_evals", k).max(1) || v.sig.contains("-panic/") {
                quarantined.insert(k.to_string());
            }
        }
    }
    let usable: Vec<usize> = (0..all.len()).filter(|i| !quarantined.contains(&all[*i].kind)).collect();
    rep.note("quarantined_in_sequences", json!(quarantined.iter().collect::<Vec<_>>()));

    // ---- phase (b)
    let shards_b = 128;
    let per = cfg.n(12000, 180000);
    let seq_reports = par_map(shards_b, |sh| {
        let mut rng = rng_for(cfg.seed, "C05-seq", sh as u64);
        let mut rep = Report::new();
        for i in 0..per {
            let scfg = SeqCfg {
                violate_rate: match i % 4 {
                    0 => 0.0,
                    1 => 0.02,
                    2 => 0.05,
                    _ => 0.15,
                },
                max_len: if i % 3 == 0 { 12 } else { 40 },
            };
            let seq = gen_sequence(&all, &usable, &scfg, &mut rng);
            eval_seq(&seq, &mut rep, &mut rng);
        }
        rep
    });
    rep.merge(merge_all(seq_reports));

    // ---- floors
    let violating: BTreeSet<String> = rep
        .violations
        .iter()
        .filter(|v| !v.sig.starts_with("undefined-input-") && !v.sig.starts_with("invalid-trace/"))
        .filter_map(|v| v.sig.split('/').next().map(|s| s.to_string()))
        .collect();
    let mut missing_ok = vec![];
    let mut missing_fail = vec![];
    for s in &all {
        if rep.get_count("kind_ok", &s.kind) == 0 && !violating.contains(&s.kind) {
            missing_ok.push(s.kind.clone());
        }
        for f in &s.fails {
            if rep.get_count("kind_fail_class", &format!("{} | {}", s.kind, f)) == 0 && !violating.contains(&s.kind) {
                missing_fail.push(format!("{}|{}", s.kind, f));
            }
        }
    }
    rep.note("instruction_kinds", json!(all.len()));
    rep.note(
        "doc_errata",
        json!([{
            "file": "docs/src/user_docs/assembly/field_operations.md",
            "instruction": "ext2mul",
            "printed": "c1 <- (a0 + a1) * (b0 + b1) mod p",
            "should_read": "c1 <- (a0 + a1) * (b0 + b1) - a0 * b0 mod p (product in F_p[x]/(x^2 - x + 2))",
            "example": {"stack_top_first": [7, 5, 3, 2], "printed_formula_c1": isa::ext2_mul_as_printed(2, 3, 5, 7).1, "field_product_c1": isa::ext2_mul_true(2, 3, 5, 7).1},
            "note": "the reference model uses the field product; docs/src/design/stack/field_ops.md (EXT2MUL, constraint on s2') has the analogous slip (subtracts s0*s2 instead of s1*s3)"
        }, {
            "file": "docs/src/user_docs/assembly/field_operations.md",
            "instruction": "exp.uxx",
            "printed": "Fails if xx is outside [0, 63)",
            "note": "contradicts 'exp is equivalent to exp.u64'; the model accepts 0..=64 and requires rejection above 64"
        }]),
    );
    rep.note(
        "undefined_input_invalid_trace",
        json!("u32 instructions executed on operands the docs call undefined (>= 2^32) may succeed with a trace that violates the AIR (see histogram undefined_input_invalid_trace, key = VM op); outside C05, not raised as violation"),
    );
    rep.note("kinds_never_succeeding", json!(missing_ok));
    rep.note("documented_failures_never_observed", json!(missing_fail));
    rep.floor(missing_ok.is_empty(), "every-instruction-kind-observed-succeeding");
    rep.floor(missing_fail.is_empty(), "every-documented-failing-case-observed-failing");
    for f in ["push:dec", "push:hex", "push:hexword", "push:const", "push:mixed*", "push:dec*", "op:dec", "op:const", "op:uN", "op:bare"] {
        rep.floor(rep.get_count("imm_form", f) > 0, &format!("imm-form-{f}"));
    }
    for f in ["dec", "hex", "expr"] {
        rep.floor(rep.get_count("const_decl_form", f) > 0, &format!("const-decl-form-{f}"));
    }
    for ph in ["single", "seq"] {
        for d in ["0", "1-15", "16", "17-40"] {
            rep.floor(rep.get_count(&format!("initial_depth_{ph}"), d) > 0, &format!("initial-depth-{d}-in-{ph}"));
        }
        rep.floor(rep.get_count("deep_checked", ph) >= 100, &format!("deep-stack-compared-100x-in-{ph}"));
    }
    rep.floor(rep.hist_len("kind_undefined") >= 20, "undefined-inputs-exercised");
    rep.floor(rep.get_count("side_monitor", "t-air-checked") > 0, "t-air-side-monitor-ran");
    rep
}

pub fn replay(v: &Value, rep: &mut Report) {
    if let Some(case) = v.get("case").and_then(Case::from_json) {
        match ProgramText::from_source(&case.src) {
            Some(prog) => {
                let force = v.get("side_monitor").and_then(|b| b.as_bool()).unwrap_or(false);
                let mut rng = rng_for(0, "C05-replay", 0);
                let chk = check_program(&prog, &case.stack, "replay", rep, Some(&mut rng), force);
                rep.eval("replay");
                println!("reference: {}   real: {}", chk.verdict.class(), chk.real_class);
            }
            None => rep.inconclusive("replay: source is not a straight-line `begin … end` program"),
        }
    }
}
