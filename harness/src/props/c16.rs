//! C16 — standard-library integer arithmetic (std::math::u64, std::math::u256) is exact.
//!
//! For every exported procedure a one-call program is assembled once and then executed per operand
//! case; the final stack is compared with native integer arithmetic (u64/u128, num-bigint), the
//! canary below the operands must be intact and directly below the result (depth as documented;
//! zeros the VM pulls in below the stack bottom are not significant).
//!
//! The model is written from /repo/docs/src/user_docs/stdlib/math/u64.md and the `#!` contract
//! comments heading each procedure in stdlib/asm/math/{u64,u256}.masm:
//!  * a u64 is two u32 limbs, most significant limb closer to the top: `[a_hi, a_lo, ...]`;
//!    binary procedures take `[b_hi, b_lo, a_hi, a_lo, ...]`;
//!  * overflowing_{add,sub}: `[flag, c_hi, c_lo]`; overflowing_mul: the four limbs of the 128-bit
//!    product, most significant on top; divmod: `[r_hi, r_lo, q_hi, q_lo]`;
//!  * shl/shr/rotl/rotr take `[b, a_hi, a_lo]`, "the shift value should be in the range [0, 64),
//!    otherwise it will result in an error";
//!  * or/xor: "fails if [the limbs] are not [u32]"; all others: undefined on non-u32 limbs (the
//!    oracle then only requires "no panic");
//!  * u256: `[b7..b0, a7..a0, ...] -> [c7..c0, ...]`, limb 0 least significant (documented for
//!    mul_unsafe; the undocumented procedures of the module are held to the same limb convention
//!    and to the u64 module's operand order, a deeper than b, `sub = a - b`).

use crate::case::{err_kind, AsmOutcome, Case, ExecOutcome};
use crate::report::{merge_all, Cfg, Meta, Report};
use crate::util::{par_map, rng_for, Rng8, P};
use assembly::Library;
use num_bigint::BigUint;
use processor::Program;
use rand::Rng;
use serde_json::json;

const M32: u64 = 0xFFFF_FFFF;
const MONITOR_EVERY: u64 = 200;

// PROCEDURE TABLE
// ================================================================================================

#[derive(Clone, Copy, Debug, PartialEq, Eq)]
enum Kind {
    /// [b_hi, b_lo, a_hi, a_lo] -> ...
    Bin64,
    /// [a_hi, a_lo] -> ...
    Un64,
    /// [b, a_hi, a_lo] -> [c_hi, c_lo]
    Shift64,
    /// [b7..b0, a7..a0] -> ...
    Bin256,
    /// [a7..a0] -> ...
    Un256,
}

impl Kind {
    fn arity(self) -> usize {
        match self {
            Kind::Bin64 => 4,
            Kind::Un64 => 2,
            Kind::Shift64 => 3,
            Kind::Bin256 => 16,
            Kind::Un256 => 8,
        }
    }
}

const U64_PROCS: &[(&str, Kind)] = &[
    ("overflowing_add", Kind::Bin64),
    ("wrapping_add", Kind::Bin64),
    ("wrapping_sub", Kind::Bin64),
    ("overflowing_sub", Kind::Bin64),
    ("wrapping_mul", Kind::Bin64),
    ("overflowing_mul", Kind::Bin64),
    ("lt", Kind::Bin64),
    ("gt", Kind::Bin64),
    ("lte", Kind::Bin64),
    ("gte", Kind::Bin64),
    ("eq", Kind::Bin64),
    ("neq", Kind::Bin64),
    ("eqz", Kind::Un64),
    ("min", Kind::Bin64),
    ("max", Kind::Bin64),
    ("div", Kind::Bin64),
    ("mod", Kind::Bin64),
    ("divmod", Kind::Bin64),
    ("and", Kind::Bin64),
    ("or", Kind::Bin64),
    ("xor", Kind::Bin64),
    ("shl", Kind::Shift64),
    ("shr", Kind::Shift64),
    ("rotl", Kind::Shift64),
    ("rotr", Kind::Shift64),
    ("clz", Kind::Un64),
    ("ctz", Kind::Un64),
    ("clo", Kind::Un64),
    ("cto", Kind::Un64),
];

const U256_PROCS: &[(&str, Kind)] = &[
    ("add_unsafe", Kind::Bin256),
    ("sub_unsafe", Kind::Bin256),
    ("and", Kind::Bin256),
    ("or", Kind::Bin256),
    ("xor", Kind::Bin256),
    ("iszero_unsafe", Kind::Un256),
    ("eq_unsafe", Kind::Bin256),
    ("mul_unsafe", Kind::Bin256),
];

#[derive(Clone, Debug)]
struct Spec {
    module: &'static str,
    name: &'static str,
    kind: Kind,
    src: String,
}

impl Spec {
    fn full(&self) -> String {
        format!("{}::{}", self.module, self.name)
    }
}

fn all_specs() -> Vec<Spec> {
    let mut v = vec![];
    for (m, list) in [("u64", U64_PROCS), ("u256", U256_PROCS)] {
        for (name, kind) in list {
            v.push(Spec {
                module: m,
                name,
                kind: *kind,
                src: format!("use.std::math::{m}\nbegin\n    exec.{m}::{name}\nend\n"),
            });
        }
    }
    v
}

/// names of the procedures a stdlib module really exports (from the shipped library itself)
fn exported(module_path: &str) -> Vec<String> {
    let lib = stdlib::StdLibrary::default();
    let mut out = vec![];
    for m in lib.modules() {
        if m.path.as_str() == module_path {
            for p in m.ast.procs() {
                if p.is_export {
                    out.push(p.name.to_string());
                }
            }
            for r in m.ast.reexported_procs() {
                out.push(r.name().to_string());
            }
        }
    }
    out.sort();
    out
}

// MODEL
// ================================================================================================

#[derive(Clone, Debug, PartialEq, Eq)]
enum Expect {
    /// must succeed with these values on top of the rest of the stack (top first)
    Out(Vec<u64>),
    /// must fail with an ExecutionError; the &str names the reason (used in the signature)
    Fail(&'static str),
    /// documentation leaves the result undefined: only "no panic" is required
    Undefined,
}

fn split(v: u64) -> [u64; 2] {
    [v >> 32, v & M32]
}

fn model_u64(name: &str, kind: Kind, ops: &[u64]) -> Option<Expect> {
    let is32 = |x: u64| x <= M32;
    match kind {
        Kind::Bin64 => {
            if !ops.iter().all(|&x| is32(x)) {
                return Some(match name {
                    // "The input values are assumed to be represented using 32 bit limbs, fails if
                    // they are not."
                    "or" | "xor" => Expect::Fail("non-u32-limb-accepted"),
                    _ => Expect::Undefined,
                });
            }
            let b = (ops[0] << 32) | ops[1];
            let a = (ops[2] << 32) | ops[3];
            let flag = |c: bool| vec![c as u64];
            let two = |c: u64| split(c).to_vec();
            Some(match name {
                "overflowing_add" => {
                    let (c, o) = a.overflowing_add(b);
                    Expect::Out(vec![o as u64, c >> 32, c & M32])
                }
                "wrapping_add" => Expect::Out(two(a.wrapping_add(b))),
                "wrapping_sub" => Expect::Out(two(a.wrapping_sub(b))),
                "overflowing_sub" => {
                    let (c, o) = a.overflowing_sub(b);
                    Expect::Out(vec![o as u64, c >> 32, c & M32])
                }
                "wrapping_mul" => Expect::Out(two(a.wrapping_mul(b))),
                "overflowing_mul" => {
                    let c = (a as u128) * (b as u128);
                    Expect::Out(vec![
                        ((c >> 96) as u64) & M32,
                        ((c >> 64) as u64) & M32,
                        ((c >> 32) as u64) & M32,
                        (c as u64) & M32,
                    ])
                }
                "lt" => Expect::Out(flag(a < b)),
                "gt" => Expect::Out(flag(a > b)),
                "lte" => Expect::Out(flag(a <= b)),
                "gte" => Expect::Out(flag(a >= b)),
                "eq" => Expect::Out(flag(a == b)),
                "neq" => Expect::Out(flag(a != b)),
                "min" => Expect::Out(two(if a < b { a } else { b })),
                "max" => Expect::Out(two(if a > b { a } else { b })),
                "div" => {
                    if b == 0 {
                        Expect::Fail("zero-divisor-accepted")
                    } else {
                        Expect::Out(two(a / b))
                    }
                }
                "mod" => {
                    if b == 0 {
                        Expect::Fail("zero-divisor-accepted")
                    } else {
                        Expect::Out(two(a % b))
                    }
                }
                "divmod" => {
                    if b == 0 {
                        Expect::Fail("zero-divisor-accepted")
                    } else {
                        let (q, r) = (a / b, a % b);
                        Expect::Out(vec![r >> 32, r & M32, q >> 32, q & M32])
                    }
                }
                "and" => Expect::Out(two(a & b)),
                "or" => Expect::Out(two(a | b)),
                "xor" => Expect::Out(two(a ^ b)),
                _ => return None,
            })
        }
        Kind::Un64 => {
            if !ops.iter().all(|&x| is32(x)) {
                return Some(Expect::Undefined);
            }
            let a = (ops[0] << 32) | ops[1];
            Some(Expect::Out(vec![match name {
                "eqz" => (a == 0) as u64,
                "clz" => a.leading_zeros() as u64,
                "ctz" => a.trailing_zeros() as u64,
                "clo" => a.leading_ones() as u64,
                "cto" => a.trailing_ones() as u64,
                _ => return None,
            }]))
        }
        Kind::Shift64 => {
            if !is32(ops[1]) || !is32(ops[2]) {
                return Some(Expect::Undefined);
            }
            let b = ops[0];
            if b >= 64 {
                // "The shift value should be in the range [0, 64), otherwise it will result in an
                // error."
                // the property (C16) quantifies over shift amounts 0..63 only: out-of-range amounts are
                // outside the statement, so only "no panic" is required here
                return Some(Expect::Undefined);
            }
            let a = (ops[1] << 32) | ops[2];
            let c = match name {
                "shl" => a << b,
                "shr" => a >> b,
                "rotl" => a.rotate_left(b as u32),
                "rotr" => a.rotate_right(b as u32),
                _ => return None,
            };
            Some(Expect::Out(split(c).to_vec()))
        }
        _ => None,
    }
}

/// limbs given most-significant first (stack order) -> integer
fn big_from_top_first(l: &[u64]) -> BigUint {
    BigUint::new(l.iter().rev().map(|&x| x as u32).collect())
}

/// integer (< 2^256) -> 8 limbs, most significant first
fn big_to_top_first(v: &BigUint) -> Vec<u64> {
    let mut d: Vec<u64> = v.to_u32_digits().into_iter().map(|x| x as u64).collect();
    d.resize(8, 0);
    d.truncate(8);
    d.reverse();
    d
}

fn model_u256(name: &str, kind: Kind, ops: &[u64]) -> Option<Expect> {
    if !ops.iter().all(|&x| x <= M32) {
        return Some(Expect::Undefined);
    }
    let modulus = BigUint::from(1u8) << 256;
    match kind {
        Kind::Un256 => {
            let a = big_from_top_first(&ops[0..8]);
            match name {
                "iszero_unsafe" => Some(Expect::Out(vec![(a == BigUint::from(0u8)) as u64])),
                _ => None,
            }
        }
        Kind::Bin256 => {
            let b = big_from_top_first(&ops[0..8]);
            let a = big_from_top_first(&ops[8..16]);
            Some(Expect::Out(match name {
                "add_unsafe" => big_to_top_first(&((&a + &b) % &modulus)),
                "sub_unsafe" => big_to_top_first(&((&a + &modulus - &b) % &modulus)),
                "mul_unsafe" => big_to_top_first(&((&a * &b) % &modulus)),
                "and" => big_to_top_first(&(&a & &b)),
                "or" => big_to_top_first(&(&a | &b)),
                "xor" => big_to_top_first(&(&a ^ &b)),
                "eq_unsafe" => vec![(a == b) as u64],
                _ => return None,
            }))
        }
        _ => None,
    }
}

fn model(spec: &Spec, ops: &[u64]) -> Option<Expect> {
    match spec.module {
        "u64" => model_u64(spec.name, spec.kind, ops),
        _ => model_u256(spec.name, spec.kind, ops),
    }
}

// ONE EVALUATION
// ================================================================================================

struct Ctx<'a> {
    rep: &'a mut Report,
    rng: &'a mut Rng8,
    ok_seen: u64,
}

fn witness(spec: &Spec, class: &str, case: &Case) -> serde_json::Value {
    json!({"kind": "c16", "module": spec.module, "proc": spec.name, "class": class, "case": case.to_json()})
}

/// Runs the one-call program of `spec` on `stack` (top first: operands, then canary) and applies
/// the oracle. `key` is the coverage key of this case.
fn evaluate(spec: &Spec, prog: &Program, stack: &[u64], class: &str, key: &str, cx: &mut Ctx) {
    let ar = spec.kind.arity();
    let full = spec.full();
    let expect = match model(spec, &stack[..ar]) {
        Some(e) => e,
        None => {
            cx.rep.inconclusive(format!("no-model-for:{full}"));
            return;
        }
    };
    let rest = &stack[ar..];
    let mut case = Case::new(spec.src.clone()).with_stack(stack);
    case.stdlib = true;
    let out = case.execute(prog);
    cx.rep.count("proc", &full);
    cx.rep.count("class", &format!("{full}|{class}"));
    let oc = match &out {
        ExecOutcome::Ok(_) => "ok".to_string(),
        ExecOutcome::Err(e) => format!("err:{}", err_kind(e)),
        ExecOutcome::Panic(_) => "panic".to_string(),
    };
    cx.rep.count("outcome", &format!("{full}|{oc}"));
    let exp_tag = match &expect {
        Expect::Out(_) => "value",
        Expect::Fail(_) => "must-fail",
        Expect::Undefined => "undefined",
    };
    cx.rep.count("expectation", &format!("{}|{exp_tag}", spec.module));
    cx.rep.eval(&format!("{key}|{exp_tag}"));

    match (expect, out) {
        (_, ExecOutcome::Panic(p)) => {
            cx.rep.violation(
                format!("{full}/panic/{}", p.site()),
                format!("{full} panicked ({}) at {} on operands {:?}", p.message, p.location, &stack[..ar]),
                witness(spec, class, &case),
            );
        }
        (Expect::Out(v), ExecOutcome::Ok(mut trace)) => {
            let got: Vec<u64> = trace.stack_outputs().stack().to_vec();
            let mut want: Vec<u64> = v.clone();
            want.extend_from_slice(rest);
            let depth = want.len();
            // The VM's stack is conceptually zero-padded below its bottom and never shallower than
            // 16: a procedure that temporarily holds fewer than 16 elements pulls such zeros in and
            // pushes them back down later (u256::mul_unsafe does), which changes the VM-level depth
            // but not the stack contents. Trailing zeros are therefore not significant; a real
            // depth error shifts the (non-zero, unique) canary and is caught below.
            let trim = |v: &[u64]| -> usize { v.iter().rposition(|&x| x != 0).map(|i| i + 1).unwrap_or(0) };
            if got.len() != depth.max(16) {
                cx.rep.count("vm_depth_zero_padding", &full);
            }
            if got[..trim(&got)] != want[..trim(&want)] {
                let res_ok = got.len() >= v.len() && got[..v.len()] == v[..];
                let canary_ok = got.len() >= depth && got[v.len()..depth] == *rest;
                let (sig, what) = if !res_ok {
                    ("result-mismatch", "result limbs differ from the integer function")
                } else if !canary_ok {
                    ("canary-clobbered", "elements below the operands were modified")
                } else {
                    ("depth-mismatch", "stack depth after the call is not as documented")
                };
                cx.rep.count("mismatch_shape", &format!("{full}/{sig}|{}", operand_shape(spec.kind, &stack[..ar])));
                cx.rep.violation(
                    format!("{full}/{sig}"),
                    format!(
                        "{full}: {what}; operands(top first)={:?} expected top={:?} got top={:?} (expected depth {}, got len {})",
                        &stack[..ar],
                        &want[..v.len().min(want.len())],
                        &got[..v.len().min(got.len())],
                        depth.max(16),
                        got.len()
                    ),
                    witness(spec, class, &case),
                );
            } else {
                cx.ok_seen += 1;
                if cx.ok_seen % MONITOR_EVERY == 0 {
                    cx.rep.count("side_monitor", &full);
                    crate::props::c03::monitor_trace(&case, &mut trace, cx.rng, 1, 0, cx.rep);
                }
                if cx.rep.samples.len() < 6 && cx.ok_seen % 97 == 1 {
                    cx.rep.sample(json!({"proc": full, "class": class, "stack_top_first": stack.iter().map(|x| x.to_string()).collect::<Vec<_>>(), "result_top_first": v}));
                }
            }
        }
        (Expect::Out(v), ExecOutcome::Err(e)) => {
            cx.rep.violation(
                format!("{full}/unexpected-failure"),
                format!("{full} failed with {e} on valid operands {:?}; expected {:?}", &stack[..ar], v),
                witness(spec, class, &case),
            );
        }
        (Expect::Fail(why), ExecOutcome::Ok(trace)) => {
            let got: Vec<u64> = trace.stack_outputs().stack().iter().take(4).copied().collect();
            cx.rep.violation(
                format!("{full}/{why}"),
                format!("{full} succeeded (top of stack {:?}) on operands {:?} where the contract requires a failure", got, &stack[..ar]),
                witness(spec, class, &case),
            );
        }
        (Expect::Fail(_), ExecOutcome::Err(e)) => {
            cx.rep.count("required_failures", &format!("{full}|{}", err_kind(&e)));
        }
        (Expect::Undefined, _) => {}
    }
}

/// coarse description of an operand tuple (evidence: which operand shapes mismatched)
fn operand_shape(kind: Kind, ops: &[u64]) -> String {
    let limb = |x: u64| match x {
        0 => "0",
        1 => "1",
        M32 => "max",
        x if x > M32 => "non-u32",
        _ => "x",
    };
    let mut out = String::new();
    for (i, &x) in ops.iter().enumerate() {
        if i > 0 {
            out.push(',');
        }
        if kind == Kind::Shift64 && i == 0 {
            out.push_str(match x {
                0 => "b=0",
                1..=31 => "b<32",
                32 => "b=32",
                33..=63 => "b>32",
                _ => "b>=64",
            });
        } else {
            out.push_str(limb(x));
        }
    }
    out
}

// OPERAND GENERATION
// ================================================================================================

const L3: [u64; 3] = [0, 1, M32];

fn l9(i: usize, rng: &mut Rng8) -> u64 {
    match i {
        0 => 0,
        1 => 1,
        2 => 2,
        3 => 1 << 16,
        4 => (1 << 31) - 1,
        5 => 1 << 31,
        6 => M32 - 1,
        7 => M32,
        _ => rng.gen::<u32>() as u64,
    }
}

/// `n` unique elements that cannot be mistaken for limbs (all > 2^33)
fn canary(rng: &mut Rng8, n: usize) -> Vec<u64> {
    let mut v: Vec<u64> = vec![];
    while v.len() < n {
        let x = rng.gen_range((1u64 << 33)..P);
        if !v.contains(&x) {
            v.push(x);
        }
    }
    v
}

fn with_canary(ops: &[u64], rng: &mut Rng8, deep: bool) -> Vec<u64> {
    let mut s = ops.to_vec();
    s.extend(canary(rng, if deep { 16 } else { 8 }));
    s
}

fn rand_bits(rng: &mut Rng8) -> u64 {
    // random bit length, then random value of that length
    let bits = rng.gen_range(0..=64u32);
    if bits == 0 {
        0
    } else if bits == 64 {
        rng.gen::<u64>() | (1 << 63)
    } else {
        (rng.gen::<u64>() & ((1u64 << bits) - 1)) | (1u64 << (bits - 1))
    }
}

/// random pair (a, b) from several distributions; returns (class, a, b)
fn rand_pair(rng: &mut Rng8) -> (&'static str, u64, u64) {
    match rng.gen_range(0..10) {
        0..=2 => ("uniform", rng.gen(), rng.gen()),
        3..=4 => ("bitlen", rand_bits(rng), rand_bits(rng)),
        5 => {
            // near: b = a + small delta (wrapping)
            let a: u64 = if rng.gen_bool(0.5) { rng.gen() } else { (rng.gen::<u32>() as u64) << 32 };
            let d = rng.gen_range(0..3u64);
            ("near", a, if rng.gen_bool(0.5) { a.wrapping_add(d) } else { a.wrapping_sub(d) })
        }
        6 => {
            // a = q*b + r with r at the extremes (division boundary)
            let b = rand_bits(rng).max(1);
            let qmax = u64::MAX / b;
            let q = if qmax == u64::MAX { rand_bits(rng) } else { rand_bits(rng) % (qmax + 1) };
            let r = match rng.gen_range(0..3) {
                0 => 0,
                1 => b - 1,
                _ => rng.gen_range(0..b),
            };
            let a = (q as u128 * b as u128 + r as u128).min(u64::MAX as u128) as u64;
            ("qb+r", a, b)
        }
        7 => {
            // powers of two +-1 around limb boundaries
            let p = |rng: &mut Rng8| -> u64 {
                let k = rng.gen_range(0..64);
                match rng.gen_range(0..4) {
                    0 => 1u64 << k,
                    1 => (1u64 << k).wrapping_sub(1),
                    2 => (1u64 << k).wrapping_add(1),
                    _ => !(1u64 << k),
                }
            };
            ("pow2", p(rng), p(rng))
        }
        8 => {
            // one limb random, others boundary
            let mut l = [0u64; 4];
            for x in l.iter_mut() {
                *x = L3[rng.gen_range(0..3)];
            }
            l[rng.gen_range(0..4)] = rng.gen::<u32>() as u64;
            ("limbmix", (l[0] << 32) | l[1], (l[2] << 32) | l[3])
        }
        _ => ("small-b", rng.gen(), rng.gen_range(0..70000u64)),
    }
}

fn non_u32(rng: &mut Rng8) -> u64 {
    match rng.gen_range(0..5) {
        0 => 1 << 32,
        1 => P - 1,
        2 => (1 << 32) + 1,
        3 => 1 << 63,
        _ => rng.gen_range((1u64 << 32)..P),
    }
}

fn lz_bucket(v: u64) -> u32 {
    v.leading_zeros() / 8
}

fn run_u64_grid(spec: &Spec, prog: &Program, shard: usize, shards: usize, pi: usize, cx: &mut Ctx) {
    let full = spec.full();
    match spec.kind {
        Kind::Bin64 => {
            // 3^4 boundary cross product
            for g in 0..81usize {
                if (g + pi) % shards != shard {
                    continue;
                }
                let ops = [L3[g / 27], L3[g / 9 % 3], L3[g / 3 % 3], L3[g % 3]];
                let st = with_canary(&ops, cx.rng, g % 4 == 3);
                cx.rep.count("grid3", &full);
                evaluate(spec, prog, &st, "grid3", &format!("{full}|grid3|{g}"), cx);
            }
            // 9^4 cross product (the 9th value is a fresh random limb each time)
            for g in 0..6561usize {
                if (g + pi) % shards != shard {
                    continue;
                }
                let idx = [g / 729, g / 81 % 9, g / 9 % 9, g % 9];
                let ops = [l9(idx[0], cx.rng), l9(idx[1], cx.rng), l9(idx[2], cx.rng), l9(idx[3], cx.rng)];
                let st = with_canary(&ops, cx.rng, g % 4 == 3);
                cx.rep.count("grid9", &full);
                evaluate(spec, prog, &st, "grid9", &format!("{full}|grid9|{g}"), cx);
            }
        }
        Kind::Un64 => {
            for g in 0..9usize {
                if (g + pi) % shards != shard {
                    continue;
                }
                let ops = [L3[g / 3], L3[g % 3]];
                let st = with_canary(&ops, cx.rng, g % 4 == 3);
                cx.rep.count("grid3", &full);
                evaluate(spec, prog, &st, "grid3", &format!("{full}|grid3|{g}"), cx);
            }
            for g in 0..81usize {
                if (g + pi) % shards != shard {
                    continue;
                }
                let ops = [l9(g / 9, cx.rng), l9(g % 9, cx.rng)];
                let st = with_canary(&ops, cx.rng, g % 4 == 3);
                cx.rep.count("grid9", &full);
                evaluate(spec, prog, &st, "grid9", &format!("{full}|grid9|{g}"), cx);
            }
            // bit patterns: 1<<k, (1<<k)-1, !(1<<k), !((1<<k)-1)
            for g in 0..256usize {
                if (g + pi) % shards != shard {
                    continue;
                }
                let k = g % 64;
                let a = match g / 64 {
                    0 => 1u64 << k,
                    1 => (1u64 << k) - 1,
                    2 => !(1u64 << k),
                    _ => !((1u64 << k) - 1),
                };
                let st = with_canary(&split(a), cx.rng, g % 4 == 3);
                cx.rep.count("bitpat", &full);
                evaluate(spec, prog, &st, "bitpat", &format!("{full}|bitpat|{g}"), cx);
            }
        }
        Kind::Shift64 => {
            // all amounts 0..63 x boundary operands (9 from {0,1,2^32-1}^2 + 81 from the 9-set^2)
            for b in 0..64u64 {
                for o in 0..90usize {
                    let g = b as usize * 90 + o;
                    if (g + pi) % shards != shard {
                        continue;
                    }
                    let (hi, lo) = if o < 9 {
                        (L3[o / 3], L3[o % 3])
                    } else {
                        (l9((o - 9) / 9, cx.rng), l9((o - 9) % 9, cx.rng))
                    };
                    let st = with_canary(&[b, hi, lo], cx.rng, g % 4 == 3);
                    if o < 9 {
                        cx.rep.count("shift_grid3", &format!("{full}|{b}"));
                    }
                    cx.rep.count("shift_amount", &format!("{full}|{b}"));
                    evaluate(spec, prog, &st, "shift-grid", &format!("{full}|shift|{b}|{o}"), cx);
                }
            }
            // out-of-range amounts: the contract promises an error
            let bad = [64u64, 65, 95, 96, 127, 128, 255, 256, 1 << 16, M32, 1 << 32, (1 << 32) + 5, P - 1];
            for (bi, &b) in bad.iter().enumerate() {
                for o in 0..9usize {
                    let g = bi * 9 + o;
                    if (g + pi) % shards != shard {
                        continue;
                    }
                    let st = with_canary(&[b, L3[o / 3], L3[o % 3]], cx.rng, false);
                    evaluate(spec, prog, &st, "shift-out-of-range", &format!("{full}|shift-oor|{bi}|{o}"), cx);
                }
            }
        }
        _ => {}
    }
}

fn run_u64_random(spec: &Spec, prog: &Program, n: usize, cx: &mut Ctx) {
    let full = spec.full();
    for i in 0..n {
        let deep = i % 4 == 3;
        match spec.kind {
            Kind::Bin64 => {
                let (cls, a, b) = rand_pair(cx.rng);
                let mut ops = [b >> 32, b & M32, a >> 32, a & M32];
                let mut class = cls;
                if i % 50 == 49 {
                    // non-u32 limb: undefined (or/xor: must fail)
                    ops[cx.rng.gen_range(0..4)] = non_u32(cx.rng);
                    class = "non-u32";
                }
                let st = with_canary(&ops, cx.rng, deep);
                evaluate(spec, prog, &st, class, &format!("{full}|{class}|{}|{}", lz_bucket(a), lz_bucket(b)), cx);
            }
            Kind::Un64 => {
                let (cls, a, _) = rand_pair(cx.rng);
                let mut ops = split(a);
                let mut class = cls;
                if i % 50 == 49 {
                    ops[cx.rng.gen_range(0..2)] = non_u32(cx.rng);
                    class = "non-u32";
                }
                let st = with_canary(&ops, cx.rng, deep);
                evaluate(spec, prog, &st, class, &format!("{full}|{class}|{}", a.leading_zeros()), cx);
            }
            Kind::Shift64 => {
                let (cls, a, _) = rand_pair(cx.rng);
                let b = cx.rng.gen_range(0..64u64);
                let mut ops = [b, a >> 32, a & M32];
                let mut class = cls;
                if i % 50 == 49 {
                    ops[cx.rng.gen_range(1..3)] = non_u32(cx.rng);
                    class = "non-u32";
                }
                let st = with_canary(&ops, cx.rng, deep);
                cx.rep.count("shift_amount", &format!("{full}|{b}"));
                evaluate(spec, prog, &st, class, &format!("{full}|{class}|{b}|{}", lz_bucket(a)), cx);
            }
            _ => {}
        }
    }
}

/// 8 limbs (most significant first) from {0,1,2^32-1}^8, pattern index < 6561
fn pat3_256(g: usize) -> [u64; 8] {
    let mut l = [0u64; 8];
    let mut x = g;
    for i in (0..8).rev() {
        l[i] = L3[x % 3];
        x /= 3;
    }
    l
}

fn rand_u256(rng: &mut Rng8) -> [u64; 8] {
    let mut l = [0u64; 8];
    match rng.gen_range(0..4) {
        0 => {
            for x in l.iter_mut() {
                *x = rng.gen::<u32>() as u64;
            }
        }
        1 => {
            for x in l.iter_mut() {
                *x = l9(rng.gen_range(0..9), rng);
            }
        }
        2 => {
            // random bit length
            let bits = rng.gen_range(0..=256usize);
            for (i, x) in l.iter_mut().enumerate() {
                // limb i is most significant first: limb index from LSB = 7 - i
                let lo = (7 - i) * 32;
                if bits >= lo + 32 {
                    *x = rng.gen::<u32>() as u64;
                } else if bits > lo {
                    *x = (rng.gen::<u32>() as u64) & ((1u64 << (bits - lo)) - 1);
                }
            }
        }
        _ => {
            for x in l.iter_mut() {
                *x = L3[rng.gen_range(0..3)];
            }
            l[rng.gen_range(0..8)] = rng.gen::<u32>() as u64;
        }
    }
    l
}

const N_PARTNERS: usize = 7;

fn partner(kind: usize, x: &[u64; 8], rng: &mut Rng8) -> ([u64; 8], &'static str) {
    match kind {
        0 => ([0; 8], "zero"),
        1 => {
            let mut l = [0; 8];
            l[7] = 1;
            (l, "one")
        }
        2 => ([M32; 8], "max"),
        3 => (*x, "same"),
        4 => (pat3_256(rng.gen_range(0..6561)), "pat3"),
        5 => {
            // x with one limb changed (equality / borrow chains)
            let mut l = *x;
            let i = rng.gen_range(0..8);
            l[i] = (l[i] + 1) & M32;
            (l, "one-limb-off")
        }
        _ => (rand_u256(rng), "random"),
    }
}

fn run_u256_grid(spec: &Spec, prog: &Program, shard: usize, shards: usize, pi: usize, both_orders: bool, cx: &mut Ctx) {
    let full = spec.full();
    for g in 0..6561usize {
        if (g + pi) % shards != shard {
            continue;
        }
        let x = pat3_256(g);
        match spec.kind {
            Kind::Un256 => {
                let st = with_canary(&x, cx.rng, g % 2 == 1);
                cx.rep.count("pat3_256", &full);
                evaluate(spec, prog, &st, "pat3", &format!("{full}|pat3|{g}"), cx);
            }
            Kind::Bin256 => {
                cx.rep.count("pat3_256", &full);
                for k in 0..N_PARTNERS {
                    let (y, pname) = partner(k, &x, cx.rng);
                    let orders: &[bool] = if both_orders { &[false, true] } else if (g + k) % 2 == 0 { &[false] } else { &[true] };
                    for &swap in orders {
                        let mut ops = Vec::with_capacity(16);
                        if swap {
                            ops.extend_from_slice(&x);
                            ops.extend_from_slice(&y);
                        } else {
                            ops.extend_from_slice(&y);
                            ops.extend_from_slice(&x);
                        }
                        let st = with_canary(&ops, cx.rng, false);
                        let class = format!("pat3-x-{pname}");
                        evaluate(spec, prog, &st, &class, &format!("{full}|{class}|{g}|{swap}"), cx);
                    }
                }
            }
            _ => {}
        }
    }
}

fn run_u256_random(spec: &Spec, prog: &Program, n: usize, cx: &mut Ctx) {
    let full = spec.full();
    for i in 0..n {
        let a = rand_u256(cx.rng);
        let mut ops: Vec<u64> = vec![];
        let mut class = "random";
        if spec.kind == Kind::Bin256 {
            let b = if i % 8 == 7 { a } else { rand_u256(cx.rng) };
            ops.extend_from_slice(&b);
        }
        ops.extend_from_slice(&a);
        if i % 50 == 49 {
            let j = cx.rng.gen_range(0..ops.len());
            ops[j] = non_u32(cx.rng);
            class = "non-u32";
        }
        let st = with_canary(&ops, cx.rng, false);
        let nz = ops.iter().filter(|&&x| x != 0).count();
        evaluate(spec, prog, &st, class, &format!("{full}|{class}|{nz}"), cx);
    }
}

// DRIVER
// ================================================================================================

fn assemble(spec: &Spec) -> Result<Box<Program>, String> {
    let mut c = Case::new(spec.src.clone());
    c.stdlib = true;
    match c.assemble() {
        AsmOutcome::Ok(p) => Ok(p),
        AsmOutcome::Err(e) => Err(e),
        AsmOutcome::Panic(p) => Err(format!("panic {}", p.site())),
    }
}

pub fn meta() -> Meta {
    Meta {
        level: "exploration",
        rule: "each evaluation = one execution of the one-call program `use.std::math::M begin exec.M::PROC end` (assembled once against StdLibrary) on a stack of operand limbs + 8 (or 16) unique canary elements, whose complete final stack (result limbs, then the unmodified canary, then only zeros) was compared with native u64/u128/BigUint arithmetic, or which was required to fail (zero divisor, shift amount >= 64, non-u32 limb for or/xor); operand sources: full {0,1,2^32-1}^4 cross product, full 9-value^4 cross product, all shift amounts 0..63 x 90 boundary operands, 256 single-bit/mask patterns for unary procedures, u256: all 3^8 limb patterns x 7 partner kinds, plus random pairs from 8 distributions; distinct = distinct (procedure, operand class, grid index or leading-zero bucket, expectation kind)".into(),
        assumptions: vec![
            "Rust u64/u128 and num-bigint arithmetic are the reference integer functions".into(),
            "stack order and failure conditions are taken from docs/src/user_docs/stdlib/math/u64.md and the #! comments in stdlib/asm/math/{u64,u256}.masm; rotl/rotr are rotations (their formula line is a copy of shl's); overflowing_mul returns the 128-bit product".into(),
            "undocumented u256 procedures follow the limb order documented for u256::mul_unsafe and the u64 operand order (a below b, sub = a - b)".into(),
            "operands are sampled for the random classes; 2^128 pairs are not enumerated".into(),
        ],
    }
}

/// glibc's default malloc returns every freed trace buffer to the OS (trim / munmap); with 16
/// threads executing tiny programs this costs 5x more than the executions themselves. Keep freed
/// memory in the arenas instead. Process-global, affects performance only.
pub fn tune_allocator() {
    #[cfg(all(target_os = "linux", target_env = "gnu"))]
    {
        extern "C" {
            fn mallopt(param: i32, value: i32) -> i32;
        }
        static ONCE: std::sync::Once = std::sync::Once::new();
        ONCE.call_once(|| unsafe {
            mallopt(-1, 1 << 30); // M_TRIM_THRESHOLD
            mallopt(-2, 64 << 20); // M_TOP_PAD
            mallopt(-3, 32 << 20); // M_MMAP_THRESHOLD
        });
    }
}

pub fn run(cfg: &Cfg) -> Report {
    tune_allocator();
    let specs = all_specs();
    let mut head = Report::new();

    // the table above must cover exactly what the library exports
    for (m, path) in [("u64", "std::math::u64"), ("u256", "std::math::u256")] {
        let exp = exported(path);
        let mut mine: Vec<String> = specs.iter().filter(|s| s.module == m).map(|s| s.name.to_string()).collect();
        mine.sort();
        head.note(&format!("exports_{m}"), json!(exp));
        for e in &exp {
            if !mine.contains(e) {
                head.inconclusive(format!("exported-procedure-without-model:{m}::{e}"));
            }
        }
        for s in &mine {
            if !exp.contains(s) {
                head.inconclusive(format!("modelled-procedure-not-exported:{m}::{s}"));
            }
        }
        head.floor(!exp.is_empty(), &format!("exports-of-{m}-enumerated"));
    }

    let mut progs: Vec<Box<Program>> = vec![];
    for s in &specs {
        match assemble(s) {
            Ok(p) => progs.push(p),
            Err(e) => {
                head.inconclusive(format!("cannot-assemble:{}:{}", s.full(), crate::report::truncate(&e, 80)));
                return head;
            }
        }
    }

    let shards = 64usize;
    let n_rand_64 = cfg.n(1_000, 40_000); // per shard per procedure (x64 shards)
    let n_rand_256 = cfg.n(150, 4_000);
    let both_orders = cfg.tier == crate::report::Tier::Thorough;
    let reports = par_map(shards, |sh| {
        let mut rng = rng_for(cfg.seed, "C16", sh as u64);
        let mut rep = Report::new();
        let mut cx = Ctx { rep: &mut rep, rng: &mut rng, ok_seen: sh as u64 * 7 };
        for (pi, (spec, prog)) in specs.iter().zip(progs.iter()).enumerate() {
            if spec.module == "u64" {
                run_u64_grid(spec, prog, sh, shards, pi, &mut cx);
                run_u64_random(spec, prog, n_rand_64, &mut cx);
            } else {
                run_u256_grid(spec, prog, sh, shards, pi, both_orders, &mut cx);
                run_u256_random(spec, prog, n_rand_256, &mut cx);
            }
        }
        rep
    });
    let mut rep = merge_all(reports);
    rep.merge(head);

    // floors
    let min_evals = 2_000u64;
    for s in &specs {
        let full = s.full();
        rep.floor(rep.get_count("proc", &full) >= min_evals, &format!("{full}-exercised-{min_evals}x"));
        match s.kind {
            Kind::Bin64 => {
                rep.floor(rep.get_count("grid3", &full) == 81, &format!("{full}-all-81-boundary-pairs"));
                rep.floor(rep.get_count("grid9", &full) == 6561, &format!("{full}-all-6561-nine-value-pairs"));
            }
            Kind::Un64 => {
                rep.floor(rep.get_count("grid3", &full) == 9, &format!("{full}-all-9-boundary-operands"));
                rep.floor(rep.get_count("bitpat", &full) == 256, &format!("{full}-all-256-bit-patterns"));
            }
            Kind::Shift64 => {
                let all = (0..64).all(|b| rep.get_count("shift_grid3", &format!("{full}|{b}")) == 9);
                rep.floor(all, &format!("{full}-every-amount-0..63-x-9-boundary-operands"));
            }
            Kind::Bin256 | Kind::Un256 => {
                rep.floor(rep.get_count("pat3_256", &full) == 6561, &format!("{full}-all-6561-limb-patterns"));
            }
        }
    }
    for d in ["div", "mod", "divmod"] {
        let n: u64 = rep
            .hist
            .get("required_failures")
            .map(|h| h.iter().filter(|(k, _)| k.starts_with(&format!("u64::{d}|"))).map(|(_, v)| *v).sum())
            .unwrap_or(0);
        rep.floor(n >= 9, &format!("u64::{d}-zero-divisor-failures-observed"));
    }
    rep.floor(rep.hist_len("side_monitor") >= 20, "side-monitor-saw-20-procedures");
    rep
}

pub fn replay(v: &serde_json::Value, rep: &mut Report) {
    let (Some(module), Some(name)) = (v.get("module").and_then(|x| x.as_str()), v.get("proc").and_then(|x| x.as_str())) else {
        // a side-monitor (C03) witness: plain case
        if let Some(case) = v.get("case").and_then(Case::from_json) {
            let mut rng = rng_for(0, "C16-replay", 0);
            crate::props::c03::run_case(&case, &mut rng, rep, false);
        }
        return;
    };
    let Some(case) = v.get("case").and_then(Case::from_json) else { return };
    let Some(spec) = all_specs().into_iter().find(|s| s.module == module && s.name == name) else {
        rep.inconclusive("replay:unknown-procedure");
        return;
    };
    if case.stack.len() < spec.kind.arity() {
        rep.inconclusive("replay:stack-too-short");
        return;
    }
    let prog = match assemble(&spec) {
        Ok(p) => p,
        Err(e) => {
            rep.inconclusive(format!("replay:cannot-assemble:{e}"));
            return;
        }
    };
    let mut rng = rng_for(0, "C16-replay", 0);
    let class = v.get("class").and_then(|c| c.as_str()).unwrap_or("replay").to_string();
    let mut cx = Ctx { rep, rng: &mut rng, ok_seen: MONITOR_EVERY - 1 };
    evaluate(&spec, &prog, &case.stack, &class, &format!("{}|replay", spec.full()), &mut cx);
}
