//! C15 — the cycle limit is enforced exactly.
//!
//! Oracle: natural cycle count c comes from an unlimited run; with limit m execution must succeed
//! iff c <= m, fail with exactly CycleLimitExceeded(m) otherwise; a recording host must not observe
//! any callback at a clock > m and the callbacks seen must be a prefix of the unlimited run's;
//! non-terminating programs must stop; ExecutionOptions::new must refuse max < 64 or max < expected.

use crate::case::{exec_host, AsmOutcome, Case, ExecOutcome};
use crate::gen::{gen_case, GenCfg};
use crate::host::HostEvent;
use crate::report::{merge_all, Cfg, Meta, Report};
use crate::util::{catch, par_map, rng_for, Rng8};
use miden::ProvingOptions;
use processor::{ExecutionError, ExecutionOptions, Program};
use rand::Rng;
use serde_json::json;

pub fn meta() -> Meta {
    Meta {
        level: "exploration",
        rule: "each evaluation = one (program, inputs, limit m) run through processor::execute with a recording host; m ranges over {64, c-2, c-1, c, c+1, 2c, random} around the natural cycle count c of the same program (and up to 2^16 for non-terminating programs); distinct = distinct (program shape class, log2(c), relation of m to c)".into(),
        assumptions: vec!["the natural cycle count is taken from an unlimited run of the same real code".into()],
    }
}

fn run_limited(case: &Case, prog: &Program, m: u32) -> (ExecOutcome, Vec<HostEvent>) {
    // the expected-cycles hint must not influence the limit: rotate through hints <= m, including
    // ones whose power-of-two rounding exceeds m
    let e = match m % 4 {
        0 => 64,
        1 => m.min(1 << 20),
        2 => (m / 2 + 1).min(1 << 20),
        _ => (m - m / 8).min(1 << 20),
    };
    let opts = match ExecutionOptions::new(Some(m), e, true) {
        Ok(o) => o,
        Err(e) => panic!("options for m={m} refused: {e:?}"),
    };
    let mut host = case.host();
    let out = exec_host(prog, case.stack_inputs(), &mut host, opts);
    (out, host.events)
}

fn rel(m: u32, c: u32) -> &'static str {
    if m < c {
        if m + 1 == c {
            "m=c-1"
        } else {
            "m<c-1"
        }
    } else if m == c {
        "m=c"
    } else if m == c + 1 {
        "m=c+1"
    } else {
        "m>c+1"
    }
}

pub fn check_program(case: &Case, shape: &str, rng: &mut Rng8, rep: &mut Report) {
    let prog = match case.assemble() {
        AsmOutcome::Ok(p) => p,
        _ => {
            rep.count("outcome", "asm-fail");
            return;
        }
    };
    // unlimited reference run (tracing on, so trace decorators are observed too)
    let mut host = case.host();
    let opts = ExecutionOptions::default().with_tracing();
    let c = match exec_host(&prog, case.stack_inputs(), &mut host, opts) {
        ExecOutcome::Ok(t) => t.trace_len_summary().main_trace_len() as u32,
        _ => {
            rep.count("outcome", "exec-fail-unlimited");
            return;
        }
    };
    let full_events = host.events;
    rep.count("outcome", "ok");
    rep.count("log2_c", &format!("{}", 32 - c.leading_zeros()));
    let mut ms = vec![64u32, c.saturating_sub(2), c.saturating_sub(1), c, c + 1, c.saturating_mul(2), c.saturating_sub(rng.gen_range(0..c.max(1))), u32::MAX];
    ms.retain(|m| *m >= 64);
    ms.sort();
    ms.dedup();
    for m in ms {
        let (out, events) = run_limited(case, &prog, m);
        rep.eval(&format!("{shape}|{}|{}", 32 - c.leading_zeros(), rel(m, c)));
        rep.count("relation", rel(m, c));
        let wit = || json!({"kind": "limit", "case": case.to_json(), "limit": m, "natural_cycles": c, "shape": shape});
        match (&out, c <= m) {
            (ExecOutcome::Ok(t), true) => {
                if t.trace_len_summary().main_trace_len() as u32 != c {
                    rep.violation("cycle-count-depends-on-limit", format!("limit {m}: {} cycles vs {c} unlimited", t.trace_len_summary().main_trace_len()), wit());
                }
                if events != full_events {
                    rep.violation("events-differ-under-sufficient-limit", format!("limit {m} >= c={c} but host callbacks differ"), wit());
                }
            }
            (ExecOutcome::Ok(_), false) => {
                rep.violation(format!("limit-not-enforced/{}", rel(m, c)), format!("program needs {c} cycles but succeeded with max_cycles={m}"), wit());
            }
            (ExecOutcome::Err(ExecutionError::CycleLimitExceeded(x)), false) => {
                if *x != m {
                    rep.violation("wrong-limit-in-error", format!("CycleLimitExceeded({x}) for limit {m}"), wit());
                }
                // nothing observable after the limit; what was observed is a prefix of the full run
                if let Some(e) = events.iter().find(|e| e.clk > m) {
                    rep.violation("callback-after-limit", format!("host callback {:?} at clk {} > limit {m}", e.kind, e.clk), wit());
                }
                if events.len() > full_events.len() || events[..] != full_events[..events.len()] {
                    rep.violation("events-not-a-prefix", format!("callbacks under limit {m} are not a prefix of the unlimited run"), wit());
                }
                rep.count("rejected", rel(m, c));
            }
            (ExecOutcome::Err(e), false) => {
                rep.violation(format!("wrong-error/{}", crate::case::err_kind(e)), format!("limit {m} < c={c}: expected CycleLimitExceeded, got {e:?}"), wit());
            }
            (ExecOutcome::Err(e), true) => {
                rep.violation(format!("spurious-failure/{}/{}", rel(m, c), crate::case::err_kind(e)), format!("program needs {c} <= limit {m} but failed: {e:?}"), wit());
            }
            (ExecOutcome::Panic(p), _) => {
                rep.violation(format!("panic/{}", p.site()), format!("panic under limit {m}: {}", p.message), wit());
            }
        }
    }
    // every-limit sweep: for short programs every m in 64..=c+1 is tried through a Process whose
    // clock can be read after the stop (the sampled limits above only probe the last cycles)
    if (c <= 640 && rng.gen_bool(0.15)) || rng.gen_bool(0.01) {
        sweep_all_limits(case, &prog, c, &full_events, shape, rep);
    }
    // the limit must also be honoured through prove()
    if c > 70 && rng.gen_bool(0.05) {
        let m = c - 1;
        let eo = ExecutionOptions::new(Some(m), 64, false).unwrap();
        let po = ProvingOptions::with_96_bit_security(false).with_execution_options(eo);
        rep.count("prove_path", "tried");
        match crate::pv::prove(case, &prog, po) {
            crate::pv::ProveOutcome::Err(e) if e.contains("CycleLimitExceeded") => {}
            crate::pv::ProveOutcome::Err(e) => rep.violation("prove/wrong-error", e, json!({"kind": "limit", "case": case.to_json(), "limit": m})),
            crate::pv::ProveOutcome::Ok(..) => rep.violation("prove/limit-not-enforced", format!("prove succeeded with max_cycles={m} < c={c}"), json!({"kind": "limit", "case": case.to_json(), "limit": m})),
            crate::pv::ProveOutcome::Panic(p) => rep.violation(format!("prove/panic/{}", p.site()), p.message, json!({"kind": "limit", "case": case.to_json(), "limit": m})),
        }
    }
    if rep.samples.len() < 3 {
        rep.sample(json!({"shape": shape, "natural_cycles": c, "src": crate::report::truncate(&case.src, 200)}));
    }
}

/// Runs the program under EVERY limit m in 64..=c+1 (strided above 4096 cycles) with
/// `Process::execute`, so that the clock at which execution stopped is observable: a stop must
/// leave the clock at exactly m+1 (the advance that tripped the limit), must have executed no host
/// callback beyond clock m, must have executed every callback of the unlimited run up to clock m
/// (the step at clock m is the last one executed), and a sufficient limit must reproduce the
/// unlimited run.
fn sweep_all_limits(case: &Case, prog: &Program, c: u32, full_events: &[HostEvent], shape: &str, rep: &mut Report) {
    let stride = if c > 4096 { (c / 2048).max(1) } else { 1 };
    let mut m = 64u32;
    let mut stops = 0u64;
    while m <= c + 1 {
        let opts = ExecutionOptions::new(Some(m), 64, true).expect("valid options");
        let mut host = case.host();
        let r = catch(|| {
            let mut process = processor::Process::new(prog.kernel().clone(), case.stack_inputs(), &mut host, opts);
            let r = process.execute(prog);
            (r.map(|_| ()), process.system.clk())
        });
        let wit = || json!({"kind": "limit", "case": case.to_json(), "limit": m, "natural_cycles": c, "shape": shape});
        let events = &host.events;
        match r {
            Err(p) => rep.violation(format!("sweep/panic/{}", p.site()), format!("limit {m}: {}", p.message), wit()),
            Ok((Ok(()), clk)) => {
                if m < c {
                    rep.violation("sweep/limit-not-enforced", format!("needs {c} cycles, succeeded with max_cycles={m} (clock {clk})"), wit());
                } else if clk != c || events[..] != full_events[..] {
                    rep.violation("sweep/sufficient-limit-changes-run", format!("limit {m} >= c={c}: final clock {clk}, {} callbacks vs {}", events.len(), full_events.len()), wit());
                }
            }
            Ok((Err(ExecutionError::CycleLimitExceeded(x)), clk)) => {
                stops += 1;
                if m >= c {
                    rep.violation("sweep/spurious-limit-error", format!("needs {c} <= limit {m} but stopped"), wit());
                }
                if x != m {
                    rep.violation("sweep/wrong-limit-in-error", format!("CycleLimitExceeded({x}) for limit {m}"), wit());
                }
                if clk != m + 1 {
                    rep.violation("sweep/clock-at-stop", format!("limit {m}: clock is {clk} after the stop, expected {}", m + 1), wit());
                }
                let expect: Vec<&HostEvent> = full_events.iter().filter(|e| e.clk <= m).collect();
                if let Some(e) = events.iter().find(|e| e.clk > m) {
                    rep.violation("sweep/callback-after-limit", format!("host callback {:?} at clk {} > limit {m}", e.kind, e.clk), wit());
                } else if events.len() > expect.len() || events.iter().zip(expect.iter()).any(|(a, b)| a != *b) {
                    rep.violation("sweep/events-not-a-prefix", format!("callbacks under limit {m} are not a prefix of the unlimited run"), wit());
                } else if events.len() < expect.len() {
                    // stopped early: a step at a clock <= m was not executed although the limit allows it
                    rep.violation("sweep/stopped-before-limit", format!("limit {m}: {} of the {} callbacks at clk <= {m} were executed", events.len(), expect.len()), wit());
                }
            }
            Ok((Err(e), _)) => {
                rep.violation(format!("sweep/wrong-error/{}", crate::case::err_kind(&e)), format!("limit {m} (c={c}): {e:?}"), wit());
            }
        }
        m += stride;
    }
    rep.count("sweep", "programs");
    rep.count_n("sweep", "limits-tried", (((c + 1).saturating_sub(64)) / stride + 1) as u64);
    rep.count_n("sweep", "stops-observed", stops);
    rep.eval(&format!("sweep|{shape}|{}", 32 - c.leading_zeros()));
}

fn nonterminating(rep: &mut Report, rng: &mut Rng8) {
    let progs = [
        ("loop-push", "begin push.1 while.true push.1 end end".to_string()),
        ("loop-emit", "begin push.1 while.true emit.7 push.1 end end".to_string()),
        ("loop-mem", "begin push.1 while.true push.5 mem_store.3 mem_load.3 drop push.1 end end".to_string()),
        ("loop-nested", "begin push.1 while.true push.1 while.true push.0 end push.1 end end".to_string()),
        ("loop-call", "proc.f push.1 drop end begin push.1 while.true call.f push.1 end end".to_string()),
        ("dyn-recursion", "proc.f dynexec end begin procref.f dynexec end".to_string()),
    ];
    for (name, src) in progs {
        let case = Case::new(src);
        let prog = match case.assemble() {
            AsmOutcome::Ok(p) => p,
            AsmOutcome::Err(e) => {
                rep.count("nonterminating_asm_err", &format!("{name}:{}", crate::report::truncate(&e, 40)));
                continue;
            }
            AsmOutcome::Panic(p) => {
                rep.count("nonterminating_asm_panic", &format!("{name}:{}", p.site()));
                continue;
            }
        };
        for m in [64u32, 65, 100, 1 << 10, (1 << 12) + rng.gen_range(0..100), 1 << 16] {
            if name == "dyn-recursion" && m > 5000 {
                continue; // unbounded MAST recursion: keep the native stack use modest
            }
            let (out, events) = run_limited(&case, &prog, m);
            rep.eval(&format!("nonterminating|{name}|{m}"));
            rep.count("nonterminating", name);
            let wit = || json!({"kind": "limit", "case": case.to_json(), "limit": m, "shape": name});
            match out {
                ExecOutcome::Err(ExecutionError::CycleLimitExceeded(x)) if x == m => {
                    if let Some(e) = events.iter().find(|e| e.clk > m) {
                        rep.violation("callback-after-limit", format!("callback at clk {} > {m}", e.clk), wit());
                    }
                }
                ExecOutcome::Err(e) => rep.violation(format!("nonterminating/wrong-error/{}", crate::case::err_kind(&e)), format!("{name} with limit {m}: {e:?}"), wit()),
                ExecOutcome::Ok(_) => rep.violation("nonterminating/succeeded", format!("{name} with limit {m} succeeded"), wit()),
                ExecOutcome::Panic(p) => rep.violation(format!("nonterminating/panic/{}", p.site()), format!("{name} with limit {m}: {}", p.message), wit()),
            }
        }
    }
}

fn options_grid(rep: &mut Report) {
    let vals = [0u32, 1, 63, 64, 65, 1023, 1024, 1025, u32::MAX - 1, u32::MAX];
    // expected-cycle hints above 2^31 cannot be rounded up to a power of two; not part of the property
    let exps = [0u32, 1, 63, 64, 65, 1023, 1024, 1025, 1 << 20, 1 << 31];
    for &max in &vals {
        for &exp in &exps {
            rep.eval(&format!("options|{}|{}", max.min(66), exp.min(66)));
            rep.count("options_grid", if max < 64 { "max<64" } else if max < exp { "max<expected" } else { "valid" });
            let r = catch(|| ExecutionOptions::new(Some(max), exp, false));
            let should_fail = max < 64 || max < exp;
            let wit = json!({"kind": "options", "max": max, "expected": exp});
            match r {
                Ok(Ok(o)) => {
                    if should_fail {
                        rep.violation("options/accepted-invalid", format!("ExecutionOptions::new(Some({max}), {exp}) accepted"), wit);
                    } else if o.max_cycles() != max || o.expected_cycles() < exp.min(1 << 31) && exp <= (1 << 31) {
                        rep.violation("options/wrong-values", format!("max={} expected={} for ({max},{exp})", o.max_cycles(), o.expected_cycles()), wit);
                    }
                }
                Ok(Err(_)) => {
                    if !should_fail {
                        rep.violation("options/rejected-valid", format!("ExecutionOptions::new(Some({max}), {exp}) refused"), wit);
                    }
                }
                Err(p) => {
                    // expected_cycles.next_power_of_two() overflows for exp > 2^31: only a finding if the pair is valid
                    rep.count("options_panics", &p.site());
                    if !should_fail {
                        rep.violation(format!("options/panic/{}", p.site()), format!("ExecutionOptions::new(Some({max}), {exp}) panicked: {}", p.message), wit);
                    }
                }
            }
        }
    }
}

pub fn run(cfg: &Cfg) -> Report {
    let shards = 32;
    let per = cfg.n(120, 2500);
    let reports = par_map(shards, |sh| {
        let mut rng = rng_for(cfg.seed, "C15", sh as u64);
        let mut rep = Report::new();
        if sh == 0 {
            options_grid(&mut rep);
        }
        if sh == 1 {
            nonterminating(&mut rep, &mut rng);
        }
        for i in 0..per {
            match i % 3 {
                0 => {
                    // straight-line programs with an emit after every instruction
                    let n = rng.gen_range(30..400);
                    let mut body = String::new();
                    for k in 0..n {
                        body.push_str(&format!("push.{k} emit.{k} drop trace.{k} "));
                    }
                    check_program(&Case::new(format!("begin {body} end")), "straightline-emit", &mut rng, &mut rep);
                }
                1 => {
                    let iters = rng.gen_range(5..200);
                    let src = format!("begin push.{iters} dup.0 neq.0 while.true emit.1 sub.1 dup.0 neq.0 end drop end");
                    check_program(&Case::new(src), "counted-loop-emit", &mut rng, &mut rep);
                }
                _ => {
                    let size = rng.gen_range(15..80);
                    let gc = GenCfg::random(&mut rng, size);
                    let case = gen_case(&mut rng, &gc);
                    check_program(&case, "generated", &mut rng, &mut rep);
                }
            }
        }
        rep
    });
    let mut rep = merge_all(reports);
    rep.floor(rep.hist_len("log2_c") >= 4, "cycle-counts-over-4-powers-of-two");
    for r in ["m=c-1", "m=c", "m=c+1"] {
        rep.floor(rep.get_count("relation", r) >= 20, &format!("relation-{r}-20x"));
    }
    rep.floor(rep.get_count("nonterminating", "loop-push") >= 1, "nonterminating-programs-run");
    rep.floor(rep.get_count("sweep", "stops-observed") >= 10_000, "every-limit-sweep-10000-stops");
    rep
}

pub fn replay(v: &serde_json::Value, rep: &mut Report) {
    if v.get("kind").and_then(|k| k.as_str()) == Some("options") {
        options_grid(rep);
        return;
    }
    if let Some(case) = v.get("case").and_then(Case::from_json) {
        let mut rng = rng_for(0, "C15-replay", 0);
        check_program(&case, "replay", &mut rng, rep);
        if let (Some(m), AsmOutcome::Ok(prog)) = (v.get("limit").and_then(|l| l.as_u64()), case.assemble()) {
            let (out, _) = run_limited(&case, &prog, m as u32);
            println!("limit {m}: {}", out.class());
        }
    }
}
