//! C03 — honest execution traces satisfy the entire AIR (T-air + T-shape), for several random
//! challenge vectors in two extension fields, independently of the expected-cycles hint.

use crate::case::{AsmOutcome, Case, ExecOutcome};
use crate::gen::{gen_case, GenCfg};
use crate::report::{merge_all, Cfg, Meta, Report};
use crate::tair::{self, check_shape, check_trace_safe, op_name, opcode_at};
use crate::util::{par_map, rng_for, Rng8};
use processor::{ExecutionOptions, ExecutionTrace};
use rand::Rng;
use serde_json::json;
use vm_core::{Felt, FieldElement, QuadExtension};
use winter_math::fields::CubeExtension;
use winter_prover::Trace;

pub type Quad = QuadExtension<Felt>;
pub type Cube = CubeExtension<Felt>;

pub fn rand_quad(rng: &mut Rng8) -> Vec<Quad> {
    (0..tair::NUM_RANDS)
        .map(|_| Quad::new(Felt::new(rng.gen::<u64>() % crate::util::P), Felt::new(rng.gen::<u64>() % crate::util::P)))
        .collect()
}

pub fn rand_cube(rng: &mut Rng8) -> Vec<Cube> {
    (0..tair::NUM_RANDS)
        .map(|_| {
            Cube::new(
                Felt::new(rng.gen::<u64>() % crate::util::P),
                Felt::new(rng.gen::<u64>() % crate::util::P),
                Felt::new(rng.gen::<u64>() % crate::util::P),
            )
        })
        .collect()
}

pub fn regime(trace: &ExecutionTrace) -> &'static str {
    let s = trace.trace_len_summary();
    let c = s.chiplets_trace_len().trace_len();
    let m = s.main_trace_len();
    let r = s.range_trace_len();
    if m >= r && m >= c {
        "main"
    } else if r >= c {
        "range"
    } else {
        "chiplets"
    }
}

/// Side monitor used behind many workloads: T-shape + T-air on a finished trace.
/// `prefix` names the property that reports (signatures are `<kind>…`).
pub fn monitor_trace(
    case: &Case,
    trace: &mut ExecutionTrace,
    rng: &mut Rng8,
    n_quad: usize,
    n_cube: usize,
    rep: &mut Report,
) {
    let si = case.stack_inputs();
    for f in check_shape(trace) {
        rep.violation(f.sig(), format!("trace shape: {}", f.detail), json!({"kind": "case", "case": case.to_json()}));
    }
    // coverage: ops on rows
    {
        let main = trace.main_segment();
        let n = trace.trace_len_summary().main_trace_len();
        for row in 0..n {
            rep.count("vm_ops_rows", &op_name(opcode_at(main, row)));
        }
    }
    rep.count("regime", regime(trace));
    rep.count("trace_len", &trace.length().to_string());
    for _ in 0..n_quad {
        let r = rand_quad(rng);
        let fails = check_trace_safe::<Quad>(trace, &si, &r, 8);
        rep.count("aux_field", "quadratic");
        for f in fails {
            rep.violation(
                f.sig(),
                format!("{} constraint {} non-zero at row {} (op {}) {}", f.kind, f.idx, f.row, op_name(f.op), f.detail),
                json!({"kind": "case", "case": case.to_json(), "row": f.row}),
            );
        }
    }
    for _ in 0..n_cube {
        let r = rand_cube(rng);
        let fails = check_trace_safe::<Cube>(trace, &si, &r, 8);
        rep.count("aux_field", "cubic");
        for f in fails {
            rep.violation(
                f.sig(),
                format!("{} constraint {} non-zero at row {} (op {}) {} [cubic]", f.kind, f.idx, f.row, op_name(f.op), f.detail),
                json!({"kind": "case", "case": case.to_json(), "row": f.row}),
            );
        }
    }
}

pub fn traces_equal(a: &ExecutionTrace, b: &ExecutionTrace) -> Option<(usize, usize)> {
    let (ma, mb) = (a.main_segment(), b.main_segment());
    if ma.num_rows() != mb.num_rows() || ma.num_cols() != mb.num_cols() {
        return Some((usize::MAX, usize::MAX));
    }
    for c in 0..ma.num_cols() {
        let (ca, cb) = (ma.get_column(c), mb.get_column(c));
        for r in 0..ca.len() {
            if ca[r] != cb[r] {
                return Some((c, r));
            }
        }
    }
    None
}

/// Runs one case through the C03 oracle.
pub fn run_case(case: &Case, rng: &mut Rng8, rep: &mut Report, hints: bool) {
    let prog = match case.assemble() {
        AsmOutcome::Ok(p) => p,
        AsmOutcome::Err(_) => {
            rep.count("outcome", "asm-err");
            return;
        }
        AsmOutcome::Panic(p) => {
            rep.count("outcome", "asm-panic");
            rep.count("asm_panics", &p.site());
            return;
        }
    };
    let mut trace = match case.execute(&prog) {
        ExecOutcome::Ok(t) => t,
        ExecOutcome::Err(e) => {
            rep.count("outcome", "exec-err");
            rep.count("exec_errors", &crate::case::err_kind(&e));
            return;
        }
        ExecOutcome::Panic(p) => {
            rep.count("outcome", "exec-panic");
            rep.count("exec_panics", &p.site());
            return;
        }
    };
    rep.count("outcome", "ok");
    let key = format!("{}|{}|{}", regime(&trace), trace.length(), ops_signature(&trace));
    rep.eval(&key);
    monitor_trace(case, &mut trace, rng, 2, 1, rep);
    if hints {
        // the trace must not depend on the expected-cycles capacity hint
        let need = trace.trace_len_summary().main_trace_len() as u32;
        for mult in [1u32, 2, 8] {
            let hint = (need.max(64) * mult).next_power_of_two();
            let opts = match ExecutionOptions::new(None, hint, false) {
                Ok(o) => o,
                Err(_) => continue,
            };
            rep.count("hints", &format!("x{mult}"));
            match case.execute_with(&prog, opts) {
                ExecOutcome::Ok(t2) => {
                    if let Some((c, r)) = traces_equal(&trace, &t2) {
                        rep.violation(
                            "hint-dependence/main-trace",
                            format!("main trace differs with expected_cycles={hint} at col {c} row {r}"),
                            json!({"kind": "case", "case": case.to_json(), "hint": hint}),
                        );
                    }
                    if t2.stack_outputs().stack() != trace.stack_outputs().stack() {
                        rep.violation(
                            "hint-dependence/outputs",
                            format!("outputs differ with expected_cycles={hint}"),
                            json!({"kind": "case", "case": case.to_json(), "hint": hint}),
                        );
                    }
                }
                other => rep.violation(
                    "hint-dependence/outcome",
                    format!("execution with expected_cycles={hint}: {}", other.class()),
                    json!({"kind": "case", "case": case.to_json(), "hint": hint}),
                ),
            }
        }
    }
    rep.sample(json!({"src": crate::report::truncate(&case.src, 300), "trace_len": trace.length(), "regime": regime(&trace)}));
}

/// compact signature of which op kinds occur (distinctness key)
pub fn ops_signature(trace: &ExecutionTrace) -> String {
    let main = trace.main_segment();
    let n = trace.trace_len_summary().main_trace_len();
    let mut seen = [false; 128];
    for row in 0..n {
        seen[opcode_at(main, row) as usize] = true;
    }
    let mut s = String::new();
    for (i, b) in seen.iter().enumerate() {
        if *b {
            s.push_str(&format!("{:x}.", i));
        }
    }
    s
}

/// Directed workload: u32 arithmetic on operands that are NOT u32 values. The assembly reference
/// calls the result "undefined", but execution succeeds, so the statement of C03 ("for every
/// successful execution …") applies literally. Reported under its own signature family so that a
/// listed finding here can never hide a constraint failure on valid programs.
pub fn undefined_u32_operands(rng: &mut Rng8, rep: &mut Report) {
    let instrs = [
        "u32wrapping_add", "u32overflowing_add", "u32wrapping_add3", "u32overflowing_add3", "u32wrapping_sub", "u32overflowing_sub",
        "u32wrapping_mul", "u32overflowing_mul", "u32wrapping_madd", "u32overflowing_madd", "u32div", "u32mod", "u32divmod",
    ];
    for ins in instrs {
        for k in 0..12 {
            let big = |rng: &mut Rng8| (1u64 << 32) + (rng.gen::<u64>() % (crate::util::P - (1u64 << 32)));
            let a = if k % 3 == 0 { 1u64 << 63 } else { big(rng) };
            let b = if k % 3 == 1 { (1u64 << 32) + 1 } else { big(rng) };
            let c = big(rng);
            let case = Case::new(format!("begin {ins} end")).with_stack(&[a, b, c]);
            let prog = match case.assemble() {
                AsmOutcome::Ok(p) => p,
                _ => continue,
            };
            rep.count("undefined_u32_operands", "executed");
            if let ExecOutcome::Ok(mut trace) = case.execute(&prog) {
                let si = case.stack_inputs();
                let r = rand_quad(rng);
                let fails = check_trace_safe::<Quad>(&mut trace, &si, &r, 4);
                rep.evals(1);
                if let Some(f) = fails.first() {
                    rep.violation(
                        format!("undefined-u32-operands/{}", op_name(f.op)),
                        format!("`{ins}` on non-u32 operands executes successfully but the trace violates {} constraint {} (op {})", f.kind, f.idx, op_name(f.op)),
                        json!({"kind": "case", "case": case.to_json()}),
                    );
                }
            }
        }
    }
}

pub fn meta() -> Meta {
    Meta {
        level: "exploration",
        rule: "each evaluation = one successful execution whose full trace was checked: all 181 main + 1 aux transition constraints on every non-exempt row, all main/aux boundary assertions, for 2 random quadratic + 1 cubic challenge vectors, trace-shape rules, and equality of the main trace under 3 expected-cycle hints; distinct = distinct (padding regime, trace length, set of VM opcodes present)".into(),
        assumptions: vec![
            "ProcessorAir::evaluate_transition / get_assertions are the specification of a valid trace".into(),
            "challenges are sampled, not enumerated".into(),
        ],
    }
}

pub fn run(cfg: &Cfg) -> Report {
    let shards = 64;
    let per = cfg.n(60, 1200);
    let reports = par_map(shards, |sh| {
        let mut rng = rng_for(cfg.seed, "C03", sh as u64);
        let mut rep = Report::new();
        for i in 0..per {
            let size = match i % 4 {
                0 => rng.gen_range(3..15),
                1 => rng.gen_range(10..40),
                2 => rng.gen_range(30..90),
                _ => rng.gen_range(5..25),
            };
            let gc = GenCfg::random(&mut rng, size);
            let case = gen_case(&mut rng, &gc);
            run_case(&case, &mut rng, &mut rep, i % 3 == 0);
        }
        if sh == 0 {
            undefined_u32_operands(&mut rng, &mut rep);
        }
        if sh % 16 == 1 {
            // trace-length boundary sweep: the dominating component (cycles, chiplet rows with a
            // hasher / memory / kernel-ROM row last, range rows) lands on 2^k-2, 2^k-1, 2^k
            for c in crate::props::c01::boundary_cases(&mut rng) {
                run_case(&c, &mut rng, &mut rep, true);
                rep.count("boundary_cases", "checked");
            }
        }
        rep
    });
    let mut rep = merge_all(reports);
    let ok = rep.get_count("outcome", "ok");
    rep.floor(ok >= 50, "at-least-50-successful-executions");
    rep.floor(rep.hist_len("vm_ops_rows") >= 70, "at-least-70-vm-opcodes-on-rows");
    rep.floor(rep.hist_len("regime") >= 2, "two-padding-regimes");
    rep
}

pub fn replay(v: &serde_json::Value, rep: &mut Report) {
    if let Some(case) = v.get("case").and_then(Case::from_json) {
        let mut rng = rng_for(0, "C03-replay", 0);
        run_case(&case, &mut rng, rep, true);
    }
}
