//! C10 — serialised code and data round-trip and recompile to the same program.
//!
//! Source text is generated (every `Instruction` variant of the assembler's AST with every
//! immediate form, nested control flow, procedures with locals, docs, imports, re-exports,
//! constants), parsed with the real parser, serialised / deserialised under every
//! {imports serialised?} x {locations written+loaded?} configuration, compared under the library's
//! own notion of equality, and then the original and the round-tripped AST are compiled with the
//! same assembler configuration and executed on the same input. Library files, program info,
//! kernels, stack inputs/outputs and execution proofs are round-tripped likewise.
//!
//! The public generator items of this module (`Catalog`, `SrcGen`, `gen_program_src`,
//! `gen_module_src`, `proofs`, `vlib`, ...) are reused by C19 to obtain valid encodings to mutate.

use crate::case::{build_lib, exec_host, Case, ExecOutcome, LibSrc};
use crate::gen::{gen_case, GenCfg};
use crate::pv::{self, ProveOutcome};
use crate::report::{merge_all, truncate, Cfg, Meta, Report};
use crate::util::{biased_felt, catch, hex, par_map, rng_for, unhex, PanicInfo, Rng8, P};
use assembly::ast::{AstSerdeOptions, Instruction, ModuleAst, Node, ProcedureAst, ProgramAst};
use assembly::{
    Library, LibraryNamespace, LibraryPath, MaslLibrary, Module, ProcedureId,
    ProcedureName, Version,
};
use miden::ExecutionProof;
use processor::{ExecutionOptions, Kernel, Program, ProgramInfo, StackInputs};
use rand::seq::SliceRandom;
use rand::Rng;
use serde_json::{json, Value};
use std::collections::{BTreeMap, BTreeSet, HashSet};
use std::path::PathBuf;
use std::sync::OnceLock;
use vm_core::crypto::hash::RpoDigest;
use vm_core::utils::{ByteReader, Deserializable, Serializable, SliceReader};
use vm_core::{Felt, StackOutputs};

pub fn meta() -> Meta {
    Meta {
        level: "exploration",
        rule: "each evaluation = one (parsed AST or data value, serialisation configuration) pair: to_bytes/from_bytes (and write_into/read_from) round trip compared with == under the library's notion of equality, followed (for ASTs) by compiling original and round-tripped AST with identically configured fresh assemblers and executing both on the same random input; distinct = distinct (AST kind, imports-serialised?, locations-loaded?, size bucket, nesting depth, set of serde opcodes present) resp. (data type, shape class)".into(),
        assumptions: vec![
            "ASTs are exactly those the real parser produces from generated source text (catalog of every instruction form + random immediates + gadget programs of gen.rs); hand-built ASTs are out of scope".into(),
            "the set of serde opcodes is derived from the real deserialiser by probing every first byte; coverage floors are relative to that set".into(),
            "equality of compiled programs is MAST root + kernel + execution outcome on one random input under a 2^14 cycle limit".into(),
        ],
    }
}

// FIXED ENVIRONMENT (library, kernel) SO THAT IMPORTS RESOLVE
// ================================================================================================

pub const VLIB_ALPHA: &str = "#! alpha module of the fixed test library\n#! second line\n\n#! adds one\nexport.a0\n    push.1 add\nend\n\n#! uses two locals\nexport.a1.2\n    loc_store.0 loc_load.0 push.3 mul\nend\n\nproc.hidden\n    push.5 drop\nend\n\nexport.a2\n    exec.hidden exec.a0\n    sdepth push.16 neq while.true drop sdepth push.16 neq end\nend\n";
pub const VLIB_GAMMA: &str = "use.vlib::alpha\n\nexport.alpha::a0->ra0\n\nexport.g0\n    push.2 mul exec.alpha::a0\nend\n\nexport.g1\n    dup.0 add\nend\n";
pub const KERNEL_SRC: &str = "export.k0\n    push.7001 drop\nend\nexport.k1.2\n    push.7002 loc_store.1 padw caller dropw\nend\n";
pub const ALPHA_PROCS: [&str; 3] = ["a0", "a1", "a2"];
pub const GAMMA_PROCS: [&str; 3] = ["g0", "g1", "ra0"];
pub const U64_PROCS: [&str; 3] = ["wrapping_add", "checked_mul", "overflowing_sub"];
pub const KERNEL_PROCS: [&str; 2] = ["k0", "k1"];

pub fn vlib_src() -> LibSrc {
    LibSrc {
        namespace: "vlib".into(),
        modules: vec![
            ("vlib::alpha".into(), VLIB_ALPHA.into()),
            ("vlib::beta::gamma".into(), VLIB_GAMMA.into()),
        ],
    }
}

pub fn vlib() -> MaslLibrary {
    build_lib(&vlib_src()).expect("fixed library builds")
}

/// The Case describing (source, fixed environment, inputs) for a generated program.
pub fn env_case(src: &str, stdlib: bool, debug: bool, stack: Vec<u64>, advice: Vec<u64>) -> Case {
    Case {
        src: src.to_string(),
        kernel: Some(KERNEL_SRC.into()),
        libs: vec![vlib_src()],
        stdlib,
        debug_mode: debug,
        stack,
        advice_stack: advice,
        ..Default::default()
    }
}

// TEMPLATE CATALOG: EVERY INSTRUCTION FORM OF THE PARSER
// ================================================================================================

const SIMPLE: &[&str] = &[
    "assert", "assert_eq", "assert_eqw", "assertz", "add", "sub", "mul", "div", "neg", "inv", "add.1",
    "pow2", "exp", "ilog2", "not", "and", "or", "xor", "eq", "neq", "eqw", "lt", "lte", "gt", "gte",
    "is_odd", "ext2add", "ext2sub", "ext2mul", "ext2div", "ext2neg", "ext2inv", "u32test",
    "u32testw", "u32assert", "u32assert2", "u32assertw", "u32split", "u32cast", "u32wrapping_add",
    "u32overflowing_add", "u32overflowing_add3", "u32wrapping_add3", "u32wrapping_sub",
    "u32overflowing_sub", "u32wrapping_mul", "u32overflowing_mul", "u32overflowing_madd",
    "u32wrapping_madd", "u32div", "u32mod", "u32divmod", "u32and", "u32or", "u32xor", "u32not",
    "u32shr", "u32shl", "u32rotr", "u32rotl", "u32popcnt", "u32clz", "u32ctz", "u32clo", "u32cto",
    "u32lt", "u32lte", "u32gt", "u32gte", "u32min", "u32max", "drop", "dropw", "padw", "dup", "dupw",
    "swap", "swapw", "swapdw", "cswap", "cswapw", "cdrop", "cdropw", "sdepth", "caller", "clk",
    "mem_load", "mem_loadw", "mem_store", "mem_storew", "mem_stream", "adv_pipe", "adv_loadw", "hash",
    "hmerge", "hperm", "mtree_get", "mtree_set", "mtree_merge", "mtree_verify", "fri_ext2fold4",
    "rcomb_base", "dynexec", "dyncall", "breakpoint", "adv.push_u64div", "adv.push_ext2intt",
    "adv.push_smtget", "adv.push_smtset", "adv.push_smtpeek", "adv.push_mapval", "adv.push_mapvaln",
    "adv.push_mtnode", "adv.insert_mem", "adv.insert_hdword", "adv.insert_hperm",
    "adv.push_sig.rpo_falcon512", "debug.stack", "debug.mem", "debug.local",
];

/// Templates with typed holes `<NAME>`; see `SrcGen::hole` for the hole types.
const TEMPLATES: &[&str] = &[
    "assert.err=<E>", "assert_eq.err=<E>", "assert_eqw.err=<E>", "assertz.err=<E>", "assert.err=<CE>",
    "add.<F>", "sub.<F>", "mul.<F>", "div.<FNZ>", "exp.<F>", "exp.u<EB>", "eq.<F>", "neq.<F>",
    "u32assert.err=<E>", "u32assert2.err=<E>", "u32assertw.err=<E>", "u32assert2.err=<CE>",
    "u32wrapping_add.<U32>", "u32overflowing_add.<U32>", "u32wrapping_sub.<U32>",
    "u32overflowing_sub.<U32>", "u32wrapping_mul.<U32>", "u32overflowing_mul.<U32>",
    "u32div.<U32NZ>", "u32mod.<U32NZ>", "u32divmod.<U32NZ>", "u32shr.<SH>", "u32shl.<SH>",
    "u32rotr.<SH>", "u32rotl.<SH>", "dup.<I0_15>", "dupw.<I0_3>", "swap.<I1_15>", "swapw.<I1_3>",
    "movup.<I2_15>", "movupw.<I2_3>", "movdn.<I2_15>", "movdnw.<I2_3>", "locaddr.<LI>",
    "loc_load.<LI>", "loc_loadw.<LI>", "loc_store.<LI>", "loc_storew.<LI>", "loc_load.<CL>",
    "locaddr.<CL>", "mem_load.<U32>", "mem_loadw.<U32>", "mem_store.<U32>", "mem_storew.<U32>",
    "mem_load.<CU>", "mem_storew.<CU>", "adv_push.<AP>", "adv.push_mapval.<OFF>",
    "adv.push_mapvaln.<OFF>", "adv.insert_hdword.<DOM>", "debug.stack.<U16NZ>", "debug.mem.<U32NZ>",
    "debug.mem.<MI>", "debug.local.<U16>", "debug.local.<LI2>", "emit.<U32>", "trace.<U32>",
    "emit.<CU>", "trace.<CU>", "exec.<LP>", "call.<LP>", "procref.<LP>", "exec.<IM>", "call.<IM>",
    "procref.<IM>", "syscall.<SYS>", "call.<ROOT>", "<PUSH>",
];

const F_B: [u64; 11] = [0, 1, 2, 255, 256, 65535, 65536, (1 << 32) - 1, 1 << 32, P - 2, P - 1];
const U32_B: [u64; 6] = [0, 1, 255, 65536, (1 << 31) + 5, (1u64 << 32) - 1];

#[derive(Clone, Copy, Debug)]
pub enum Pick {
    /// j-th boundary value of every hole (lists are cycled)
    Boundary(usize),
    Random,
}

#[derive(Clone, Debug)]
pub struct Import {
    pub path: &'static str,
    pub alias: String,
    pub procs: &'static [&'static str],
    /// written as `use.path->alias`
    pub aliased: bool,
}

/// What the unit phase found broken; the random phase avoids these so that it can find *other*
/// deviations (each broken unit keeps its own specific signature).
#[derive(Clone, Debug, Default)]
pub struct Disabled {
    pub templates: HashSet<String>,
    pub features: HashSet<String>,
}

pub struct SrcGen<'r> {
    pub rng: &'r mut Rng8,
    pub locals: u32,
    pub local_procs: Vec<String>,
    pub imports: Vec<Import>,
    pub has_consts: bool,
    pub disabled: &'r Disabled,
    pub max_depth: usize,
    /// set when something was generated that must not be compiled (e.g. a huge repeat count)
    pub no_compile: bool,
    /// expanded-size accounting: `exec` inlines and `repeat` unrolls, so the compiled size of a
    /// source is the product of both; every top-level item gets a budget of expanded instructions
    pub proc_cost: Vec<u64>,
    pub spent: u64,
    pub budget: u64,
    cursor: usize,
}

fn le_hex(v: u64) -> String {
    hex(&v.to_le_bytes())
}

fn be_hex_short(v: u64) -> String {
    let h = format!("{:x}", v);
    if h.len() % 2 == 1 {
        format!("0{h}")
    } else {
        h
    }
}

pub const CONST_DECLS: &str = "const.CZ=0\nconst.CA=7\nconst.CB=CA*3+1\nconst.CL=1\nconst.CU=4294967295\nconst.CF=18446744069414584320\nconst.CH=0x0100\n";

impl<'r> SrcGen<'r> {
    pub fn new(rng: &'r mut Rng8, disabled: &'r Disabled) -> Self {
        let cursor = rng.gen_range(0..1000);
        SrcGen {
            rng,
            locals: 0,
            local_procs: vec![],
            imports: vec![],
            has_consts: false,
            disabled,
            max_depth: 3,
            no_compile: false,
            proc_cost: vec![],
            spent: 0,
            budget: 3000,
            cursor,
        }
    }

    fn pick_u(&mut self, list: &[u64], pick: Pick, lo: u64, hi_incl: u64) -> u64 {
        match pick {
            Pick::Boundary(j) => list[j % list.len()],
            Pick::Random => {
                if self.rng.gen_bool(0.3) {
                    *list.choose(self.rng).unwrap()
                } else {
                    self.rng.gen_range(lo..=hi_incl)
                }
            }
        }
    }

    fn felt_val(&mut self, pick: Pick) -> u64 {
        match pick {
            Pick::Boundary(j) => F_B[j % F_B.len()],
            Pick::Random => biased_felt(self.rng),
        }
    }

    /// number of boundary picks worth enumerating for a template
    pub fn n_boundary(tpl: &str) -> usize {
        let mut n = 1;
        let mut rest = tpl;
        while let Some(i) = rest.find('<') {
            let j = rest[i..].find('>').map(|j| i + j).unwrap_or(rest.len());
            let name = &rest[i + 1..j];
            let k = match name {
                "F" | "FNZ" => F_B.len(),
                "E" | "U32" | "U32NZ" => U32_B.len(),
                "I0_15" | "I1_15" | "I2_15" => 16,
                "I0_3" | "I1_3" | "I2_3" => 4,
                "PUSH" => N_PUSH_FORMS,
                "EB" => 5,
                "SH" | "AP" | "OFF" | "DOM" | "U16" | "U16NZ" | "MI" | "LI2" | "IM" => 4,
                _ => 2,
            };
            n = n.max(k);
            rest = &rest[j.min(rest.len() - 1) + 1..];
        }
        n
    }

    /// Value for a typed hole; None when the context cannot provide it (no locals, no imports...).
    fn hole(&mut self, name: &str, pick: Pick) -> Option<String> {
        let bj = match pick {
            Pick::Boundary(j) => j,
            Pick::Random => self.rng.gen_range(0..64),
        };
        Some(match name {
            "F" => self.felt_val(pick).to_string(),
            "FNZ" => self.felt_val(pick).max(1).to_string(),
            "E" | "U32" => self.pick_u(&U32_B, pick, 0, u32::MAX as u64).to_string(),
            "U32NZ" => self.pick_u(&U32_B, pick, 1, u32::MAX as u64).max(1).to_string(),
            "SH" => self.pick_u(&[0, 1, 16, 31], pick, 0, 31).to_string(),
            "EB" => self.pick_u(&[0, 1, 32, 63, 64], pick, 0, 64).to_string(),
            "AP" => self.pick_u(&[1, 2, 15, 16], pick, 1, 16).to_string(),
            "OFF" => self.pick_u(&[0, 1, 11, 12], pick, 0, 12).to_string(),
            "DOM" => self.pick_u(&[0, 1, 128, 255], pick, 0, 255).to_string(),
            "U16" => self.pick_u(&[0, 1, 256, 65535], pick, 0, 65535).to_string(),
            "U16NZ" => self.pick_u(&[1, 2, 256, 65535], pick, 1, 65535).to_string(),
            "I0_15" => (bj % 16).to_string(),
            "I1_15" => (1 + bj % 15).to_string(),
            "I2_15" => (2 + bj % 14).to_string(),
            "I0_3" => (bj % 4).to_string(),
            "I1_3" => (1 + bj % 3).to_string(),
            "I2_3" => (2 + bj % 2).to_string(),
            "MI" => {
                let a = self.pick_u(&[0, 1, 65536, u32::MAX as u64], pick, 0, u32::MAX as u64);
                let b = match bj % 3 {
                    0 => a,
                    1 => u32::MAX as u64,
                    _ => a + (u32::MAX as u64 - a) / 2,
                };
                format!("{a}.{b}")
            }
            "LI2" => {
                let a = self.pick_u(&[0, 1, 256, 65535], pick, 0, 65535);
                let b = match bj % 3 {
                    0 => a,
                    1 => 65535,
                    _ => a + (65535 - a) / 2,
                };
                format!("{a}.{b}")
            }
            "LI" => {
                if self.locals == 0 {
                    return None;
                }
                match pick {
                    Pick::Boundary(j) if j % 2 == 0 => "0".to_string(),
                    Pick::Boundary(_) => (self.locals - 1).to_string(),
                    Pick::Random => self.rng.gen_range(0..self.locals).to_string(),
                }
            }
            "CL" => {
                if self.locals < 2 || !self.has_consts {
                    return None;
                }
                "CL".to_string()
            }
            "CE" | "CU" => {
                if !self.has_consts {
                    return None;
                }
                ["CZ", "CA", "CB", "CU", "CH"][bj % 5].to_string()
            }
            "LP" => {
                if self.local_procs.is_empty() {
                    return None;
                }
                let i = match pick {
                    Pick::Boundary(j) => j % self.local_procs.len(),
                    Pick::Random => self.rng.gen_range(0..self.local_procs.len()),
                };
                self.local_procs[i].clone()
            }
            "IM" => {
                if self.imports.is_empty() {
                    return None;
                }
                let im = self.imports[bj % self.imports.len()].clone();
                let p = im.procs[(bj / self.imports.len().max(1)) % im.procs.len()];
                format!("{}::{}", im.alias, p)
            }
            "SYS" => {
                if bj % 4 == 3 {
                    "not_in_kernel".to_string()
                } else {
                    KERNEL_PROCS[bj % 2].to_string()
                }
            }
            "ROOT" => {
                let mut s = String::from("0x");
                for i in 0..4 {
                    let v = if bj % 2 == 0 { F_B[(bj + 3 * i) % F_B.len()] } else { biased_felt(self.rng) };
                    s.push_str(&le_hex(v));
                }
                s
            }
            "PUSH" => return self.push_form(bj),
            _ => return None,
        })
    }

    fn vals(&mut self, n: usize, max: u64) -> Vec<u64> {
        // n values <= max with at least one > max/2+... (so the list class is determined by `max`)
        let mut v: Vec<u64> = (0..n).map(|_| if max == P - 1 { biased_felt(self.rng) } else { self.rng.gen_range(0..=max) }).collect();
        let i = self.rng.gen_range(0..n);
        v[i] = max;
        v
    }

    fn push_form(&mut self, k: usize) -> Option<String> {
        let n_list = [2usize, 3, 5, 15, 16][self.rng.gen_range(0..5)];
        let join = |v: &[u64]| v.iter().map(|x| x.to_string()).collect::<Vec<_>>().join(".");
        Some(match k % N_PUSH_FORMS {
            0 => "push.0".into(),
            1 => "push.255".into(),
            2 => "push.256".into(),
            3 => "push.65535".into(),
            4 => "push.65536".into(),
            5 => "push.4294967295".into(),
            6 => "push.4294967296".into(),
            7 => format!("push.{}", P - 1),
            8 => format!("push.0x{}", be_hex_short(biased_felt(self.rng))),
            9 => "push.0x00".into(),
            10 => "push.0xffffffff00000000".into(),
            11 => format!("push.{}", join(&self.vals(n_list, 255))),
            12 => format!("push.{}", join(&self.vals(n_list, 65535))),
            13 => format!("push.{}", join(&self.vals(n_list, u32::MAX as u64))),
            14 => {
                let n = [2usize, 3, 5, 16][self.rng.gen_range(0..4)];
                format!("push.{}", join(&self.vals(n, P - 1)))
            }
            15 => format!("push.{}", join(&self.vals(4, P - 1))),
            16 => format!("push.{}", join(&self.vals(4, 255))),
            17 => {
                // long hex, big values => PushWord
                let v = self.vals(4, P - 1);
                format!("push.0x{}", v.iter().map(|x| le_hex(*x)).collect::<String>())
            }
            18 => {
                // long hex, small values => a u8/u16/u32 list of four
                let m = [255u64, 65535, u32::MAX as u64][self.rng.gen_range(0..3)];
                let v = self.vals(4, m);
                format!("push.0x{}", v.iter().map(|x| le_hex(*x)).collect::<String>())
            }
            19 => {
                // mixed decimal / short hex list
                let v = self.vals(n_list, P - 1);
                let parts: Vec<String> = v
                    .iter()
                    .enumerate()
                    .map(|(i, x)| if i % 2 == 0 { format!("0x{}", be_hex_short(*x)) } else { x.to_string() })
                    .collect();
                format!("push.{}", parts.join("."))
            }
            20 => {
                if !self.has_consts {
                    return None;
                }
                format!("push.{}", ["CZ", "CA", "CB", "CU", "CF", "CH"][self.rng.gen_range(0..6)])
            }
            21 => {
                if !self.has_consts {
                    return None;
                }
                "push.CA.3.CF.CZ.0x10".into()
            }
            22 => format!("push.{}", biased_felt(self.rng)),
            _ => format!("push.{}", self.rng.gen::<u32>()),
        })
    }

    /// Instantiates a template; None if a hole cannot be filled in this context.
    pub fn instantiate(&mut self, tpl: &str, pick: Pick) -> Option<String> {
        let mut out = String::new();
        let mut rest = tpl;
        while let Some(i) = rest.find('<') {
            out.push_str(&rest[..i]);
            let j = rest[i..].find('>')? + i;
            let v = self.hole(&rest[i + 1..j], pick)?;
            out.push_str(&v);
            rest = &rest[j + 1..];
        }
        out.push_str(rest);
        Some(out)
    }

    /// One random instruction (text) valid in the current context.
    pub fn instr(&mut self) -> String {
        for _ in 0..20 {
            let r = self.rng.gen_range(0..100);
            let tpl: &str = if r < 25 {
                SIMPLE[self.rng.gen_range(0..SIMPLE.len())]
            } else if r < 55 {
                self.cursor += 1;
                let all = SIMPLE.len() + TEMPLATES.len();
                let k = self.cursor % all;
                if k < SIMPLE.len() {
                    SIMPLE[k]
                } else {
                    TEMPLATES[k - SIMPLE.len()]
                }
            } else {
                TEMPLATES[self.rng.gen_range(0..TEMPLATES.len())]
            };
            if self.disabled.templates.contains(tpl) {
                continue;
            }
            let pick = if self.rng.gen_bool(0.4) { Pick::Boundary(self.rng.gen_range(0..64)) } else { Pick::Random };
            if let Some(s) = self.instantiate(tpl, pick) {
                return s;
            }
        }
        "swap".into()
    }

    fn sep(&mut self) -> &'static str {
        match self.rng.gen_range(0..10) {
            0..=4 => "\n    ",
            5..=7 => " ",
            8 => "   # a comment\n",
            _ => "\n\n        ",
        }
    }

    /// A body of about `n` instructions with nested control flow.
    pub fn body(&mut self, n: usize, depth: usize) -> String {
        self.body_m(n, depth, 1)
    }

    fn instr_cost(&self, text: &str) -> u64 {
        if let Some(name) = text.strip_prefix("exec.") {
            if let Some(i) = self.local_procs.iter().position(|p| p == name) {
                return self.proc_cost.get(i).copied().unwrap_or(1).max(1);
            }
        }
        1
    }

    fn body_m(&mut self, n: usize, depth: usize, mult: u64) -> String {
        let mut out = String::new();
        let mut i = 0;
        while i < n.max(1) {
            let flow = depth < self.max_depth && self.rng.gen_bool(0.15);
            if flow {
                let inner = self.rng.gen_range(1..=(n / 2).clamp(1, 5));
                match self.rng.gen_range(0..8) {
                    0..=1 => {
                        let t = self.body_m(inner, depth + 1, mult);
                        let e = self.body_m(inner, depth + 1, mult);
                        out.push_str(&format!("if.true{}{t}else{}{e}end", self.sep(), self.sep()));
                    }
                    2 => {
                        let t = self.body_m(inner, depth + 1, mult);
                        out.push_str(&format!("if.true{}{t}end", self.sep()));
                    }
                    3..=4 => {
                        let b = self.body_m(inner, depth + 1, mult);
                        out.push_str(&format!("while.true{}{b}end", self.sep()));
                    }
                    _ => {
                        let (cnt, m) = match self.rng.gen_range(0..12) {
                            0 if self.has_consts => ("CA".to_string(), 7),
                            1 if !self.disabled.features.contains("repeat-big") => {
                                // exercises the u32 width of the counter; unrolling it is not an option
                                self.no_compile = true;
                                (["65536", "4294967295", "16777217"][self.rng.gen_range(0..3)].to_string(), 1)
                            }
                            _ => {
                                let c = self.rng.gen_range(1..5u64);
                                (c.to_string(), c)
                            }
                        };
                        let b = self.body_m(inner, depth + 1, mult * m);
                        out.push_str(&format!("repeat.{cnt}{}{b}end", self.sep()));
                    }
                }
                i += inner;
            } else {
                let mut t = self.instr();
                let mut c = self.instr_cost(&t) * mult;
                if self.spent + c > self.budget {
                    t = "swap".into();
                    c = mult;
                }
                self.spent += c;
                out.push_str(&t);
                i += 1;
            }
            out.push_str(self.sep());
            if self.spent >= self.budget {
                break;
            }
        }
        out
    }

    fn doc_lines(&mut self) -> String {
        let n = self.rng.gen_range(1..4);
        let words = ["Returns", "the", "sum", "of", "inputs", "[a, b, ...]", "->", "cycles: 12", "é ü", "0x00", "#", "stack"];
        (0..n)
            .map(|_| {
                let k = self.rng.gen_range(0..6);
                let w: Vec<&str> = (0..k).map(|_| *words.choose(self.rng).unwrap()).collect();
                format!("#! {}\n", w.join(" "))
            })
            .collect()
    }

    fn pick_imports(&mut self, stdlib: bool) -> String {
        let mut s = String::new();
        self.imports.clear();
        let alias_ok = !self.disabled.features.contains("import-alias") && !self.disabled.features.contains("module-import-alias");
        let mut cands: Vec<(&'static str, &'static str, &'static [&'static str])> =
            vec![("vlib::alpha", "alpha", &ALPHA_PROCS), ("vlib::beta::gamma", "gamma", &GAMMA_PROCS)];
        if stdlib {
            cands.push(("std::math::u64", "u64", &U64_PROCS));
        }
        for (path, last, procs) in cands {
            if self.rng.gen_bool(0.7) {
                let aliased = alias_ok && self.rng.gen_bool(0.35);
                let alias = if aliased { format!("{}_al{}", last, self.rng.gen_range(0..9)) } else { last.to_string() };
                if aliased {
                    s.push_str(&format!("use.{path}->{alias}\n"));
                } else {
                    s.push_str(&format!("use.{path}\n"));
                }
                self.imports.push(Import { path, alias, procs, aliased });
            }
        }
        s
    }

    fn locals_choice(&mut self) -> u32 {
        match self.rng.gen_range(0..12) {
            0..=3 => 0,
            4..=8 => self.rng.gen_range(1..9),
            9 => 255,
            10 => 256,
            _ => 65535,
        }
    }
}

pub const N_PUSH_FORMS: usize = 24;

/// Random program source (imports, constants, procedures with locals, nested body).
pub fn gen_program_src(rng: &mut Rng8, disabled: &Disabled, stdlib: bool, size: usize) -> (String, bool) {
    let mut g = SrcGen::new(rng, disabled);
    g.max_depth = g.rng.gen_range(1..5);
    let mut src = String::new();
    if g.rng.gen_bool(0.2) {
        src.push_str("# plain comment at the top\n");
    }
    src.push_str(&g.pick_imports(stdlib));
    if g.rng.gen_bool(0.7) {
        src.push_str(CONST_DECLS);
        g.has_consts = true;
    }
    let np = g.rng.gen_range(0..5);
    for i in 0..np {
        let name = match g.rng.gen_range(0..4) {
            0 => format!("p{i}"),
            1 => format!("proc_with_a_long_name_{i}"),
            2 => format!("P{i}x"),
            _ => format!("f_{i}"),
        };
        g.locals = g.locals_choice();
        if g.rng.gen_bool(0.3) {
            src.push_str(&g.doc_lines());
        }
        let decl = if g.locals > 0 || g.rng.gen_bool(0.1) { format!("proc.{name}.{}", g.locals) } else { format!("proc.{name}") };
        let n = g.rng.gen_range(1..(size / 2).max(2));
        g.spent = 0;
        let b = g.body(n, 1);
        src.push_str(&format!("{decl}\n    {b}\nend\n\n"));
        g.local_procs.push(name);
        g.proc_cost.push(g.spent);
    }
    g.locals = 0;
    g.spent = 0;
    let b = g.body(size, 0);
    src.push_str(&format!("begin\n    {b}\nend\n"));
    (src, g.no_compile)
}

/// Random library-module source (module docs, imports, constants, re-exports, exported and
/// internal procedures with docs and locals). Returns the source and whether it may be compiled.
pub fn gen_module_src(rng: &mut Rng8, disabled: &Disabled, stdlib: bool, size: usize) -> (String, bool) {
    let mut g = SrcGen::new(rng, disabled);
    g.max_depth = g.rng.gen_range(1..4);
    let mut src = String::new();
    if g.rng.gen_bool(0.6) && !disabled.features.contains("module-docs") {
        src.push_str(&g.doc_lines());
        src.push('\n');
    }
    src.push_str(&g.pick_imports(stdlib));
    if g.rng.gen_bool(0.7) {
        src.push_str(CONST_DECLS);
        g.has_consts = true;
    }
    let mut n_exports = 0;
    // re-exports
    if !disabled.features.contains("module-reexport") {
        let ims = g.imports.clone();
        for (k, im) in ims.iter().enumerate() {
            if g.rng.gen_bool(0.5) {
                let p = im.procs[g.rng.gen_range(0..im.procs.len())];
                if g.rng.gen_bool(0.4) {
                    src.push_str(&g.doc_lines());
                }
                if g.rng.gen_bool(0.5) && !disabled.features.contains("module-reexport-alias") {
                    src.push_str(&format!("export.{}::{}->re_{}_{}\n\n", im.alias, p, k, p));
                } else {
                    src.push_str(&format!("export.{}::{}\n\n", im.alias, p));
                }
                n_exports += 1;
            }
        }
    }
    let np = g.rng.gen_range(1..6);
    for i in 0..np {
        let export = g.rng.gen_bool(0.6) || (i == np - 1 && n_exports == 0);
        let name = if export { format!("e{i}") } else { format!("i{i}") };
        g.locals = g.locals_choice();
        if g.rng.gen_bool(0.5) && !disabled.features.contains("proc-docs") {
            src.push_str(&g.doc_lines());
        }
        let kw = if export { "export" } else { "proc" };
        let decl = if g.locals > 0 { format!("{kw}.{name}.{}", g.locals) } else { format!("{kw}.{name}") };
        let n = g.rng.gen_range(1..size.max(2));
        g.spent = 0;
        let b = g.body(n, 1);
        src.push_str(&format!("{decl}\n    {b}\nend\n\n"));
        g.local_procs.push(name);
        g.proc_cost.push(g.spent);
        if export {
            n_exports += 1;
        }
    }
    (src, g.no_compile)
}

// AST WALKING, SERDE OPCODE TABLE (DERIVED FROM THE REAL DESERIALISER)
// ================================================================================================

pub fn variant_name(i: &Instruction) -> String {
    let d = format!("{:?}", i);
    d.split(|c: char| c == '(' || c == ' ' || c == '{').next().unwrap_or("").to_string()
}

/// Calls `f(node, depth)` for every node, depth-first.
pub fn walk(nodes: &[Node], depth: usize, f: &mut dyn FnMut(&Node, usize)) {
    for n in nodes {
        f(n, depth);
        match n {
            Node::Instruction(_) => {}
            Node::IfElse { true_case, false_case } => {
                walk(true_case.nodes(), depth + 1, f);
                walk(false_case.nodes(), depth + 1, f);
            }
            Node::Repeat { body, .. } | Node::While { body } => walk(body.nodes(), depth + 1, f),
        }
    }
}

#[derive(Default, Clone)]
pub struct AstStats {
    pub nodes: usize,
    pub depth: usize,
    pub opcodes: BTreeSet<u8>,
    pub hist: BTreeMap<String, u64>,
    pub imm: BTreeMap<String, u64>,
}

impl AstStats {
    pub fn add_nodes(&mut self, nodes: &[Node]) {
        walk(nodes, 0, &mut |n, d| {
            self.nodes += 1;
            self.depth = self.depth.max(d);
            match n {
                Node::Instruction(i) => {
                    let name = variant_name(i);
                    let b = catch(|| i.to_bytes()).unwrap_or_default();
                    match b.first() {
                        Some(op) => {
                            self.opcodes.insert(*op);
                            *self.hist.entry(format!("{:03}:{name}", op)).or_default() += 1;
                            if b.len() > 1 {
                                let key = match i {
                                    Instruction::AdvInject(_) => format!("AdvInject:sub{}:len{}", b[1], b.len()),
                                    Instruction::Debug(_) => format!("Debug:sub{}:len{}", b[1], b.len()),
                                    _ => format!("{name}:len{}", b.len()),
                                };
                                *self.imm.entry(key).or_default() += 1;
                            }
                        }
                        None => {
                            *self.hist.entry(format!("---:{name}(not encoded)")).or_default() += 1;
                        }
                    }
                }
                Node::IfElse { false_case, .. } => {
                    self.opcodes.insert(253);
                    *self.hist.entry("253:IfElse".into()).or_default() += 1;
                    let k = if false_case.nodes().is_empty() { "IfElse:no-else" } else { "IfElse:else" };
                    *self.imm.entry(k.into()).or_default() += 1;
                }
                Node::Repeat { times, .. } => {
                    self.opcodes.insert(254);
                    *self.hist.entry("254:Repeat".into()).or_default() += 1;
                    let k = if *times > 65535 { "Repeat:times>u16" } else { "Repeat:times<=u16" };
                    *self.imm.entry(k.into()).or_default() += 1;
                }
                Node::While { .. } => {
                    self.opcodes.insert(255);
                    *self.hist.entry("255:While".into()).or_default() += 1;
                }
            }
        });
    }
    pub fn of_program(ast: &ProgramAst) -> Self {
        let mut s = AstStats::default();
        s.add_nodes(ast.body().nodes());
        for p in ast.procedures() {
            s.add_nodes(p.body.nodes());
        }
        s
    }
    pub fn of_module(ast: &ModuleAst) -> Self {
        let mut s = AstStats::default();
        for p in ast.procs() {
            s.add_nodes(p.body.nodes());
        }
        s
    }
    pub fn flush(&self, rep: &mut Report) {
        for (k, v) in &self.hist {
            rep.count_n("serde_opcode", k, *v);
        }
        for (k, v) in &self.imm {
            rep.count_n("imm_form", k, *v);
        }
    }
    pub fn key(&self) -> String {
        let mut h: u64 = 0xcbf29ce484222325;
        for b in &self.opcodes {
            h ^= *b as u64;
            h = h.wrapping_mul(0x100000001b3);
        }
        let bucket = match self.nodes {
            0..=3 => "xs",
            4..=15 => "s",
            16..=63 => "m",
            _ => "l",
        };
        format!("{bucket}|d{}|ops{:x}", self.depth, h)
    }
}

/// The opcodes the real `Node` deserialiser accepts as a first byte, found by probing: byte `b`
/// followed by 0x01 (or 0x00) filler decodes (the filler is a valid immediate for every opcode:
/// counts of 257 `assert.err=16843009` nodes, Felt 0x0101010101010101 < p, sub-opcode 1 or 0, ...).
pub fn valid_opcodes() -> &'static Vec<u8> {
    static V: OnceLock<Vec<u8>> = OnceLock::new();
    V.get_or_init(|| {
        (0..=255u8)
            .filter(|b| {
                [1u8, 0u8].iter().any(|fill| {
                    let mut bytes = vec![*b];
                    bytes.extend(std::iter::repeat(*fill).take(8192));
                    matches!(catch(|| Node::read_from_bytes(&bytes)), Ok(Ok(_)))
                })
            })
            .collect()
    })
}

/// Sub-opcodes accepted after `prefix` (the AdvInject / Debug opcode byte).
pub fn valid_subcodes(prefix: u8) -> Vec<u8> {
    (0..=255u8)
        .filter(|b| {
            [1u8, 0u8].iter().any(|fill| {
                let mut bytes = vec![prefix, *b];
                bytes.extend(std::iter::repeat(*fill).take(64));
                matches!(catch(|| Node::read_from_bytes(&bytes)), Ok(Ok(_)))
            })
        })
        .collect()
}

// ROUND-TRIP CHECKS OF ASTS
// ================================================================================================

#[derive(Clone, Debug)]
pub struct Fail {
    /// stable kind, e.g. `imports=1,locs=0/decode-err`
    pub kind: String,
    pub detail: String,
}

/// `kind` arrives as `<cfg>/<api>/<class...>` or `<cfg>/<class...>`; the signature keeps only the
/// class (one defect = one signature whatever configuration exposes it), the detail keeps all.
fn fail(kind: impl Into<String>, detail: impl Into<String>) -> Fail {
    let kind: String = kind.into();
    let class: Vec<&str> = kind.split('/').filter(|p| !p.starts_with("imports=") && *p != "from_bytes" && *p != "read_from").collect();
    Fail { kind: class.join("/"), detail: format!("[{kind}] {}", detail.into()) }
}

fn cleared_proc(p: &ProcedureAst) -> ProcedureAst {
    let mut q = p.clone();
    q.clear_locations();
    q
}

/// ProgramAst has no `clear_locations()`: compare its parts the way `==` would after clearing.
fn program_eq_ignoring_locations(a: &ProgramAst, b: &ProgramAst) -> bool {
    a.body() == b.body()
        && a.import_info() == b.import_info()
        && a.procedures().len() == b.procedures().len()
        && a.procedures().iter().zip(b.procedures()).all(|(x, y)| cleared_proc(x) == cleared_proc(y))
}

pub const CONFIGS: [(bool, bool); 4] = [(true, true), (true, false), (false, true), (false, false)];

/// Round-trips a ProgramAst under the four configurations; returns the failures and the
/// round-tripped ASTs (ready to compile: import info restored) per configuration.
pub fn roundtrip_program(ast: &ProgramAst, rep: &mut Report, key: &str) -> (Vec<Fail>, Vec<((bool, bool), ProgramAst)>) {
    let mut fails = vec![];
    let mut outs = vec![];
    for (imports, locs) in CONFIGS {
        let cfg = format!("imports={},locs={}", imports as u8, locs as u8);
        rep.eval(&format!("program|{cfg}|{key}"));
        rep.count("ast_config", &format!("program|{cfg}"));
        let opts = AstSerdeOptions::new(imports);
        // encode: to_bytes and write_into must agree
        let enc = catch(|| {
            let a = ast.to_bytes(opts);
            let mut b = vec![];
            ast.write_into(&mut b, opts);
            let mut l = vec![];
            ast.write_source_locations(&mut l);
            (a, b, l)
        });
        let (bytes, bytes2, locbytes) = match enc {
            Ok(x) => x,
            Err(p) => {
                fails.push(fail(format!("{cfg}/encode-panic/{}", p.site()), p.message));
                continue;
            }
        };
        if bytes != bytes2 {
            fails.push(fail(format!("{cfg}/to_bytes-vs-write_into"), "to_bytes and write_into differ"));
        }
        // decode A: from_bytes + separate location buffer
        let dec = catch(|| -> Result<(ProgramAst, bool), String> {
            let mut a = ProgramAst::from_bytes(&bytes).map_err(|e| format!("from_bytes: {e}"))?;
            let mut left = false;
            if locs {
                let mut r = SliceReader::new(&locbytes);
                a.load_source_locations(&mut r).map_err(|e| format!("load_source_locations: {e}"))?;
                left = r.has_more_bytes();
            }
            Ok((a, left))
        });
        // decode B: read_from on one concatenated buffer
        let dec_b = catch(|| -> Result<(ProgramAst, bool), String> {
            let mut all = bytes.clone();
            all.extend_from_slice(&locbytes);
            let mut r = SliceReader::new(&all);
            let mut a = ProgramAst::read_from(&mut r).map_err(|e| format!("read_from: {e}"))?;
            if locs {
                a.load_source_locations(&mut r).map_err(|e| format!("load_source_locations: {e}"))?;
                Ok((a, r.has_more_bytes()))
            } else {
                Ok((a, false))
            }
        });
        for (api, d) in [("from_bytes", dec), ("read_from", dec_b)] {
            match d {
                Err(p) => fails.push(fail(format!("{cfg}/{api}/decode-panic/{}", p.site()), p.message)),
                Ok(Err(e)) => fails.push(fail(format!("{cfg}/{api}/decode-err"), e)),
                Ok(Ok((rt, leftover))) => {
                    if leftover {
                        fails.push(fail(format!("{cfg}/{api}/location-bytes-left-over"), "location stream not fully consumed"));
                    }
                    let rt = if imports {
                        rt
                    } else {
                        if !rt.import_info().is_empty() {
                            fails.push(fail(format!("{cfg}/{api}/imports-present"), "imports were not serialised but are present"));
                            continue;
                        }
                        match catch(|| rt.with_import_info(ast.import_info().clone())) {
                            Ok(x) => x,
                            Err(p) => {
                                fails.push(fail(format!("{cfg}/{api}/with_import_info-panic"), p.message));
                                continue;
                            }
                        }
                    };
                    let equal = if locs { &rt == ast } else { program_eq_ignoring_locations(&rt, ast) };
                    if !equal {
                        let what = if rt.import_info() != ast.import_info() {
                            "import-info"
                        } else if rt.body().nodes() != ast.body().nodes() {
                            "body-nodes"
                        } else if !program_eq_ignoring_locations(&rt, ast) {
                            "procedures"
                        } else {
                            "locations"
                        };
                        fails.push(fail(format!("{cfg}/{api}/not-equal/{what}"), format!("round-tripped ProgramAst differs in {what}")));
                    }
                    // re-encoding must be a fixed point
                    if let Ok(b2) = catch(|| rt.to_bytes(opts)) {
                        if b2 != bytes {
                            fails.push(fail(format!("{cfg}/{api}/reencode-differs"), "to_bytes(from_bytes(b)) != b"));
                        }
                    }
                    if api == "from_bytes" {
                        outs.push(((imports, locs), rt));
                    }
                }
            }
        }
    }
    (fails, outs)
}

pub fn roundtrip_module(ast: &ModuleAst, rep: &mut Report, key: &str) -> (Vec<Fail>, Vec<((bool, bool), ModuleAst)>) {
    let mut fails = vec![];
    let mut outs = vec![];
    for (imports, locs) in CONFIGS {
        let cfg = format!("imports={},locs={}", imports as u8, locs as u8);
        rep.eval(&format!("module|{cfg}|{key}"));
        rep.count("ast_config", &format!("module|{cfg}"));
        let opts = AstSerdeOptions::new(imports);
        let enc = catch(|| {
            let a = ast.to_bytes(opts);
            let mut b = vec![];
            ast.write_into(&mut b, opts);
            let mut l = vec![];
            ast.write_source_locations(&mut l);
            (a, b, l)
        });
        let (bytes, body, locbytes) = match enc {
            Ok(x) => x,
            Err(p) => {
                fails.push(fail(format!("{cfg}/encode-panic/{}", p.site()), p.message));
                continue;
            }
        };
        if bytes.len() != body.len() + 1 || bytes[1..] != body[..] {
            fails.push(fail(format!("{cfg}/to_bytes-vs-write_into"), "to_bytes is not header + write_into"));
        }
        let dec = catch(|| -> Result<(ModuleAst, bool), String> {
            let mut a = ModuleAst::from_bytes(&bytes).map_err(|e| format!("from_bytes: {e}"))?;
            let mut left = false;
            if locs {
                let mut r = SliceReader::new(&locbytes);
                a.load_source_locations(&mut r).map_err(|e| format!("load_source_locations: {e}"))?;
                left = r.has_more_bytes();
            }
            Ok((a, left))
        });
        let dec_b = catch(|| -> Result<(ModuleAst, bool), String> {
            let mut all = body.clone();
            all.extend_from_slice(&locbytes);
            let mut r = SliceReader::new(&all);
            let mut a = ModuleAst::read_from(&mut r, opts).map_err(|e| format!("read_from: {e}"))?;
            if locs {
                a.load_source_locations(&mut r).map_err(|e| format!("load_source_locations: {e}"))?;
                Ok((a, r.has_more_bytes()))
            } else {
                Ok((a, false))
            }
        });
        for (api, d) in [("from_bytes", dec), ("read_from", dec_b)] {
            match d {
                Err(p) => fails.push(fail(format!("{cfg}/{api}/decode-panic/{}", p.site()), p.message)),
                Ok(Err(e)) => fails.push(fail(format!("{cfg}/{api}/decode-err"), e)),
                Ok(Ok((rt, leftover))) => {
                    if leftover {
                        fails.push(fail(format!("{cfg}/{api}/location-bytes-left-over"), "location stream not fully consumed"));
                    }
                    let rt = if imports {
                        rt
                    } else {
                        if !rt.import_info().is_empty() {
                            fails.push(fail(format!("{cfg}/{api}/imports-present"), "imports were not serialised but are present"));
                            continue;
                        }
                        match catch(|| rt.with_import_info(ast.import_info().clone())) {
                            Ok(x) => x,
                            Err(p) => {
                                fails.push(fail(format!("{cfg}/{api}/with_import_info-panic"), p.message));
                                continue;
                            }
                        }
                    };
                    let equal = if locs {
                        &rt == ast
                    } else {
                        let mut c = ast.clone();
                        c.clear_locations();
                        rt == c
                    };
                    if !equal {
                        let what = if rt.import_info() != ast.import_info() {
                            "import-info"
                        } else if rt.docs() != ast.docs() {
                            "docs"
                        } else if rt.reexported_procs() != ast.reexported_procs() {
                            "reexports"
                        } else {
                            "procedures-or-locations"
                        };
                        fails.push(fail(format!("{cfg}/{api}/not-equal/{what}"), format!("round-tripped ModuleAst differs in {what}")));
                    }
                    if let Ok(b2) = catch(|| rt.to_bytes(opts)) {
                        if b2 != bytes {
                            fails.push(fail(format!("{cfg}/{api}/reencode-differs"), "to_bytes(from_bytes(b)) != b"));
                        }
                    }
                    if api == "from_bytes" {
                        outs.push(((imports, locs), rt));
                    }
                }
            }
        }
    }
    (fails, outs)
}

// COMPILE + EXECUTE COMPARISON
// ================================================================================================

/// Outcome of compile (+ execute) reduced to what must be equal between original and round trip.
#[derive(Clone, Debug, PartialEq, Eq)]
pub struct Built {
    pub compile: String,
    pub exec: String,
}

fn exec_opts() -> ExecutionOptions {
    ExecutionOptions::new(Some(1 << 14), 64, false).expect("options")
}

fn exec_class(case: &Case, prog: &Program) -> String {
    match exec_host(prog, case.stack_inputs(), case.host(), exec_opts()) {
        ExecOutcome::Ok(t) => {
            let o = t.stack_outputs();
            format!("ok:{:?}|{:?}", o.stack(), o.overflow_addrs())
        }
        ExecOutcome::Err(e) => format!("err:{e:?}"),
        ExecOutcome::Panic(p) => format!("panic:{}", p.site()),
    }
}

/// Compiles `ast` with a fresh assembler configured from `case` and executes it on the case's inputs.
pub fn build(case: &Case, ast: &ProgramAst, execute: bool) -> Built {
    let r = catch(|| -> Result<Program, String> {
        let asm = case.assembler()?;
        asm.compile_ast(ast).map_err(|e| e.to_string())
    });
    match r {
        Ok(Ok(p)) => {
            let compile = format!("ok:{}|kernel:{}", hex(&p.hash().as_bytes()), hex(&p.kernel().to_bytes()));
            let exec = if execute { exec_class(case, &p) } else { "skipped".into() };
            Built { compile, exec }
        }
        Ok(Err(e)) => Built { compile: format!("err:{e}"), exec: "-".into() },
        Err(p) => Built { compile: format!("panic:{}", p.site()), exec: "-".into() },
    }
}

fn class_of(s: &str) -> &str {
    s.split(':').next().unwrap_or("")
}

/// Full check of one program source in the fixed environment. Returns false if it did not parse.
pub fn check_program_src(case: &Case, compile: bool, sig_prefix: &str, rep: &mut Report) -> Option<AstStats> {
    let ast = match catch(|| ProgramAst::parse(&case.src)) {
        Ok(Ok(a)) => a,
        Ok(Err(e)) => {
            rep.count("parse", "program-err");
            rep.count("parse_err", &truncate(&format!("{e}"), 60));
            return None;
        }
        Err(p) => {
            rep.count("parse", &format!("program-panic:{}", p.site()));
            return None;
        }
    };
    rep.count("parse", "program-ok");
    let stats = AstStats::of_program(&ast);
    stats.flush(rep);
    let wit = |extra: &str| json!({"kind": "program", "case": case.to_json(), "compile": compile, "sig_prefix": sig_prefix, "note": extra});
    let (fails, outs) = roundtrip_program(&ast, rep, &stats.key());
    let mut seen = HashSet::new();
    for f in &fails {
        // one-at-a-time units: the first failure names the defect, the rest are its echoes
        if (!sig_prefix.is_empty() && !seen.is_empty()) || !seen.insert(f.kind.clone()) {
            rep.count("secondary_failures_not_reported_separately", &f.kind);
            continue;
        }
        rep.violation(format!("{sig_prefix}program-ast/{}", f.kind), format!("{} :: src: {}", f.detail, truncate(&case.src, 300)), wit(&f.kind));
    }
    if compile {
        // `adv.insert_mem` sizes a host-side allocation from two stack values (observed: a
        // 133 GB request => process abort); with random stacks such programs are compiled only.
        let execute = !case.src.contains("adv.insert_mem");
        let base = build(case, &ast, execute);
        rep.count("compile", class_of(&base.compile));
        rep.count("exec", class_of(&base.exec));
        // not C10's business (both sides behave alike), but worth showing in the evidence
        if base.compile.starts_with("panic:") {
            rep.count("side_observation_assembler_panic_site", &base.compile[6..]);
        }
        if base.exec.starts_with("panic:") {
            rep.count("side_observation_processor_panic_site", &base.exec[6..]);
        }
        for ((imports, locs), rt) in &outs {
            // two of the four configurations are enough for the (costly) compile comparison
            if imports != locs {
                continue;
            }
            let b = build(case, rt, execute);
            rep.count("compile_compared", class_of(&b.compile));
            if b.compile != base.compile {
                rep.violation(
                    format!("{sig_prefix}program-ast/compile-differs/{}-vs-{}", class_of(&base.compile), class_of(&b.compile)),
                    format!("[imports={},locs={}] original: {} / round-tripped: {}", *imports as u8, *locs as u8, truncate(&base.compile, 200), truncate(&b.compile, 200)),
                    wit("compile"),
                );
            } else if b.exec != base.exec {
                rep.violation(
                    format!("{sig_prefix}program-ast/exec-differs"),
                    format!("[imports={},locs={}] original: {} / round-tripped: {}", *imports as u8, *locs as u8, truncate(&base.exec, 200), truncate(&b.exec, 200)),
                    wit("exec"),
                );
            }
        }
    }
    Some(stats)
}

/// Library around one module (path `glib::m`), depending on the fixed library.
pub fn module_library(ast: ModuleAst, with_locs: bool) -> Result<MaslLibrary, String> {
    MaslLibrary::new(
        LibraryNamespace::new("glib").map_err(|e| e.to_string())?,
        Version { major: 1, minor: 2, patch: 3 },
        with_locs,
        vec![Module::new(LibraryPath::new("glib::m").map_err(|e| e.to_string())?, ast)],
        vec![LibraryNamespace::new("vlib").map_err(|e| e.to_string())?],
    )
    .map_err(|e| e.to_string())
}

/// A driver program invoking every exported / re-exported procedure of the module.
pub fn module_driver(ast: &ModuleAst) -> String {
    let mut s = String::from("use.glib::m\nbegin\n");
    for p in ast.procs().iter().filter(|p| p.is_export).take(8) {
        s.push_str(&format!("    exec.m::{}\n", p.name));
    }
    for p in ast.reexported_procs().iter().take(4) {
        s.push_str(&format!("    exec.m::{}\n", p.name()));
    }
    s.push_str("    push.1 drop\nend\n");
    s
}

pub fn build_with_module(ast: &ModuleAst, stdlib: bool, stack: &[u64], execute: bool) -> Built {
    let driver = module_driver(ast);
    let case = env_case(&driver, stdlib, false, stack.to_vec(), vec![]);
    let r = catch(|| -> Result<Program, String> {
        let lib = module_library(ast.clone(), false)?;
        let asm = case.assembler()?.with_library(&lib).map_err(|e| e.to_string())?;
        asm.compile(&driver).map_err(|e| e.to_string())
    });
    match r {
        Ok(Ok(p)) => Built {
            compile: format!("ok:{}|kernel:{}", hex(&p.hash().as_bytes()), hex(&p.kernel().to_bytes())),
            exec: if execute { exec_class(&case, &p) } else { "skipped".into() },
        },
        Ok(Err(e)) => Built { compile: format!("err:{e}"), exec: "-".into() },
        Err(p) => Built { compile: format!("panic:{}", p.site()), exec: "-".into() },
    }
}

pub fn check_module_src(src: &str, stdlib: bool, compile: bool, stack: &[u64], sig_prefix: &str, rep: &mut Report) -> Option<(ModuleAst, AstStats)> {
    let ast = match catch(|| ModuleAst::parse(src)) {
        Ok(Ok(a)) => a,
        Ok(Err(e)) => {
            rep.count("parse", "module-err");
            rep.count("parse_err", &truncate(&format!("{e}"), 60));
            return None;
        }
        Err(p) => {
            rep.count("parse", &format!("module-panic:{}", p.site()));
            return None;
        }
    };
    rep.count("parse", "module-ok");
    rep.count("module_shape", &format!("docs={} reexports={} imports={}", ast.docs().is_some() as u8, ast.reexported_procs().len().min(3), ast.import_info().len()));
    let stats = AstStats::of_module(&ast);
    stats.flush(rep);
    let wit = |extra: &str| json!({"kind": "module", "src": src, "stdlib": stdlib, "compile": compile, "stack": stack, "sig_prefix": sig_prefix, "note": extra});
    let (fails, outs) = roundtrip_module(&ast, rep, &stats.key());
    let mut seen = HashSet::new();
    for f in &fails {
        if (!sig_prefix.is_empty() && !seen.is_empty()) || !seen.insert(f.kind.clone()) {
            rep.count("secondary_failures_not_reported_separately", &f.kind);
            continue;
        }
        rep.violation(format!("{sig_prefix}module-ast/{}", f.kind), format!("{} :: src: {}", f.detail, truncate(src, 300)), wit(&f.kind));
    }
    if compile {
        let execute = !src.contains("adv.insert_mem");
        let base = build_with_module(&ast, stdlib, stack, execute);
        rep.count("compile", &format!("module-{}", class_of(&base.compile)));
        rep.count("exec", &format!("module-{}", class_of(&base.exec)));
        for ((imports, locs), rt) in &outs {
            if imports != locs {
                continue;
            }
            let b = build_with_module(rt, stdlib, stack, execute);
            if b.compile != base.compile {
                rep.violation(
                    format!("{sig_prefix}module-ast/compile-differs/{}-vs-{}", class_of(&base.compile), class_of(&b.compile)),
                    format!("[imports={},locs={}] original: {} / round-tripped: {}", *imports as u8, *locs as u8, truncate(&base.compile, 200), truncate(&b.compile, 200)),
                    wit("compile"),
                );
            } else if b.exec != base.exec {
                rep.violation(
                    format!("{sig_prefix}module-ast/exec-differs"),
                    format!("[imports={},locs={}] original: {} / round-tripped: {}", *imports as u8, *locs as u8, truncate(&base.exec, 200), truncate(&b.exec, 200)),
                    wit("exec"),
                );
            }
        }
    }
    Some((ast, stats))
}

// UNIT PHASE: EVERY TEMPLATE x EVERY BOUNDARY IMMEDIATE, EVERY CONTAINER FEATURE, ONE AT A TIME
// ================================================================================================

const UNIT_HEAD: &str = "use.vlib::alpha\nuse.vlib::beta::gamma\n";

fn unit_program(instr: &str) -> String {
    format!("{UNIT_HEAD}{CONST_DECLS}proc.lp0\n    push.0 drop\nend\nproc.lp1.4\n    {instr}\nend\nbegin\n    exec.lp1\nend\n")
}

/// (feature name, is_module, source)
fn feature_units() -> Vec<(&'static str, bool, String)> {
    vec![
        ("import-alias", false, "use.vlib::alpha->al\nbegin\n    exec.al::a0\nend\n".into()),
        ("import-unused", false, "use.vlib::alpha\nbegin\n    push.1\nend\n".into()),
        ("import-two-modules", false, "use.vlib::alpha\nuse.vlib::beta::gamma\nbegin\n    exec.alpha::a0 call.gamma::g1 procref.gamma::ra0 dropw\nend\n".into()),
        ("no-imports-no-procs", false, "begin\n    push.1 drop\nend\n".into()),
        ("if-without-else", false, "begin\n    push.1 if.true push.2 drop end\nend\n".into()),
        ("if-else", false, "begin\n    push.0 if.true push.2 drop else push.3 drop end\nend\n".into()),
        ("nested-flow", false, "begin\n    push.0 if.true repeat.2 push.0 while.true push.0 end end else push.1 if.true swap end end\nend\n".into()),
        ("repeat-big", false, "begin\n    push.1 if.true swap else repeat.4294967295 swap end end\nend\n".into()),
        ("repeat-const", false, "const.N=3\nbegin\n    repeat.N swap end\nend\n".into()),
        ("proc-locals-max", false, "proc.big.65535\n    loc_load.65534 drop\nend\nbegin\n    exec.big\nend\n".into()),
        ("proc-docs-in-program", false, "#! documented\nproc.d0\n    swap\nend\nbegin\n    exec.d0\nend\n".into()),
        ("many-procs", false, {
            let mut s = String::new();
            for i in 0..40 {
                s.push_str(&format!("proc.q{i}\n    push.{i} drop\nend\n"));
            }
            s.push_str("begin\n    exec.q0 exec.q39 call.q17\nend\n");
            s
        }),
        ("module-plain", true, "export.e0\n    push.1 add\nend\n".into()),
        ("module-docs", true, "#! module docs\n#! second line\n\nexport.e0\n    push.1 add\nend\n".into()),
        ("proc-docs", true, "#! proc docs é\n#! line 2\nexport.e0.2\n    loc_load.1 add\nend\n".into()),
        ("module-internal-proc", true, "proc.i0\n    swap\nend\nexport.e0\n    exec.i0 call.i0\nend\n".into()),
        ("module-reexport", true, "use.vlib::alpha\nexport.alpha::a0\n\nexport.e0\n    exec.alpha::a1\nend\n".into()),
        ("module-reexport-alias", true, "use.vlib::alpha\n#! re-export docs\nexport.alpha::a0->renamed\n\nexport.e0\n    push.1\nend\n".into()),
        ("module-import-alias", true, "use.vlib::beta::gamma->gm\nexport.e0\n    exec.gm::g0\nend\n".into()),
        ("module-consts", true, "const.A=5\nconst.B=A*A+2\nexport.e0\n    push.B mem_load.A emit.A\nend\n".into()),
    ]
}

/// Runs the unit phase; returns what the random phase must avoid.
pub fn unit_phase(rep: &mut Report) -> Disabled {
    let mut dis = Disabled::default();
    let all: Vec<&str> = SIMPLE.iter().chain(TEMPLATES.iter()).copied().collect();
    let results = par_map(all.len(), |ti| {
        let tpl = all[ti];
        let none = Disabled::default();
        let mut rep = Report::new();
        let mut bad = false;
        let mut rng = rng_for(0, "C10-unit", ti as u64);
        let nb = SrcGen::n_boundary(tpl);
        for j in 0..nb {
            let text = {
                let mut g = SrcGen::new(&mut rng, &none);
                g.locals = 4;
                g.has_consts = true;
                g.local_procs = vec!["lp0".into()];
                g.imports = vec![
                    Import { path: "vlib::alpha", alias: "alpha".into(), procs: &ALPHA_PROCS, aliased: false },
                    Import { path: "vlib::beta::gamma", alias: "gamma".into(), procs: &GAMMA_PROCS, aliased: false },
                ];
                match g.instantiate(tpl, Pick::Boundary(j)) {
                    Some(t) => t,
                    None => continue,
                }
            };
            let src = unit_program(&text);
            let case = env_case(&src, false, j % 2 == 1, vec![1, 2, 3, 4, 5, 6, 7, 8], vec![]);
            // name the unit after the parsed variant so the signature is specific
            let name = match catch(|| ProgramAst::parse(&src)) {
                Ok(Ok(a)) => a.procedures().get(1).and_then(|p| p.body.nodes().first().cloned()).map(|n| match n {
                    Node::Instruction(i) => variant_name(&i),
                    _ => "flow".into(),
                }),
                _ => None,
            };
            let name = match name {
                Some(n) => n,
                None => {
                    // a catalog entry the parser rejects is a harness defect, not a finding
                    rep.inconclusive(format!("catalog-entry-does-not-parse:{text}"));
                    continue;
                }
            };
            rep.count("unit", "instruction-forms");
            let counts_before: u64 = rep.violation_counts.values().sum();
            check_program_src(&case, true, &format!("unit/{name}/"), &mut rep);
            let counts_after: u64 = rep.violation_counts.values().sum();
            if counts_after > counts_before {
                bad = true;
            }
        }
        (rep, bad)
    });
    for (ti, (r, bad)) in results.into_iter().enumerate() {
        rep.merge(r);
        if bad {
            dis.templates.insert(all[ti].to_string());
        }
    }
    for (feat, is_module, src) in feature_units() {
        rep.count("unit", "container-features");
        let counts_before: u64 = rep.violation_counts.values().sum();
        let parsed = if is_module {
            check_module_src(&src, false, true, &[1, 2, 3], &format!("feature/{feat}/"), rep).is_some()
        } else {
            let compile = feat != "repeat-big";
            let case = env_case(&src, false, false, vec![1, 2, 3], vec![]);
            check_program_src(&case, compile, &format!("feature/{feat}/"), rep).is_some()
        };
        if !parsed {
            rep.inconclusive(format!("feature-unit-does-not-parse:{feat}"));
        }
        let counts_after: u64 = rep.violation_counts.values().sum();
        if counts_after > counts_before {
            dis.features.insert(feat.to_string());
        }
    }
    rep.note("unit_phase_disabled", json!({"templates": dis.templates.iter().collect::<Vec<_>>(), "features": dis.features.iter().collect::<Vec<_>>()}));
    dis
}

// CACHED REAL PROOFS
// ================================================================================================

pub struct ProofFix {
    pub name: String,
    pub info: ProgramInfo,
    pub inputs: StackInputs,
    pub outputs: StackOutputs,
    pub proof: ExecutionProof,
    /// `ExecutionProof::to_bytes` format
    pub bytes: Vec<u8>,
}

/// A few real proofs of tiny programs (one per option set, plus a kernel / deep-stack variant).
pub fn proofs() -> &'static Vec<ProofFix> {
    static PROOFS: OnceLock<Vec<ProofFix>> = OnceLock::new();
    PROOFS.get_or_init(|| {
        let specs: Vec<(String, Case, usize)> = vec![
            ("add/96-blake3".into(), Case::new("begin push.1 push.2 add end").with_stack(&[5, 6, 7]), 0),
            ("add/128-blake3".into(), Case::new("begin push.1 push.2 add end").with_stack(&[5, 6, 7]), 1),
            ("add/96-rpo".into(), Case::new("begin push.3 mul end").with_stack(&[9]), 2),
            ("add/128-rpo".into(), Case::new("begin push.3 mul end").with_stack(&[9]), 3),
            (
                "kernel-deep/96-blake3".into(),
                Case {
                    src: "begin syscall.k0 push.1 push.2 push.3 end".into(),
                    kernel: Some(KERNEL_SRC.into()),
                    stack: (1..=20).collect(),
                    ..Default::default()
                },
                0,
            ),
        ];
        let out = par_map(specs.len(), |i| {
            let (name, case, oi) = &specs[i];
            let prog = match case.assemble() {
                crate::case::AsmOutcome::Ok(p) => p,
                _ => return None,
            };
            match pv::prove(case, &prog, pv::options(*oi)) {
                ProveOutcome::Ok(outputs, proof) => {
                    let bytes = proof.to_bytes();
                    Some(ProofFix { name: name.clone(), info: ProgramInfo::from((*prog).clone()), inputs: case.stack_inputs(), outputs, proof, bytes })
                }
                _ => None,
            }
        });
        out.into_iter().flatten().collect()
    })
}

// DATA ROUND TRIPS
// ================================================================================================

fn rand_digest(rng: &mut Rng8) -> RpoDigest {
    RpoDigest::new([Felt::new(biased_felt(rng)), Felt::new(biased_felt(rng)), Felt::new(biased_felt(rng)), Felt::new(biased_felt(rng))])
}

pub fn rand_kernel(rng: &mut Rng8) -> Kernel {
    let n = match rng.gen_range(0..10) {
        0..=2 => 0,
        3..=7 => rng.gen_range(1..6),
        8 => 255,
        _ => rng.gen_range(6..255),
    };
    let hashes: Vec<RpoDigest> = (0..n).map(|_| rand_digest(rng)).collect();
    Kernel::new(&hashes).unwrap_or_default()
}

pub fn rand_stack_inputs(rng: &mut Rng8) -> StackInputs {
    let n = match rng.gen_range(0..10) {
        0 => 0,
        1..=5 => rng.gen_range(1..17),
        6..=8 => rng.gen_range(17..60),
        _ => rng.gen_range(60..2000),
    };
    StackInputs::new((0..n).map(|_| Felt::new(biased_felt(rng))).collect())
}

pub fn rand_stack_outputs(rng: &mut Rng8) -> StackOutputs {
    let n = match rng.gen_range(0..10) {
        0 => 0,
        1..=4 => rng.gen_range(1..17),
        5..=8 => rng.gen_range(17..60),
        _ => rng.gen_range(60..3000),
    };
    let stack: Vec<u64> = (0..n).map(|_| biased_felt(rng)).collect();
    let ov: Vec<u64> = if n > 16 { (0..n + 1 - 16).map(|_| biased_felt(rng)).collect() } else { vec![] };
    StackOutputs::new(stack, ov).expect("valid outputs")
}

/// decode(encode(x)) for a `Serializable + Deserializable` type; equality through `eq`.
fn rt_data<T: Serializable + Deserializable>(ty: &str, shape: &str, x: &T, eq: impl Fn(&T, &T) -> bool, rep: &mut Report) {
    rep.eval(&format!("data|{ty}|{shape}"));
    rep.count("data_type", ty);
    let bytes = x.to_bytes();
    let wit = json!({"kind": "data", "type": ty, "hex": hex(&bytes[..bytes.len().min(1 << 16)])});
    match catch(|| T::read_from_bytes(&bytes)) {
        Err(p) => rep.violation(format!("data/{ty}/decode-panic/{}", p.site()), p.message, wit),
        Ok(Err(e)) => rep.violation(format!("data/{ty}/decode-err"), format!("{e}"), wit),
        Ok(Ok(y)) => {
            if !eq(x, &y) {
                rep.violation(format!("data/{ty}/not-equal"), "decode(encode(x)) != x", wit.clone());
            }
            if y.to_bytes() != bytes {
                rep.violation(format!("data/{ty}/reencode-differs"), "encode(decode(encode(x))) != encode(x)", wit);
            }
            // the reader must have consumed everything: one extra byte must not change the value
            let mut r = SliceReader::new(&bytes);
            if T::read_from(&mut r).is_ok() && r.has_more_bytes() {
                rep.violation(format!("data/{ty}/bytes-left-over"), "decoder did not consume the whole encoding", json!({"kind": "data", "type": ty, "hex": hex(&bytes[..bytes.len().min(1 << 16)])}));
            }
        }
    }
}

pub fn data_roundtrips(rng: &mut Rng8, n: usize, rep: &mut Report) {
    for _ in 0..n {
        let k = rand_kernel(rng);
        rt_data("Kernel", &format!("n{}", k.proc_hashes().len().min(3)), &k, |a, b| a == b, rep);
        let info = ProgramInfo::new(rand_digest(rng), rand_kernel(rng));
        rt_data("ProgramInfo", &format!("k{}", info.kernel().proc_hashes().len().min(3)), &info, |a, b| a == b, rep);
        let si = rand_stack_inputs(rng);
        rt_data("StackInputs", &format!("deep{}", (si.values().len() > 16) as u8), &si, |a, b| a.values() == b.values(), rep);
        let so = rand_stack_outputs(rng);
        rt_data("StackOutputs", &format!("deep{}", so.has_overflow() as u8), &so, |a, b| a == b, rep);
        let pi = air::PublicInputs::new(info.clone(), si.clone(), so.clone());
        rt_data("PublicInputs", "any", &pi, |a, b| a.to_bytes() == b.to_bytes(), rep);
        // small assembler types
        let comps = ["a", "std", "math", "u64", "x_1", "Z9", "a_long_component_name_0123456789"];
        let nc = rng.gen_range(1..5);
        let path: Vec<&str> = (0..nc).map(|_| *comps.choose(rng).unwrap()).collect();
        if let Ok(p) = LibraryPath::new(path.join("::")) {
            rt_data("LibraryPath", &format!("c{nc}"), &p, |a, b| a == b, rep);
            let name = ProcedureName::try_from(comps.choose(rng).unwrap().to_string()).expect("name");
            rt_data("ProcedureName", "any", &name, |a, b| a == b, rep);
            let id = ProcedureId::from_name(&name, &p);
            rt_data("ProcedureId", "any", &id, |a, b| a == b, rep);
        }
        if let Ok(ns) = LibraryNamespace::new(*comps.choose(rng).unwrap()) {
            rt_data("LibraryNamespace", "any", &ns, |a, b| a == b, rep);
        }
        let v = Version { major: rng.gen(), minor: rng.gen(), patch: rng.gen() };
        rt_data("Version", "any", &v, |a, b| a == b, rep);
    }
}

pub fn proof_roundtrips(rep: &mut Report) {
    let fx = proofs();
    rep.floor(fx.len() >= 4, "at-least-4-real-proofs");
    for f in fx {
        rep.eval(&format!("data|ExecutionProof|{}", f.name));
        rep.count("data_type", "ExecutionProof");
        let wit = json!({"kind": "proof-fixture", "name": f.name});
        match catch(|| ExecutionProof::from_bytes(&f.bytes)) {
            Ok(Ok(p)) => {
                if p != f.proof {
                    rep.violation("data/ExecutionProof/from_bytes/not-equal", "from_bytes(to_bytes(p)) != p", wit.clone());
                }
                if p.to_bytes() != f.bytes {
                    rep.violation("data/ExecutionProof/from_bytes/reencode-differs", "bytes differ", wit.clone());
                }
            }
            Ok(Err(e)) => rep.violation("data/ExecutionProof/from_bytes/decode-err", format!("{e}"), wit.clone()),
            Err(p) => rep.violation(format!("data/ExecutionProof/from_bytes/decode-panic/{}", p.site()), p.message, wit.clone()),
        }
        rt_data("ExecutionProof(Serializable)", &f.name, &f.proof, |a, b| a == b, rep);
        // the round-tripped proof still verifies against the round-tripped statement
        let r = catch(|| {
            let info = ProgramInfo::read_from_bytes(&f.info.to_bytes()).map_err(|e| e.to_string())?;
            let si = StackInputs::read_from_bytes(&f.inputs.to_bytes()).map_err(|e| e.to_string())?;
            let so = StackOutputs::read_from_bytes(&f.outputs.to_bytes()).map_err(|e| e.to_string())?;
            let p = ExecutionProof::from_bytes(&f.bytes).map_err(|e| e.to_string())?;
            miden::verify(info, si, so, p).map_err(|e| format!("{e:?}"))
        });
        match r {
            Ok(Ok(_)) => rep.count("proof_verify_after_roundtrip", "accepted"),
            Ok(Err(e)) => rep.violation("data/ExecutionProof/statement-roundtrip/verify-rejected", e, wit.clone()),
            Err(p) => rep.violation(format!("data/ExecutionProof/statement-roundtrip/verify-panic/{}", p.site()), p.message, wit.clone()),
        }
    }
}

// LIBRARY ROUND TRIPS
// ================================================================================================

pub fn tmp_root() -> PathBuf {
    if let Ok(p) = std::env::var("VERIF_TMP") {
        return PathBuf::from(p);
    }
    // <target>/release/mvmon -> <target>/tmp
    std::env::current_exe()
        .ok()
        .and_then(|p| p.parent().and_then(|d| d.parent()).map(|d| d.join("tmp")))
        .unwrap_or_else(|| PathBuf::from("/verif/harness/target-c10/tmp"))
}

/// In-memory library `glib` from module sources; modules sorted by path (as read_from_dir does).
fn lib_from_sources(mods: &BTreeMap<String, String>, with_locs: bool) -> Result<MaslLibrary, String> {
    let mut modules = vec![];
    let mut deps = BTreeSet::new();
    for (path, src) in mods {
        let ast = ModuleAst::parse(src).map_err(|e| e.to_string())?;
        for p in ast.import_info().import_paths() {
            let ns = LibraryNamespace::new(p.first()).map_err(|e| e.to_string())?;
            if ns.as_str() != "glib" {
                deps.insert(ns);
            }
        }
        modules.push(Module::new(LibraryPath::new(path).map_err(|e| e.to_string())?, ast));
    }
    MaslLibrary::new(LibraryNamespace::new("glib").map_err(|e| e.to_string())?, Version { major: 0, minor: 3, patch: 9 }, with_locs, modules, deps.into_iter().collect())
        .map_err(|e| e.to_string())
}

fn lib_compile(lib: &MaslLibrary, stdlib: bool, execute: bool) -> String {
    // driver calling the first export of every module
    let mut uses = String::new();
    let mut body = String::new();
    for (i, m) in lib.modules().enumerate() {
        if let Some(p) = m.ast.procs().iter().find(|p| p.is_export) {
            uses.push_str(&format!("use.{}->lm{i}\n", m.path.path()));
            body.push_str(&format!("    exec.lm{i}::{}\n", p.name));
        }
    }
    let src = format!("{uses}begin\n{body}    push.1 drop\nend\n");
    let case = env_case(&src, stdlib, false, vec![3, 4, 5], vec![]);
    match catch(|| -> Result<Program, String> {
        let asm = case.assembler()?.with_library(lib).map_err(|e| e.to_string())?;
        asm.compile(&src).map_err(|e| e.to_string())
    }) {
        Ok(Ok(p)) => format!("ok:{}|{}", hex(&p.hash().as_bytes()), if execute { exec_class(&case, &p) } else { "skipped".into() }),
        Ok(Err(e)) => format!("err:{e}"),
        Err(p) => format!("panic:{}", p.site()),
    }
}

/// The same source laid out so that tokens sit at lines / columns that do not fit 16 bits
/// (machine-generated or minified MASM): every line indented by `COL_SHIFT` spaces, `LINE_SHIFT`
/// blank lines in front, or both. The AST (and its MAST) is the same; only source locations differ.
pub const COL_SHIFT: usize = 65_600;
pub const LINE_SHIFT: usize = 70_000;
pub fn relayout(src: &str, kind: &str) -> String {
    let pad = " ".repeat(COL_SHIFT);
    let cols = |s: &str| s.lines().map(|l| if l.trim().is_empty() { l.to_string() } else { format!("{pad}{l}") }).collect::<Vec<_>>().join("\n");
    match kind {
        "col-shift" => cols(src),
        "line-shift" => format!("{}{src}", "\n".repeat(LINE_SHIFT)),
        _ => format!("{}{}", "\n".repeat(LINE_SHIFT), cols(src)),
    }
}
pub const LAYOUTS: [&str; 3] = ["col-shift", "line-shift", "both"];

pub fn library_roundtrips(rng: &mut Rng8, dis: &Disabled, n: usize, n_fs: usize, shard: usize, rep: &mut Report) {
    for it in 0..n {
        let nm = rng.gen_range(1..4);
        let stdlib = rng.gen_bool(0.15);
        let mut mods = BTreeMap::new();
        let paths = ["glib::m0", "glib::sub::m1", "glib::sub::deeper::m2"];
        for path in paths.iter().take(nm) {
            // modules that do not parse are regenerated a few times
            for _ in 0..5 {
                let size = rng.gen_range(2..12);
                let (src, no_compile) = gen_module_src(rng, dis, stdlib, size);
                if !no_compile && ModuleAst::parse(&src).is_ok() {
                    // every fourth library has a module laid out beyond 16-bit lines / columns
                    let src = if it % 4 == 3 && src.len() < 600 {
                        let k = LAYOUTS[rng.gen_range(0..3)];
                        rep.count("layout", &format!("library-module/{k}"));
                        relayout(&src, k)
                    } else {
                        src
                    };
                    mods.insert(path.to_string(), src);
                    break;
                }
            }
        }
        if mods.is_empty() {
            continue;
        }
        for with_locs in [false, true] {
            let lib = match catch(|| lib_from_sources(&mods, with_locs)) {
                Ok(Ok(l)) => l,
                _ => {
                    rep.count("library", "build-failed");
                    continue;
                }
            };
            rep.eval(&format!("library|locs={}|mods={nm}|std={}", with_locs as u8, stdlib as u8));
            rep.count("data_type", "MaslLibrary");
            let wit = json!({"kind": "library", "modules": mods, "with_locs": with_locs, "stdlib": stdlib});
            let bytes = match catch(|| lib.to_bytes()) {
                Ok(b) => b,
                Err(p) => {
                    rep.violation(format!("library/encode-panic/{}", p.site()), p.message, wit);
                    continue;
                }
            };
            let rt = match catch(|| MaslLibrary::read_from_bytes(&bytes)) {
                Ok(Ok(l)) => l,
                Ok(Err(e)) => {
                    rep.violation(format!("library/locs={}/decode-err", with_locs as u8), format!("{e}"), wit);
                    continue;
                }
                Err(p) => {
                    rep.violation(format!("library/locs={}/decode-panic/{}", with_locs as u8, p.site()), p.message, wit);
                    continue;
                }
            };
            let mut expect = lib.clone();
            if !with_locs {
                expect.clear_locations();
            }
            if rt != expect {
                rep.violation(format!("library/locs={}/not-equal", with_locs as u8), "read_from(write_into(lib)) != lib", wit.clone());
            }
            if rt.to_bytes() != bytes {
                rep.violation(format!("library/locs={}/reencode-differs", with_locs as u8), "bytes differ", wit.clone());
            }
            let execute = !mods.values().any(|m| m.contains("adv.insert_mem"));
            let (a, b) = (lib_compile(&lib, stdlib, execute), lib_compile(&rt, stdlib, execute));
            rep.count("library_compile", class_of(&a));
            if a != b {
                rep.violation(format!("library/locs={}/compile-differs", with_locs as u8), format!("{} vs {}", truncate(&a, 160), truncate(&b, 160)), wit.clone());
            }
            // file system forms
            if it < n_fs {
                let dir = tmp_root().join(format!("c10-{}-{shard}-{it}-{}", std::process::id(), with_locs as u8));
                let _ = std::fs::remove_dir_all(&dir);
                let r = catch(|| -> Result<(), String> {
                    // write_to_dir / read_from_file
                    let out = dir.join("out");
                    lib.write_to_dir(&out).map_err(|e| format!("write_to_dir: {e}"))?;
                    let f = MaslLibrary::read_from_file(out.join("glib.masl")).map_err(|e| format!("read_from_file: {e}"))?;
                    if f != expect {
                        return Err("read_from_file(write_to_dir(lib)) != lib".into());
                    }
                    // source tree / read_from_dir
                    let srcdir = dir.join("src");
                    for (path, src) in &mods {
                        let rel: Vec<&str> = path.split("::").skip(1).collect();
                        let mut p = srcdir.clone();
                        for c in &rel[..rel.len() - 1] {
                            p = p.join(c);
                        }
                        std::fs::create_dir_all(&p).map_err(|e| e.to_string())?;
                        std::fs::write(p.join(format!("{}.masm", rel[rel.len() - 1])), src).map_err(|e| e.to_string())?;
                    }
                    let d = MaslLibrary::read_from_dir(&srcdir, LibraryNamespace::new("glib").unwrap(), with_locs, Version { major: 0, minor: 3, patch: 9 })
                        .map_err(|e| format!("read_from_dir: {e}"))?;
                    if d != lib {
                        return Err("read_from_dir(sources) != library built from the same sources".into());
                    }
                    Ok(())
                });
                rep.count("library", "fs-roundtrip");
                match r {
                    Ok(Ok(())) => {}
                    Ok(Err(e)) => rep.violation(format!("library/locs={}/fs/{}", with_locs as u8, e.split(':').next().unwrap_or("")), e, wit.clone()),
                    Err(p) => rep.violation(format!("library/locs={}/fs/panic/{}", with_locs as u8, p.site()), p.message, wit.clone()),
                }
                let _ = std::fs::remove_dir_all(&dir);
            }
        }
    }
}

// RUN
// ================================================================================================

fn rand_inputs(rng: &mut Rng8) -> (Vec<u64>, Vec<u64>) {
    let n = rng.gen_range(0..20);
    let stack = (0..n).map(|_| biased_felt(rng)).collect();
    let advice = (0..rng.gen_range(0..24)).map(|_| biased_felt(rng)).collect();
    (stack, advice)
}

pub fn run(cfg: &Cfg) -> Report {
    let mut rep0 = Report::new();
    // probe the deserialiser for its opcode table
    let ops = valid_opcodes().clone();
    let adv_sub = valid_subcodes(206);
    let dbg_sub = valid_subcodes(226);
    rep0.note("serde_opcodes_accepted_by_deserialiser", json!({"count": ops.len(), "adv_inject_subcodes": adv_sub.len(), "debug_subcodes": dbg_sub.len()}));
    rep0.floor(ops.len() >= 200, "opcode-probe-found-the-table");
    let dis = unit_phase(&mut rep0);
    proof_roundtrips(&mut rep0);

    let shards = 64;
    let per_prog = cfg.n(660, 6600);
    let per_mod = cfg.n(330, 3300);
    let per_case = cfg.n(100, 1000);
    let per_lib = cfg.n(12, 120);
    let per_data = cfg.n(300, 3000);
    let reports = par_map(shards, |sh| {
        let mut rng = rng_for(cfg.seed, "C10", sh as u64);
        let mut rep = Report::new();
        for i in 0..per_prog {
            let stdlib = rng.gen_bool(0.12);
            let size = [3usize, 8, 20, 60][rng.gen_range(0..4)];
            let (src, no_compile) = gen_program_src(&mut rng, &dis, stdlib, size);
            let (stack, advice) = rand_inputs(&mut rng);
            let case = env_case(&src, stdlib, rng.gen_bool(0.3), stack, advice);
            // compile every other source (parsing and serde are ~10x cheaper than compile + execute)
            let compile = !no_compile && i % 2 == 0;
            if check_program_src(&case, compile, "", &mut rep).is_some() && rep.samples.len() < 2 && sh == 0 {
                rep.sample(json!({"kind": "program", "src": truncate(&src, 400)}));
            }
        }
        for i in 0..per_mod {
            let stdlib = rng.gen_bool(0.12);
            let size = [3usize, 8, 25][rng.gen_range(0..3)];
            let (src, no_compile) = gen_module_src(&mut rng, &dis, stdlib, size);
            let (stack, _) = rand_inputs(&mut rng);
            let compile = !no_compile && i % 2 == 0;
            if check_module_src(&src, stdlib, compile, &stack, "", &mut rep).is_some() && rep.samples.len() < 4 && sh == 0 {
                rep.sample(json!({"kind": "module", "src": truncate(&src, 400)}));
            }
        }
        // layouts beyond 16-bit lines / columns (source locations written and reloaded)
        if sh % 8 == 5 {
            for i in 0..6 {
                let k = LAYOUTS[i % 3];
                let (src, _) = gen_program_src(&mut rng, &dis, false, 3 + i);
                let (stack, advice) = rand_inputs(&mut rng);
                let case = env_case(&relayout(&src, k), false, false, stack, advice);
                if check_program_src(&case, false, &format!("layout-{k}/"), &mut rep).is_some() {
                    rep.count("layout", &format!("program/{k}"));
                }
                let (msrc, _) = gen_module_src(&mut rng, &dis, false, 3 + i);
                if check_module_src(&relayout(&msrc, k), false, false, &[], &format!("layout-{k}/"), &mut rep).is_some() {
                    rep.count("layout", &format!("module/{k}"));
                }
            }
        }
        // executable gadget programs (these run to completion, so outputs are compared for real)
        for _ in 0..per_case {
            let size = rng.gen_range(2..25);
            let gc = GenCfg::random(&mut rng, size);
            let case = gen_case(&mut rng, &gc);
            rep.count("workload", "gadget-program");
            check_program_src(&case, true, "", &mut rep);
            if let Some(k) = &case.kernel {
                check_module_src(k, false, false, &[], "kernel-module/", &mut rep);
            }
        }
        library_roundtrips(&mut rng, &dis, per_lib, 2, sh, &mut rep);
        data_roundtrips(&mut rng, per_data, &mut rep);
        rep
    });
    let mut rep = merge_all(reports);
    rep.merge(rep0);

    // floors: every opcode the deserialiser knows was encoded at least once
    let seen: BTreeSet<u8> = rep.hist.get("serde_opcode").map(|h| h.keys().filter_map(|k| k[..3].parse::<u8>().ok()).collect()).unwrap_or_default();
    let missing: Vec<u8> = ops.iter().copied().filter(|b| !seen.contains(b)).collect();
    rep.note("serde_opcodes_encoded", json!({"encoded": seen.len(), "known_to_deserialiser": ops.len(), "missing": missing}));
    rep.floor(missing.is_empty(), &format!("every-serde-opcode-encoded(missing:{:?})", missing));
    let imm = rep.hist.get("imm_form").cloned().unwrap_or_default();
    for (prefix, subs, name) in [("AdvInject:sub", &adv_sub, "adv-inject"), ("Debug:sub", &dbg_sub, "debug")] {
        let miss: Vec<u8> = subs.iter().copied().filter(|s| !imm.keys().any(|k| k.starts_with(&format!("{prefix}{s}:")))).collect();
        rep.floor(miss.is_empty(), &format!("every-{name}-subcode-encoded(missing:{:?})", miss));
    }
    rep.floor(rep.get_count("ast_config", "program|imports=0,locs=0") > 100 && rep.get_count("ast_config", "module|imports=1,locs=1") > 100, "all-configs-exercised");
    for k in LAYOUTS {
        rep.floor(rep.get_count("layout", &format!("program/{k}")) >= 3 && rep.get_count("layout", &format!("module/{k}")) >= 3, &format!("layout-{k}-programs-and-modules"));
    }
    rep.floor(rep.get_count("compile", "ok") >= 200, "200-programs-compiled");
    rep.floor(rep.get_count("exec", "ok") >= 100, "100-programs-executed-to-completion");
    rep.floor(rep.get_count("compile", "module-ok") >= 50, "50-modules-compiled");
    rep.floor(rep.get_count("library_compile", "ok") >= 10, "10-libraries-compiled");
    rep.floor(rep.get_count("library", "fs-roundtrip") >= 8, "library-file-roundtrips");
    for t in ["Kernel", "ProgramInfo", "StackInputs", "StackOutputs", "PublicInputs", "MaslLibrary", "ExecutionProof", "LibraryPath", "ProcedureName", "ProcedureId"] {
        rep.floor(rep.get_count("data_type", t) >= 4, &format!("data-type-{t}"));
    }
    rep
}

pub fn replay(v: &Value, rep: &mut Report) {
    let prefix = v.get("sig_prefix").and_then(|s| s.as_str()).unwrap_or("").to_string();
    match v.get("kind").and_then(|k| k.as_str()).unwrap_or("") {
        "program" | "case" => {
            if let Some(case) = v.get("case").and_then(Case::from_json) {
                let compile = v.get("compile").and_then(|b| b.as_bool()).unwrap_or(true);
                check_program_src(&case, compile, &prefix, rep);
            }
        }
        "module" => {
            let src = v.get("src").and_then(|s| s.as_str()).unwrap_or("");
            let stack: Vec<u64> = v.get("stack").and_then(|s| s.as_array()).map(|a| a.iter().filter_map(|x| x.as_u64()).collect()).unwrap_or_default();
            check_module_src(src, v.get("stdlib").and_then(|b| b.as_bool()).unwrap_or(false), v.get("compile").and_then(|b| b.as_bool()).unwrap_or(true), &stack, &prefix, rep);
        }
        "proof-fixture" => proof_roundtrips(rep),
        "library" => {
            // re-run on the recorded module sources
            let mods: BTreeMap<String, String> = v
                .get("modules")
                .and_then(|m| m.as_object())
                .map(|m| m.iter().filter_map(|(k, s)| s.as_str().map(|s| (k.clone(), s.to_string()))).collect())
                .unwrap_or_default();
            let with_locs = v.get("with_locs").and_then(|b| b.as_bool()).unwrap_or(false);
            if let Ok(lib) = lib_from_sources(&mods, with_locs) {
                rep.eval("library|replay");
                match catch(|| MaslLibrary::read_from_bytes(&lib.to_bytes())) {
                    Ok(Ok(rt)) => {
                        let mut expect = lib.clone();
                        if !with_locs {
                            expect.clear_locations();
                        }
                        if rt != expect {
                            rep.violation(format!("library/locs={}/not-equal", with_locs as u8), "read_from(write_into(lib)) != lib", v.clone());
                        }
                    }
                    Ok(Err(e)) => rep.violation(format!("library/locs={}/decode-err", with_locs as u8), format!("{e}"), v.clone()),
                    Err(p) => rep.violation(format!("library/locs={}/decode-panic/{}", with_locs as u8, p.site()), p.message, v.clone()),
                }
            }
        }
        "data" => {
            let bytes = unhex(v.get("hex").and_then(|s| s.as_str()).unwrap_or(""));
            let ty = v.get("type").and_then(|s| s.as_str()).unwrap_or("");
            fn again<T: Serializable + Deserializable>(ty: &str, bytes: &[u8], rep: &mut Report) {
                if let Ok(Ok(x)) = catch(|| T::read_from_bytes(bytes)) {
                    rt_data(ty, "replay", &x, |a: &T, b: &T| a.to_bytes() == b.to_bytes(), rep);
                }
            }
            match ty {
                "Kernel" => again::<Kernel>(ty, &bytes, rep),
                "ProgramInfo" => again::<ProgramInfo>(ty, &bytes, rep),
                "StackInputs" => again::<StackInputs>(ty, &bytes, rep),
                "StackOutputs" => again::<StackOutputs>(ty, &bytes, rep),
                "PublicInputs" => again::<air::PublicInputs>(ty, &bytes, rep),
                "LibraryPath" => again::<LibraryPath>(ty, &bytes, rep),
                "ProcedureName" => again::<ProcedureName>(ty, &bytes, rep),
                "ProcedureId" => again::<ProcedureId>(ty, &bytes, rep),
                "LibraryNamespace" => again::<LibraryNamespace>(ty, &bytes, rep),
                "Version" => again::<Version>(ty, &bytes, rep),
                _ => {}
            }
        }
        _ => {}
    }
}

#[allow(dead_code)]
fn _unused(_: PanicInfo) {}
