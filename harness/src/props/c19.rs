//! C19 — decoders of untrusted bytes never panic and accept only what they can re-encode.
//!
//! Deterministic, seedable hostile-bytes monitor. For every decoder of the public API it feeds
//! (i) structure-aware mutations of VALID encodings (produced by C10's source generator, real
//! proofs, random statements) and (ii) random byte strings, each call wrapped in `util::catch`.
//! Oracle: the result is `Err` or `Ok(v)`; a panic is a violation `panic/<decoder>/<site>`; an
//! accepted value must re-encode, the re-encoding must decode, and decode/encode must then be a
//! fixed point; decoded statements must not make `verify` panic. Constructors taking integers must
//! reject values >= p.
//!
//! MEMORY GUARD. `winter_utils::ByteReader::read_many(n)` (winter-utils 0.8.5,
//! src/serde/byte_reader.rs:190) starts with `Vec::with_capacity(n)` and only then reads the
//! elements: there is NO check of `n` against the remaining input (`SliceReader::read_slice` /
//! `read_vec` do check first, so byte-string lengths are harmless). `StackInputs`, `StackOutputs`
//! (and `PublicInputs`, which embeds them) pass an attacker-controlled `u32` straight into
//! `read_many::<Felt|u64>`: a 4-byte input can request up to 32 GiB. A failed allocation aborts the
//! process and cannot be caught, so the monitor models the position of these counts
//! (`prealloc_request`) and does not call a decoder when the request would exceed 2^28 bytes; such
//! inputs are tallied under `resource/huge-prealloc` (evidence note, not a violation: the property
//! as stated is about panics and accepted values). All other counts are `u8`/`u16` (at most
//! 65535 x size_of::<Node>() per nesting level), which is harmless.

use crate::props::c10::{self, env_case, gen_module_src, gen_program_src, proofs, rand_kernel, rand_stack_inputs, rand_stack_outputs, Disabled};
use crate::report::{merge_all, truncate, Cfg, Meta, Report};
use crate::util::{biased_felt, catch, hex, par_map, rng_for, unhex, Rng8, P};
use assembly::ast::{AstSerdeOptions, Instruction, ModuleAst, ModuleImports, Node, ProcReExport, ProcedureAst, ProgramAst};
use assembly::{LibraryNamespace, LibraryPath, MaslLibrary, ProcedureId, ProcedureName, Version};
use miden::ExecutionProof;
use processor::{AdviceInputs, Kernel, ProgramInfo, StackInputs};
use rand::seq::SliceRandom;
use rand::Rng;
use serde_json::{json, Value};
use std::collections::BTreeMap;
use vm_core::crypto::hash::RpoDigest;
use vm_core::utils::{ByteReader, Deserializable, DeserializationError, Serializable, SliceReader};
use vm_core::{Felt, StackOutputs};

pub fn meta() -> Meta {
    Meta {
        level: "fault_enumeration",
        rule: "each evaluation = one (decoder, input bytes) pair: decode under catch_unwind; on Ok re-encode, decode again, re-encode again and compare; statements and proofs that decode are additionally passed to verify() with a real proof. Inputs: every valid encoding unchanged, all its truncations (small inputs) and seeded mutations (bit flips, byte substitutions, length-field edits to 0/1/max/huge, opcode swaps, insert/delete/splice, appended garbage) plus random byte strings. distinct = distinct (decoder, mutation kind, outcome class incl. panic site)".into(),
        assumptions: vec![
            "inputs whose u32 element count would make read_many pre-allocate more than 2^28 bytes are not executed in-process (allocation failure aborts and cannot be observed as a panic); they are tallied as resource/huge-prealloc".into(),
            "valid seeds come from C10's generator (every serde opcode), five real proofs and random statements; exploration beyond their neighbourhood is the fuzz lane's job (lanes/C19.sh)".into(),
        ],
    }
}

pub const PREALLOC_CAP: u64 = 1 << 28;

// DECODERS
// ================================================================================================

#[derive(Clone, Debug)]
pub enum Outcome {
    Err(String),
    /// accepted; carries the canonical re-encoding
    Ok(Vec<u8>),
    /// a deviation: (signature, description)
    Bad(String, String),
}

fn err_class(e: &DeserializationError) -> String {
    match e {
        DeserializationError::InvalidValue(_) => "InvalidValue".into(),
        DeserializationError::UnexpectedEOF => "UnexpectedEOF".into(),
        DeserializationError::UnknownError(_) => "UnknownError".into(),
    }
}

/// decode -> encode -> decode -> encode with every stage under `catch`.
fn cycle<T>(
    name: &str,
    bytes: &[u8],
    dec: impl Fn(&[u8]) -> Result<T, DeserializationError>,
    enc: impl Fn(&T) -> Vec<u8>,
    eq: impl Fn(&T, &T) -> bool,
    post: impl Fn(&T) -> Option<(String, String)>,
) -> Outcome {
    let v = match catch(|| dec(bytes)) {
        Err(p) => return Outcome::Bad(format!("panic/{name}/{}", p.site()), format!("decoder panicked: {} at {}", p.message, p.location)),
        Ok(Err(e)) => return Outcome::Err(err_class(&e)),
        Ok(Ok(v)) => v,
    };
    let e1 = match catch(|| enc(&v)) {
        Err(p) => return Outcome::Bad(format!("panic/{name}:reencode/{}", p.site()), format!("re-encoding an accepted value panicked: {} at {}", p.message, p.location)),
        Ok(b) => b,
    };
    let v2 = match catch(|| dec(&e1)) {
        Err(p) => return Outcome::Bad(format!("panic/{name}:redecode/{}", p.site()), format!("decoding the re-encoding panicked: {} at {}", p.message, p.location)),
        Ok(Err(e)) => return Outcome::Bad(format!("reject-own-encoding/{name}/{}", err_class(&e)), format!("accepted value re-encodes to bytes the decoder rejects: {e}")),
        Ok(Ok(v)) => v,
    };
    match catch(|| (enc(&v2), eq(&v, &v2))) {
        Err(p) => return Outcome::Bad(format!("panic/{name}:reencode/{}", p.site()), p.message),
        Ok((e2, same)) => {
            if e2 != e1 {
                return Outcome::Bad(format!("unstable-encoding/{name}"), "encode(decode(encode(v))) != encode(v)".into());
            }
            if !same {
                return Outcome::Bad(format!("not-equal-after-roundtrip/{name}"), "decode(encode(v)) != v".into());
            }
        }
    }
    if let Some((sig, what)) = post(&v) {
        return Outcome::Bad(sig, what);
    }
    Outcome::Ok(e1)
}

fn no_post<T>(_: &T) -> Option<(String, String)> {
    None
}

/// verify() with one element of the statement replaced by a decoded one must return, not panic.
fn verify_with(
    name: &str,
    info: Option<&ProgramInfo>,
    si: Option<&StackInputs>,
    so: Option<&StackOutputs>,
    proof: Option<&ExecutionProof>,
) -> Option<(String, String)> {
    let fx = proofs();
    let f = fx.first()?;
    let info = info.cloned().unwrap_or_else(|| f.info.clone());
    let si = si.cloned().unwrap_or_else(|| f.inputs.clone());
    let so = so.cloned().unwrap_or_else(|| f.outputs.clone());
    let proof = proof.cloned().unwrap_or_else(|| f.proof.clone());
    match catch(|| miden::verify(info, si, so, proof)) {
        Ok(_) => None,
        Err(p) => Some((format!("verify-panic/{name}/{}", p.site()), format!("verify() panicked on a decoded {name}: {} at {}", p.message, p.location))),
    }
}

pub const DECODERS: [&str; 23] = [
    "ExecutionProof::from_bytes",
    "ExecutionProof::read_from",
    "ProgramAst",
    "ProgramAst+locations",
    "ModuleAst",
    "ModuleAst+locations",
    "MaslLibrary",
    "Kernel",
    "ProgramInfo",
    "StackInputs",
    "StackOutputs",
    "PublicInputs",
    "LibraryPath",
    "LibraryNamespace",
    "Version",
    "ProcedureName",
    "ProcedureId",
    "ModuleImports",
    "ProcedureAst",
    "ProcReExport",
    "Node",
    "Instruction",
    "RpoDigest",
];

/// Bytes `read_many` would pre-allocate for this input (model of the count positions; see header).
pub fn prealloc_request(decoder: &str, b: &[u8]) -> u64 {
    let u32_at = |o: usize| -> Option<u64> { b.get(o..o + 4).map(|s| u32::from_le_bytes([s[0], s[1], s[2], s[3]]) as u64) };
    let inputs = |o: usize| -> (u64, Option<usize>) {
        match u32_at(o) {
            Some(c) => (c * 8, (c < (1 << 26)).then(|| o + 4 + 8 * c as usize)),
            None => (0, None),
        }
    };
    let outputs = |o: usize| -> u64 {
        let (r1, next) = inputs(o);
        let r2 = next.filter(|n| *n <= b.len()).map(|n| inputs(n).0).unwrap_or(0);
        r1.max(r2)
    };
    match decoder {
        "StackInputs" => inputs(0).0,
        "StackOutputs" => outputs(0),
        "PublicInputs" => {
            // ProgramInfo = 32-byte digest, u16 kernel length, 32 bytes per kernel procedure
            let k = match b.get(32..34) {
                Some(s) => u16::from_le_bytes([s[0], s[1]]) as usize,
                None => return 0,
            };
            let o = 34 + 32 * k;
            let (r1, next) = inputs(o);
            let r2 = next.filter(|n| *n <= b.len()).map(outputs).unwrap_or(0);
            r1.max(r2)
        }
        _ => 0,
    }
}

/// Runs one decoder on one input. `do_verify`: also pass accepted statements / proofs to verify().
pub fn run_decoder(name: &str, bytes: &[u8], do_verify: bool) -> Outcome {
    let opts_of = |b: &[u8]| AstSerdeOptions::new(b.first().copied() == Some(1));
    match name {
        "ExecutionProof::from_bytes" => cycle(name, bytes, ExecutionProof::from_bytes, |p| p.to_bytes(), |a, b| a == b, |p| if do_verify { verify_with(name, None, None, None, Some(p)) } else { None }),
        "ExecutionProof::read_from" => cycle(name, bytes, ExecutionProof::read_from_bytes, |p| Serializable::to_bytes(p), |a, b| a == b, no_post),
        "ProgramAst" => cycle(name, bytes, |b| ProgramAst::from_bytes(b).map(|a| (a, opts_of(b))), |(a, o)| a.to_bytes(*o), |a, b| a.0 == b.0, no_post),
        "ProgramAst+locations" => cycle(
            name,
            bytes,
            |b| {
                let mut r = SliceReader::new(b);
                let mut a = ProgramAst::read_from(&mut r)?;
                a.load_source_locations(&mut r)?;
                Ok((a, opts_of(b)))
            },
            |(a, o)| {
                let mut out = a.to_bytes(*o);
                a.write_source_locations(&mut out);
                out
            },
            |a, b| a.0 == b.0,
            no_post,
        ),
        "ModuleAst" => cycle(name, bytes, |b| ModuleAst::from_bytes(b).map(|a| (a, opts_of(b))), |(a, o)| a.to_bytes(*o), |a, b| a.0 == b.0, no_post),
        "ModuleAst+locations" => cycle(
            name,
            bytes,
            |b| {
                let mut r = SliceReader::new(b);
                let o = AstSerdeOptions::read_from(&mut r)?;
                let mut a = ModuleAst::read_from(&mut r, o)?;
                a.load_source_locations(&mut r)?;
                Ok((a, o))
            },
            |(a, o)| {
                let mut out = a.to_bytes(*o);
                a.write_source_locations(&mut out);
                out
            },
            |a, b| a.0 == b.0,
            no_post,
        ),
        "MaslLibrary" => cycle(name, bytes, MaslLibrary::read_from_bytes, |l| l.to_bytes(), |a, b| a == b, no_post),
        "Kernel" => cycle(name, bytes, Kernel::read_from_bytes, |k| k.to_bytes(), |a, b| a == b, |k| {
            if do_verify {
                let f = proofs().first()?;
                verify_with(name, Some(&ProgramInfo::new(*f.info.program_hash(), k.clone())), None, None, None)
            } else {
                None
            }
        }),
        "ProgramInfo" => cycle(name, bytes, ProgramInfo::read_from_bytes, |k| k.to_bytes(), |a, b| a == b, |i| if do_verify { verify_with(name, Some(i), None, None, None) } else { None }),
        "StackInputs" => cycle(name, bytes, StackInputs::read_from_bytes, |k| k.to_bytes(), |a, b| a.values() == b.values(), |i| if do_verify { verify_with(name, None, Some(i), None, None) } else { None }),
        "StackOutputs" => cycle(name, bytes, StackOutputs::read_from_bytes, |k| k.to_bytes(), |a, b| a == b, |o| if do_verify { verify_with(name, None, None, Some(o), None) } else { None }),
        "PublicInputs" => cycle(name, bytes, air::PublicInputs::read_from_bytes, |k| k.to_bytes(), |a, b| a.to_bytes() == b.to_bytes(), |pi| {
            if !do_verify {
                return None;
            }
            // the type has no accessors: split its canonical encoding into the three parts again
            let b = pi.to_bytes();
            let mut r = SliceReader::new(&b);
            let info = ProgramInfo::read_from(&mut r).ok()?;
            let si = StackInputs::read_from(&mut r).ok()?;
            let so = StackOutputs::read_from(&mut r).ok()?;
            verify_with(name, Some(&info), Some(&si), Some(&so), None)
        }),
        "LibraryPath" => cycle(name, bytes, LibraryPath::read_from_bytes, |k| k.to_bytes(), |a, b| a == b, |p| {
            // accessors of an accepted path must not panic either
            match catch(|| (p.first().len(), p.last().len(), p.num_components())) {
                Ok(_) => None,
                Err(pi) => Some((format!("panic/{name}:accessor/{}", pi.site()), format!("first()/last() of an accepted path {:?} panicked: {}", p.path(), pi.message))),
            }
        }),
        "LibraryNamespace" => cycle(name, bytes, LibraryNamespace::read_from_bytes, |k| k.to_bytes(), |a, b| a == b, no_post),
        "Version" => cycle(name, bytes, Version::read_from_bytes, |k| k.to_bytes(), |a, b| a == b, no_post),
        "ProcedureName" => cycle(name, bytes, ProcedureName::read_from_bytes, |k| k.to_bytes(), |a, b| a == b, no_post),
        "ProcedureId" => cycle(name, bytes, ProcedureId::read_from_bytes, |k| k.to_bytes(), |a, b| a == b, no_post),
        "ModuleImports" => cycle(name, bytes, ModuleImports::read_from_bytes, |k| k.to_bytes(), |a, b| a == b, no_post),
        "ProcedureAst" => cycle(name, bytes, ProcedureAst::read_from_bytes, |k| k.to_bytes(), |a, b| a == b, no_post),
        "ProcReExport" => cycle(name, bytes, ProcReExport::read_from_bytes, |k| k.to_bytes(), |a, b| a == b, no_post),
        "Node" => cycle(name, bytes, Node::read_from_bytes, |k| k.to_bytes(), |a, b| a == b, no_post),
        "Instruction" => cycle(name, bytes, Instruction::read_from_bytes, |k| k.to_bytes(), |a, b| a == b, no_post),
        "RpoDigest" => cycle(name, bytes, RpoDigest::read_from_bytes, |k| k.to_bytes(), |a, b| a == b, no_post),
        _ => Outcome::Err("unknown-decoder".into()),
    }
}
