//! C19 — decoders of untrusted bytes never panic and accept only what they can re-encode.
//!
//! Deterministic, seedable hostile-bytes monitor. For every decoder of the public API it feeds
//! (i) structure-aware mutations of VALID encodings (produced by C10's source generator, real
//! proofs, random statements) and (ii) random byte strings, each call wrapped in `util::catch`.
//! Oracle: the result is `Err` or `Ok(v)`; a panic is a violation `panic/<decoder>/<site>`; an
//! accepted value must re-encode, the re-encoding must decode, and decode/encode must then be a
//! fixed point; decoded statements must not make `verify` panic. Constructors taking integers must
//! reject values >= p.
//!
//! MEMORY GUARD. `winter_utils::ByteReader::read_many(n)` (winter-utils 0.8.5,
//! src/serde/byte_reader.rs:190) starts with `Vec::with_capacity(n)` and only then reads the
//! elements: there is NO check of `n` against the remaining input (`SliceReader::read_slice` /
//! `read_vec` do check first, so byte-string lengths are harmless). `StackInputs`, `StackOutputs`
//! (and `PublicInputs`, which embeds them) pass an attacker-controlled `u32` straight into
//! `read_many::<Felt|u64>`: a 4-byte input can request up to 32 GiB. A failed allocation aborts the
//! process and cannot be caught, so the monitor models the position of these counts
//! (`prealloc_request`) and does not call a decoder when the request would exceed 2^28 bytes; such
//! inputs are tallied under `resource/huge-prealloc` (evidence note, not a violation: the property
//! as stated is about panics and accepted values). All other counts are `u8`/`u16` (at most
//! 65535 x size_of::<Node>() per nesting level), which is harmless.

use crate::props::c10::{self, env_case, gen_module_src, gen_program_src, proofs, rand_kernel, rand_stack_inputs, rand_stack_outputs, Disabled};
use crate::report::{merge_all, truncate, Cfg, Meta, Report};
use crate::util::{biased_felt, catch, hex, par_map, rng_for, unhex, Rng8, P};
use assembly::ast::{AstSerdeOptions, Instruction, ModuleAst, ModuleImports, Node, ProcReExport, ProcedureAst, ProgramAst};
use assembly::{LibraryNamespace, LibraryPath, MaslLibrary, ProcedureId, ProcedureName, Version};
use miden::ExecutionProof;
use processor::{AdviceInputs, Kernel, ProgramInfo, StackInputs};
use rand::seq::SliceRandom;
use rand::Rng;
use serde_json::{json, Value};
use std::collections::BTreeMap;
#[allow(unused_imports)]
use vm_core::utils::ByteWriter;
use vm_core::crypto::hash::RpoDigest;
use vm_core::utils::{Deserializable, DeserializationError, Serializable, SliceReader};
use vm_core::{Felt, StackOutputs};

pub fn meta() -> Meta {
    Meta {
        level: "fault_enumeration",
        rule: "each evaluation = one (decoder, input bytes) pair: decode under catch_unwind; on Ok re-encode, decode again, re-encode again and compare; statements and proofs that decode are additionally passed to verify() with a real proof. Inputs: every valid encoding unchanged, all its truncations (small inputs) and seeded mutations (bit flips, byte substitutions, length-field edits to 0/1/max/huge, opcode swaps, insert/delete/splice, appended garbage) plus random byte strings. distinct = distinct (decoder, mutation kind, outcome class incl. panic site)".into(),
        assumptions: vec![
            "inputs whose u32 element count would make read_many pre-allocate more than 2^28 bytes are not executed in-process (allocation failure aborts and cannot be observed as a panic); they are tallied as resource/huge-prealloc".into(),
            "valid seeds come from C10's generator (every serde opcode), five real proofs and random statements; exploration beyond their neighbourhood is the fuzz lane's job (lanes/C19.sh)".into(),
        ],
    }
}

pub const PREALLOC_CAP: u64 = 1 << 28;

// DECODERS
// ================================================================================================

#[derive(Clone, Debug)]
pub enum Outcome {
    Err(String),
    /// accepted; carries the canonical re-encoding
    Ok(Vec<u8>),
    /// a deviation: (signature, description)
    Bad(String, String),
}

/// `PanicInfo::site()`, with panics raised inside the standard library (e.g. `str::split_at`)
/// named `std:<file>:<line>` instead of the toolchain's build path.
fn site_of(p: &crate::util::PanicInfo) -> String {
    let s = p.site();
    if s.starts_with("/rustc/") {
        if let Some(i) = s.find("/library/") {
            return format!("std:{}", &s[i + 9..]);
        }
    }
    s
}

fn err_class(e: &DeserializationError) -> String {
    match e {
        DeserializationError::InvalidValue(_) => "InvalidValue".into(),
        DeserializationError::UnexpectedEOF => "UnexpectedEOF".into(),
        DeserializationError::UnknownError(_) => "UnknownError".into(),
        DeserializationError::UnconsumedBytes => "UnconsumedBytes".into(),
    }
}

/// decode -> encode -> decode -> encode with every stage under `catch`.
fn cycle<T>(
    name: &str,
    bytes: &[u8],
    dec: impl Fn(&[u8]) -> Result<T, DeserializationError>,
    enc: impl Fn(&T) -> Vec<u8>,
    eq: impl Fn(&T, &T) -> bool,
    post: impl Fn(&T) -> Option<(String, String)>,
) -> Outcome {
    let v = match catch(|| dec(bytes)) {
        Err(p) => return Outcome::Bad(format!("panic/{name}/{}", site_of(&p)), format!("decoder panicked: {} at {}", p.message, p.location)),
        Ok(Err(e)) => return Outcome::Err(err_class(&e)),
        Ok(Ok(v)) => v,
    };
    let e1 = match catch(|| enc(&v)) {
        Err(p) => return Outcome::Bad(format!("panic/{name}:reencode/{}", site_of(&p)), format!("re-encoding an accepted value panicked: {} at {}", p.message, p.location)),
        Ok(b) => b,
    };
    let v2 = match catch(|| dec(&e1)) {
        Err(p) => return Outcome::Bad(format!("panic/{name}:redecode/{}", site_of(&p)), format!("decoding the re-encoding panicked: {} at {}", p.message, p.location)),
        Ok(Err(e)) => return Outcome::Bad(format!("reject-own-encoding/{name}/{}", err_class(&e)), format!("accepted value re-encodes to bytes the decoder rejects: {e}")),
        Ok(Ok(v)) => v,
    };
    match catch(|| (enc(&v2), eq(&v, &v2))) {
        Err(p) => return Outcome::Bad(format!("panic/{name}:reencode/{}", site_of(&p)), p.message),
        Ok((e2, same)) => {
            if e2 != e1 {
                return Outcome::Bad(format!("unstable-encoding/{name}"), "encode(decode(encode(v))) != encode(v)".into());
            }
            if !same {
                return Outcome::Bad(format!("not-equal-after-roundtrip/{name}"), "decode(encode(v)) != v".into());
            }
        }
    }
    if let Some((sig, what)) = post(&v) {
        return Outcome::Bad(sig, what);
    }
    Outcome::Ok(e1)
}

fn no_post<T>(_: &T) -> Option<(String, String)> {
    None
}

/// verify() with one element of the statement replaced by a decoded one must return, not panic.
fn verify_with(
    name: &str,
    info: Option<&ProgramInfo>,
    si: Option<&StackInputs>,
    so: Option<&StackOutputs>,
    proof: Option<&ExecutionProof>,
) -> Option<(String, String)> {
    let fx = proofs();
    let f = fx.first()?;
    let info = info.cloned().unwrap_or_else(|| f.info.clone());
    let si = si.cloned().unwrap_or_else(|| f.inputs.clone());
    let so = so.cloned().unwrap_or_else(|| f.outputs.clone());
    let proof = proof.cloned().unwrap_or_else(|| f.proof.clone());
    match catch(|| miden::verify(info, si, so, proof)) {
        Ok(_) => None,
        Err(p) => Some((format!("verify-panic/{name}/{}", site_of(&p)), format!("verify() panicked on a decoded {name}: {} at {}", p.message, p.location))),
    }
}

pub const DECODERS: [&str; 23] = [
    "ExecutionProof::from_bytes",
    "ExecutionProof::read_from",
    "ProgramAst",
    "ProgramAst+locations",
    "ModuleAst",
    "ModuleAst+locations",
    "MaslLibrary",
    "Kernel",
    "ProgramInfo",
    "StackInputs",
    "StackOutputs",
    "PublicInputs",
    "LibraryPath",
    "LibraryNamespace",
    "Version",
    "ProcedureName",
    "ProcedureId",
    "ModuleImports",
    "ProcedureAst",
    "ProcReExport",
    "Node",
    "Instruction",
    "RpoDigest",
];

/// Bytes `read_many` would pre-allocate for this input (model of the count positions; see header).
pub fn prealloc_request(decoder: &str, b: &[u8]) -> u64 {
    let u32_at = |o: usize| -> Option<u64> { b.get(o..o + 4).map(|s| u32::from_le_bytes([s[0], s[1], s[2], s[3]]) as u64) };
    let inputs = |o: usize| -> (u64, Option<usize>) {
        match u32_at(o) {
            Some(c) => (c * 8, (c < (1 << 26)).then(|| o + 4 + 8 * c as usize)),
            None => (0, None),
        }
    };
    let outputs = |o: usize| -> u64 {
        let (r1, next) = inputs(o);
        let r2 = next.filter(|n| *n <= b.len()).map(|n| inputs(n).0).unwrap_or(0);
        r1.max(r2)
    };
    match decoder {
        "StackInputs" => inputs(0).0,
        "StackOutputs" => outputs(0),
        "PublicInputs" => {
            // ProgramInfo = 32-byte digest, u16 kernel length, 32 bytes per kernel procedure
            let k = match b.get(32..34) {
                Some(s) => u16::from_le_bytes([s[0], s[1]]) as usize,
                None => return 0,
            };
            let o = 34 + 32 * k;
            let (r1, next) = inputs(o);
            let r2 = next.filter(|n| *n <= b.len()).map(outputs).unwrap_or(0);
            r1.max(r2)
        }
        _ => 0,
    }
}

/// Runs one decoder on one input. `do_verify`: also pass accepted statements / proofs to verify().
/// Signatures name the container decoder (`ProgramAst+locations` reports as `ProgramAst`: the
/// location loader only runs after the same container code; the two proof APIs share
/// `StarkProof`'s reader and report as `ExecutionProof`).
pub fn run_decoder(name: &str, bytes: &[u8], do_verify: bool) -> Outcome {
    match run_decoder_inner(name, bytes, do_verify) {
        Outcome::Bad(sig, what) => Outcome::Bad(sig.replace("+locations", "").replace("ExecutionProof::from_bytes", "ExecutionProof").replace("ExecutionProof::read_from", "ExecutionProof"), what),
        o => o,
    }
}

fn run_decoder_inner(name: &str, bytes: &[u8], do_verify: bool) -> Outcome {
    let opts_of = |b: &[u8]| AstSerdeOptions::new(b.first().copied() == Some(1));
    match name {
        "ExecutionProof::from_bytes" => cycle(name, bytes, ExecutionProof::from_bytes, |p| p.to_bytes(), |a, b| a == b, |p| if do_verify { verify_with(name, None, None, None, Some(p)) } else { None }),
        "ExecutionProof::read_from" => cycle(name, bytes, ExecutionProof::read_from_bytes, |p| Serializable::to_bytes(p), |a, b| a == b, no_post),
        "ProgramAst" => cycle(name, bytes, |b| ProgramAst::from_bytes(b).map(|a| (a, opts_of(b))), |(a, o)| a.to_bytes(*o), |a, b| a.0 == b.0, no_post),
        "ProgramAst+locations" => cycle(
            name,
            bytes,
            |b| {
                let mut r = SliceReader::new(b);
                let mut a = ProgramAst::read_from(&mut r)?;
                a.load_source_locations(&mut r)?;
                Ok((a, opts_of(b)))
            },
            |(a, o)| {
                let mut out = a.to_bytes(*o);
                a.write_source_locations(&mut out);
                out
            },
            |a, b| a.0 == b.0,
            no_post,
        ),
        "ModuleAst" => cycle(name, bytes, |b| ModuleAst::from_bytes(b).map(|a| (a, opts_of(b))), |(a, o)| a.to_bytes(*o), |a, b| a.0 == b.0, no_post),
        "ModuleAst+locations" => cycle(
            name,
            bytes,
            |b| {
                let mut r = SliceReader::new(b);
                let o = AstSerdeOptions::read_from(&mut r)?;
                let mut a = ModuleAst::read_from(&mut r, o)?;
                a.load_source_locations(&mut r)?;
                Ok((a, o))
            },
            |(a, o)| {
                let mut out = a.to_bytes(*o);
                a.write_source_locations(&mut out);
                out
            },
            |a, b| a.0 == b.0,
            no_post,
        ),
        "MaslLibrary" => cycle(name, bytes, MaslLibrary::read_from_bytes, |l| l.to_bytes(), |a, b| a == b, no_post),
        "Kernel" => cycle(name, bytes, Kernel::read_from_bytes, |k| k.to_bytes(), |a, b| a == b, |k| {
            if do_verify {
                let f = proofs().first()?;
                verify_with(name, Some(&ProgramInfo::new(*f.info.program_hash(), k.clone())), None, None, None)
            } else {
                None
            }
        }),
        "ProgramInfo" => cycle(name, bytes, ProgramInfo::read_from_bytes, |k| k.to_bytes(), |a, b| a == b, |i| if do_verify { verify_with(name, Some(i), None, None, None) } else { None }),
        "StackInputs" => cycle(name, bytes, StackInputs::read_from_bytes, |k| k.to_bytes(), |a, b| a.values() == b.values(), |i| if do_verify { verify_with(name, None, Some(i), None, None) } else { None }),
        "StackOutputs" => cycle(name, bytes, StackOutputs::read_from_bytes, |k| k.to_bytes(), |a, b| a == b, |o| if do_verify { verify_with(name, None, None, Some(o), None) } else { None }),
        "PublicInputs" => cycle(name, bytes, air::PublicInputs::read_from_bytes, |k| k.to_bytes(), |a, b| a.to_bytes() == b.to_bytes(), |pi| {
            if !do_verify {
                return None;
            }
            // the type has no accessors: split its canonical encoding into the three parts again
            let b = pi.to_bytes();
            let mut r = SliceReader::new(&b);
            let info = ProgramInfo::read_from(&mut r).ok()?;
            let si = StackInputs::read_from(&mut r).ok()?;
            let so = StackOutputs::read_from(&mut r).ok()?;
            verify_with(name, Some(&info), Some(&si), Some(&so), None)
        }),
        "LibraryPath" => cycle(name, bytes, LibraryPath::read_from_bytes, |k| k.to_bytes(), |a, b| a == b, no_post),
        "LibraryNamespace" => cycle(name, bytes, LibraryNamespace::read_from_bytes, |k| k.to_bytes(), |a, b| a == b, no_post),
        "Version" => cycle(name, bytes, Version::read_from_bytes, |k| k.to_bytes(), |a, b| a == b, no_post),
        "ProcedureName" => cycle(name, bytes, ProcedureName::read_from_bytes, |k| k.to_bytes(), |a, b| a == b, no_post),
        "ProcedureId" => cycle(name, bytes, ProcedureId::read_from_bytes, |k| k.to_bytes(), |a, b| a == b, no_post),
        "ModuleImports" => cycle(name, bytes, ModuleImports::read_from_bytes, |k| k.to_bytes(), |a, b| a == b, no_post),
        "ProcedureAst" => cycle(name, bytes, ProcedureAst::read_from_bytes, |k| k.to_bytes(), |a, b| a == b, no_post),
        "ProcReExport" => cycle(name, bytes, ProcReExport::read_from_bytes, |k| k.to_bytes(), |a, b| a == b, no_post),
        "Node" => cycle(name, bytes, Node::read_from_bytes, |k| k.to_bytes(), |a, b| a == b, no_post),
        "Instruction" => cycle(name, bytes, Instruction::read_from_bytes, |k| k.to_bytes(), |a, b| a == b, no_post),
        "RpoDigest" => cycle(name, bytes, RpoDigest::read_from_bytes, |k| k.to_bytes(), |a, b| a == b, no_post),
        _ => Outcome::Err("unknown-decoder".into()),
    }
}

// VALID ENCODINGS (SEEDS)
// ================================================================================================

#[derive(Clone)]
pub struct Seed {
    pub decoder: &'static str,
    pub bytes: Vec<u8>,
}

fn seed(decoder: &'static str, bytes: Vec<u8>) -> Seed {
    Seed { decoder, bytes }
}

fn rand_digest(rng: &mut Rng8) -> RpoDigest {
    RpoDigest::new([Felt::new(biased_felt(rng)), Felt::new(biased_felt(rng)), Felt::new(biased_felt(rng)), Felt::new(biased_felt(rng))])
}

/// Valid encodings for every decoder, produced from C10's generators. `n_src` program and module
/// sources are generated; statement / small types get a few random values each.
pub fn valid_seeds(rng: &mut Rng8, n_src: usize, with_proofs: bool) -> Vec<Seed> {
    // `breakpoint` is counted but not encoded (C10 finding): bodies containing it have no valid
    // encoding, so the seed generator leaves it out
    let mut dis = Disabled::default();
    dis.templates.insert("breakpoint".to_string());
    let mut out = vec![];
    let mut module_asts = vec![];
    for i in 0..n_src {
        let size = [2usize, 5, 12, 30][i % 4];
        let (src, _) = gen_program_src(rng, &dis, false, size);
        if let Ok(Ok(ast)) = catch(|| ProgramAst::parse(&src)) {
            for imports in [true, false] {
                if let Ok(b) = catch(|| ast.to_bytes(AstSerdeOptions::new(imports))) {
                    // sources with `breakpoint` have no valid encoding (C10 finding): keep only
                    // encodings the decoder accepts
                    if !matches!(run_decoder("ProgramAst", &b, false), Outcome::Ok(_)) {
                        continue;
                    }
                    let mut bl = b.clone();
                    ast.write_source_locations(&mut bl);
                    out.push(seed("ProgramAst", b));
                    out.push(seed("ProgramAst+locations", bl));
                }
            }
            for p in ast.procedures().iter().take(2) {
                out.push(seed("ProcedureAst", p.to_bytes()));
                for n in p.body.nodes().iter().take(3) {
                    let b = n.to_bytes();
                    if !b.is_empty() {
                        if matches!(n, Node::Instruction(_)) {
                            out.push(seed("Instruction", b.clone()));
                        }
                        out.push(seed("Node", b));
                    }
                }
            }
            for n in ast.body().nodes().iter().take(4) {
                let b = n.to_bytes();
                if !b.is_empty() {
                    out.push(seed("Node", b));
                }
            }
            out.push(seed("ModuleImports", ast.import_info().to_bytes()));
        }
        let (msrc, no_compile) = gen_module_src(rng, &dis, false, size);
        if let Ok(Ok(ast)) = catch(|| ModuleAst::parse(&msrc)) {
            let mut ok = true;
            for imports in [true, false] {
                if let Ok(b) = catch(|| ast.to_bytes(AstSerdeOptions::new(imports))) {
                    if !matches!(run_decoder("ModuleAst", &b, false), Outcome::Ok(_)) {
                        ok = false;
                        continue;
                    }
                    let mut bl = b.clone();
                    ast.write_source_locations(&mut bl);
                    out.push(seed("ModuleAst", b));
                    out.push(seed("ModuleAst+locations", bl));
                }
            }
            for r in ast.reexported_procs().iter().take(2) {
                out.push(seed("ProcReExport", r.to_bytes()));
            }
            out.push(seed("ModuleImports", ast.import_info().to_bytes()));
            if ok && !no_compile {
                module_asts.push(ast);
            }
        }
    }
    // libraries: the fixed one and libraries around generated modules
    for with_locs in [false, true] {
        let lib = c10::vlib();
        let lib = MaslLibrary::new(lib.root_ns().clone(), Version { major: 0, minor: 1, patch: 0 }, with_locs, lib.modules().cloned().collect(), vec![]).expect("lib");
        out.push(seed("MaslLibrary", lib.to_bytes()));
    }
    for (i, ast) in module_asts.into_iter().enumerate().take(6) {
        if let Ok(lib) = c10::module_library(ast, i % 2 == 0) {
            if let Ok(b) = catch(|| lib.to_bytes()) {
                if matches!(run_decoder("MaslLibrary", &b, false), Outcome::Ok(_)) {
                    out.push(seed("MaslLibrary", b));
                }
            }
        }
    }
    // statements
    for _ in 0..6 {
        let k = rand_kernel(rng);
        out.push(seed("Kernel", k.to_bytes()));
        let info = ProgramInfo::new(rand_digest(rng), rand_kernel(rng));
        out.push(seed("ProgramInfo", info.to_bytes()));
        let si = rand_stack_inputs(rng);
        out.push(seed("StackInputs", si.to_bytes()));
        let so = rand_stack_outputs(rng);
        out.push(seed("StackOutputs", so.to_bytes()));
        out.push(seed("PublicInputs", air::PublicInputs::new(info, si, so).to_bytes()));
        out.push(seed("RpoDigest", rand_digest(rng).to_bytes()));
    }
    // small assembler types
    for path in ["a", "std::math::u64", "vlib::beta::gamma", "x_1::Y2::z", "#exec::main", "#sys::k0"] {
        if let Ok(Ok(p)) = catch(|| LibraryPath::new(path)) {
            out.push(seed("LibraryPath", p.to_bytes()));
            if let Ok(n) = ProcedureName::try_from("some_proc".to_string()) {
                out.push(seed("ProcedureId", ProcedureId::from_name(&n, &p).to_bytes()));
            }
        }
    }
    for name in ["a", "main", "checked_add", "P9_x", "#main"] {
        if let Ok(n) = ProcedureName::try_from(name.to_string()) {
            out.push(seed("ProcedureName", n.to_bytes()));
        }
        if let Ok(n) = LibraryNamespace::new(name) {
            out.push(seed("LibraryNamespace", n.to_bytes()));
        }
    }
    out.push(seed("Version", Version { major: rng.gen(), minor: rng.gen(), patch: rng.gen() }.to_bytes()));
    if with_proofs {
        for f in proofs() {
            out.push(seed("ExecutionProof::from_bytes", f.bytes.clone()));
            out.push(seed("ExecutionProof::read_from", Serializable::to_bytes(&f.proof)));
            out.push(seed("ProgramInfo", f.info.to_bytes()));
            out.push(seed("StackInputs", f.inputs.to_bytes()));
            out.push(seed("StackOutputs", f.outputs.to_bytes()));
            out.push(seed("PublicInputs", air::PublicInputs::new(f.info.clone(), f.inputs.clone(), f.outputs.clone()).to_bytes()));
        }
    }
    out
}

use assembly::Library;

// MUTATIONS
// ================================================================================================

pub const MUTATIONS: [&str; 14] = [
    "bitflip", "byte-random", "byte-interesting", "truncate", "len-field-0", "len-field-1", "len-field-max", "len-field-huge", "opcode-swap", "append-garbage", "insert", "delete", "splice", "dup-chunk",
];

/// Offsets that look like little-endian u16 counts / lengths (non-zero and not larger than what follows).
fn len_field_candidates(b: &[u8]) -> Vec<usize> {
    let mut v = vec![];
    for o in 0..b.len().saturating_sub(1) {
        let x = u16::from_le_bytes([b[o], b[o + 1]]) as usize;
        if x != 0 && x <= b.len() - o {
            v.push(o);
        }
    }
    v
}

fn write_le(b: &mut [u8], o: usize, width: usize, v: u64) {
    for i in 0..width {
        if o + i < b.len() {
            b[o + i] = (v >> (8 * i)) as u8;
        }
    }
}

/// Known positions of count fields for the fixed-layout decoders: (offset, width).
fn known_len_fields(decoder: &str, b: &[u8]) -> Vec<(usize, usize)> {
    let u32_at = |o: usize| b.get(o..o + 4).map(|s| u32::from_le_bytes([s[0], s[1], s[2], s[3]]) as usize);
    match decoder {
        "StackInputs" => vec![(0, 4)],
        "StackOutputs" => {
            let mut v = vec![(0, 4)];
            if let Some(c) = u32_at(0) {
                v.push((4 + 8 * c, 4));
            }
            v
        }
        "Kernel" => vec![(0, 2)],
        "ProgramInfo" => vec![(32, 2)],
        "PublicInputs" => {
            let mut v = vec![(32, 2)];
            if let Some(k) = b.get(32..34).map(|s| u16::from_le_bytes([s[0], s[1]]) as usize) {
                let o = 34 + 32 * k;
                v.push((o, 4));
                if let Some(c) = u32_at(o) {
                    v.push((o + 4 + 8 * c, 4));
                }
            }
            v
        }
        "LibraryPath" => vec![(0, 2)],
        "ProcedureName" | "LibraryNamespace" | "MaslLibrary" => vec![(0, 1)],
        _ => vec![],
    }
}

pub fn mutate(kind: &str, decoder: &str, seed: &[u8], other: &[u8], rng: &mut Rng8) -> Vec<u8> {
    let mut b = seed.to_vec();
    if b.is_empty() {
        return vec![rng.gen()];
    }
    let n = b.len();
    match kind {
        "bitflip" => {
            for _ in 0..rng.gen_range(1..4) {
                let i = rng.gen_range(0..n);
                b[i] ^= 1 << rng.gen_range(0..8);
            }
        }
        "byte-random" => {
            for _ in 0..rng.gen_range(1..4) {
                let i = rng.gen_range(0..n);
                b[i] = rng.gen();
            }
        }
        "byte-interesting" => {
            let i = rng.gen_range(0..n);
            b[i] = *[0u8, 1, 2, 0x7f, 0x80, 0xfe, 0xff, 253, 254, 206, 226, b'#', b':'].choose(rng).unwrap();
        }
        "truncate" => {
            b.truncate(rng.gen_range(0..n));
        }
        "len-field-0" | "len-field-1" | "len-field-max" | "len-field-huge" => {
            let known = known_len_fields(decoder, &b);
            let (o, w) = if !known.is_empty() && rng.gen_bool(0.7) {
                *known.choose(rng).unwrap()
            } else {
                let c = len_field_candidates(&b);
                let o = if !c.is_empty() && rng.gen_bool(0.8) { *c.choose(rng).unwrap() } else { rng.gen_range(0..n) };
                (o, [1usize, 2, 2, 2, 4][rng.gen_range(0..5)])
            };
            let max = if w == 8 { u64::MAX } else { (1u64 << (8 * w)) - 1 };
            let v = match kind {
                "len-field-0" => 0,
                "len-field-1" => 1,
                "len-field-max" => max,
                // "huge": for u32 counts of 8-byte elements 2^25 is exactly the pre-allocation cap
                // (decoded), u32::MAX and 2^31 exceed it (tallied, not decoded)
                _ => match w {
                    4 => *[1u64 << 25, (1 << 25) - 1, 1 << 31, u32::MAX as u64, 0x0100_0000, 65536].choose(rng).unwrap(),
                    2 => *[0x8000u64, 0xfffe, 0x7fff, 0x0100].choose(rng).unwrap(),
                    _ => *[0x80u64, 0xfe, 0x7f].choose(rng).unwrap(),
                },
            };
            write_le(&mut b, o, w, v);
        }
        "opcode-swap" => {
            // overwrite a byte with a valid serde opcode (or put a control-flow opcode there)
            let ops = c10::valid_opcodes();
            let i = rng.gen_range(0..n);
            b[i] = if rng.gen_bool(0.3) { [253u8, 254, 255][rng.gen_range(0..3)] } else { *ops.choose(rng).unwrap() };
        }
        "append-garbage" => {
            for _ in 0..rng.gen_range(1..40) {
                b.push(rng.gen());
            }
        }
        "insert" => {
            let i = rng.gen_range(0..=n);
            let k = rng.gen_range(1..9);
            let ins: Vec<u8> = (0..k).map(|_| rng.gen()).collect();
            b.splice(i..i, ins);
        }
        "delete" => {
            let i = rng.gen_range(0..n);
            let k = rng.gen_range(1..9).min(n - i);
            b.drain(i..i + k);
        }
        "splice" => {
            // head of this encoding, tail of another encoding of the same decoder
            let i = rng.gen_range(0..=n);
            let j = if other.is_empty() { 0 } else { rng.gen_range(0..=other.len()) };
            b.truncate(i);
            b.extend_from_slice(&other[j..]);
        }
        _ => {
            // dup-chunk: repeat a slice in place
            let i = rng.gen_range(0..n);
            let k = rng.gen_range(1..17).min(n - i);
            let chunk = b[i..i + k].to_vec();
            b.splice(i..i, chunk);
        }
    }
    b
}

// CRAFTED INPUTS (DETERMINISTIC SHAPE ENUMERATION)
// ================================================================================================

/// Shapes a mutation would only hit by luck: statement containers with every combination of
/// element counts and boundary values, and label strings around the special `#` prefixes.
/// String fields at their length limits: for every limit L used by the name / path validators
/// (label 100 and 255, path 1023, plus the width of the length prefixes) a sweep over total byte
/// lengths L-3..=L+3, over where a multi-byte UTF-8 character (2, 3 or 4 bytes) sits relative to L,
/// and over the position of the long component in the path. All strings are valid UTF-8.
pub fn boundary_labels() -> Vec<String> {
    let mut out = vec![];
    let limits = [100usize, 255, 1023, 65535];
    let chars = ["", "\u{e9}", "\u{20ac}", "\u{1f600}"];
    for lim in limits {
        for total in lim.saturating_sub(3)..=lim + 3 {
            for ch in chars {
                // byte offset at which the multi-byte character starts, around the limit
                let starts: Vec<usize> = if ch.is_empty() { vec![0] } else { (lim.saturating_sub(4)..=lim).collect() };
                for st in starts {
                    if st + ch.len() > total {
                        continue;
                    }
                    for shape in 0..3 {
                        // shape 0: one component; 1: "std::" prefix; 2: "::a" suffix
                        let prefix = if shape == 1 { "std::" } else { "" };
                        let suffix = if shape == 2 { "::a" } else { "" };
                        if st < prefix.len() || total < prefix.len() + suffix.len() + ch.len() + (st - prefix.len()) {
                            continue;
                        }
                        let mut s = String::with_capacity(total);
                        s.push_str(prefix);
                        while s.len() < st {
                            s.push('a');
                        }
                        s.push_str(ch);
                        while s.len() + suffix.len() < total {
                            s.push('a');
                        }
                        s.push_str(suffix);
                        if s.len() == total {
                            out.push(s);
                        }
                    }
                }
            }
        }
    }
    out
}

pub fn crafted_inputs() -> Vec<(&'static str, Vec<u8>)> {
    let mut out: Vec<(&'static str, Vec<u8>)> = vec![];
    let vals = [0u64, 7, P - 1, P, u64::MAX];
    let list = |n: usize, v: u64| -> Vec<u8> {
        let mut b = (n as u32).to_le_bytes().to_vec();
        for i in 0..n {
            b.extend_from_slice(&(if i == n / 2 { v } else { 1 }).to_le_bytes());
        }
        b
    };
    for n in [0usize, 1, 15, 16, 17, 40] {
        for v in vals {
            out.push(("StackInputs", list(n, v)));
            let mut ovs = vec![0usize, 1, 2];
            if n > 16 {
                ovs.extend([n - 16, n + 1 - 16, n + 2 - 16]);
            }
            for m in ovs {
                let mut b = list(n, v);
                b.extend(list(m, v));
                out.push(("StackOutputs", b.clone()));
                let mut pi = vec![1u8; 32];
                pi.extend_from_slice(&[0, 0]);
                pi.extend(list(n.min(17), 1));
                pi.extend(b);
                out.push(("PublicInputs", pi));
            }
        }
    }
    for n in [0usize, 1, 2, 3, 255, 256, 1000] {
        for dup in [false, true] {
            let mut k = (n as u16).to_le_bytes().to_vec();
            for i in 0..n {
                let x = if dup { 5u64 } else { 5 + i as u64 };
                for _ in 0..4 {
                    k.extend_from_slice(&x.to_le_bytes());
                }
            }
            out.push(("Kernel", k.clone()));
            let mut info = vec![2u8; 32];
            info.extend(k);
            out.push(("ProgramInfo", info));
        }
    }
    let labels = [
        "", "a", "a::b", "#sys", "#exec", "#anon", "#sy", "#sysx", "#execx", "#sys:", "#sys::", "#sys::a", "#exec::", "#exec::a::b", "#sys\u{e9}", "#exec\u{e9}\u{e9}", "::", "a::", "::a", "a:::b", "1a", "a-b", "\u{e9}", "a::\u{e9}",
        "#main", "#", "##", "A", "_a", "a b",
    ];
    let mut labels: Vec<String> = labels.iter().map(|s| s.to_string()).collect();
    labels.extend(boundary_labels());
    for l in labels.iter().map(|s| s.as_str()) {
        if l.len() > u16::MAX as usize {
            continue;
        }
        let mut p = (l.len() as u16).to_le_bytes().to_vec();
        p.extend_from_slice(l.as_bytes());
        out.push(("LibraryPath", p.clone()));
        let mut n = vec![l.len() as u8];
        n.extend_from_slice(l.as_bytes());
        if l.len() <= 255 {
            out.push(("ProcedureName", n.clone()));
            out.push(("LibraryNamespace", n.clone()));
        }
        // a module-imports table with this single path, used / unused
        let mut mi = vec![1u8, 0];
        mi.extend_from_slice(&p);
        mi.extend_from_slice(&[0, 0]);
        out.push(("ModuleImports", mi.clone()));
        let mut prog = vec![1u8];
        prog.extend_from_slice(&mi);
        prog.extend_from_slice(&[0, 0, 1, 0, 8]);
        out.push(("ProgramAst", prog));
        let mut module = vec![1u8, 0, 0];
        module.extend_from_slice(&mi);
        module.extend_from_slice(&[0, 0, 0, 0]);
        out.push(("ModuleAst", module));
        // library: namespace `a`, version, no deps, one module with this path
        let mut lib = vec![1u8, b'a', 0, 0, 0, 0, 0, 0, 0, 0, 1, 0];
        lib.extend_from_slice(&p);
        lib.extend_from_slice(&[0, 0, 0, 0, 0, 0, 0, 0, 0, 0, 0]);
        out.push(("MaslLibrary", lib));
    }
    for b in 0..=255u8 {
        out.push(("Instruction", vec![b]));
        out.push(("Node", vec![b]));
        out.push(("Instruction", vec![b, 1, 1, 1, 1, 1, 1, 1, 1, 1, 1, 1, 1, 1, 1, 1, 1, 1, 1, 1, 1, 1, 1, 1, 1, 1, 1, 1, 1, 1, 1, 1, 1]));
        out.push(("Node", vec![b, 1, 0, 8, 1, 0, 8, 1, 0, 8]));
    }
    out
}

/// Every value of every one of the first `n` bytes of a valid encoding.
pub fn byte_enumeration(decoder: &str, seed: &[u8], n: usize, budget: &mut Budget, rep: &mut Report) {
    let mut b = seed.to_vec();
    for i in 0..n.min(seed.len()) {
        for v in 0..=255u8 {
            if v == seed[i] {
                continue;
            }
            b[i] = v;
            evaluate(decoder, "byte-enum", &b, budget, rep);
        }
        b[i] = seed[i];
    }
}

// ONE EVALUATION
// ================================================================================================

/// Budget of verify() calls per shard (verify costs milliseconds, decoding microseconds).
pub struct Budget {
    pub per_decoder: usize,
    pub used: BTreeMap<String, usize>,
}

impl Budget {
    pub fn new(per_decoder: usize) -> Self {
        Budget { per_decoder, used: BTreeMap::new() }
    }
    fn left(&self, d: &str) -> bool {
        self.used.get(d).copied().unwrap_or(0) < self.per_decoder
    }
    fn spend(&mut self, d: &str) {
        *self.used.entry(d.to_string()).or_default() += 1;
    }
}

fn witness(decoder: &str, kind: &str, bytes: &[u8]) -> Value {
    json!({"kind": "bytes", "decoder": decoder, "mutation": kind, "len": bytes.len(), "hex": hex(bytes)})
}

/// Greedy minimisation of a violating input (same signature), bounded effort.
pub fn minimise(decoder: &str, bytes: &[u8], sig: &str, do_verify: bool) -> Vec<u8> {
    let mut cur = bytes.to_vec();
    let mut calls = 0;
    let same = |b: &[u8], calls: &mut usize| -> bool {
        *calls += 1;
        if prealloc_request(decoder, b) > PREALLOC_CAP {
            return false;
        }
        matches!(run_decoder(decoder, b, do_verify), Outcome::Bad(s, _) if s == sig)
    };
    // shortest failing prefix
    let (mut lo, mut hi) = (0usize, cur.len());
    while lo < hi && calls < 200 {
        let mid = (lo + hi) / 2;
        if same(&cur[..mid], &mut calls) {
            hi = mid;
        } else {
            lo = mid + 1;
        }
    }
    if hi < cur.len() && same(&cur[..hi], &mut calls) {
        cur.truncate(hi);
    }
    // remove chunks
    let mut chunk = (cur.len() / 2).max(1);
    while chunk >= 1 && calls < 3000 {
        let mut i = 0;
        while i + chunk <= cur.len() && calls < 3000 {
            let mut t = cur.clone();
            t.drain(i..i + chunk);
            if same(&t, &mut calls) {
                cur = t;
            } else {
                i += chunk;
            }
        }
        if chunk == 1 {
            break;
        }
        chunk /= 2;
    }
    // normalise bytes to zero where possible (makes witnesses comparable across seeds)
    for i in 0..cur.len().min(256) {
        if cur[i] != 0 && calls < 4000 {
            let mut t = cur.clone();
            t[i] = 0;
            if same(&t, &mut calls) {
                cur = t;
            }
        }
    }
    cur
}

pub fn evaluate(decoder: &str, kind: &str, bytes: &[u8], budget: &mut Budget, rep: &mut Report) -> &'static str {
    let req = prealloc_request(decoder, bytes);
    if req > PREALLOC_CAP {
        rep.count("resource/huge-prealloc", &format!("{decoder}|{kind}"));
        if rep.notes.get("resource/huge-prealloc").is_none() {
            rep.note("resource/huge-prealloc", json!({"remark": "not a violation: read_many(count) pre-allocates count elements before reading; inputs like this one were not decoded in-process", "decoder": decoder, "requested_bytes": req, "input_hex": hex(&bytes[..bytes.len().min(64)])}));
        }
        return "skipped";
    }
    // verify() only for the statement / proof decoders and while the budget lasts
    let verify_decoder = matches!(decoder, "Kernel" | "ProgramInfo" | "StackInputs" | "StackOutputs" | "PublicInputs" | "ExecutionProof::from_bytes");
    let do_verify = verify_decoder && (kind == "crafted" || budget.left(decoder));
    let out = run_decoder(decoder, bytes, do_verify);
    let class: String = match &out {
        Outcome::Err(c) => format!("err:{c}"),
        Outcome::Ok(_) => {
            if do_verify {
                budget.spend(decoder);
                rep.count("verify_on_decoded", decoder);
            }
            "ok".into()
        }
        Outcome::Bad(sig, _) => sig.split('/').next().unwrap_or("bad").to_string(),
    };
    rep.eval(&format!("{decoder}|{kind}|{}", if let Outcome::Bad(s, _) = &out { s.as_str() } else { class.as_str() }));
    rep.count("outcome", &format!("{decoder}|{class}"));
    rep.count("mutation", &format!("{kind}|{}", class.split(':').next().unwrap_or("")));
    rep.count("decoder_x_mutation", &format!("{decoder}|{kind}|{}", class.split(':').next().unwrap_or("")));
    match out {
        Outcome::Ok(_) => "ok",
        Outcome::Err(_) => "err",
        Outcome::Bad(sig, what) => {
            rep.count("deviation", &sig);
            // minimise the first few witnesses of every signature
            let n = rep.violation_counts.get(&sig).copied().unwrap_or(0);
            let w = if n < 3 { minimise(decoder, bytes, &sig, do_verify) } else { bytes.to_vec() };
            if n < 3 || w.len() < 64 {
                rep.violation(sig, format!("{what} :: input ({} bytes, mutation {kind}): {}", w.len(), truncate(&hex(&w), 160)), witness(decoder, kind, &w));
            } else {
                *rep.violation_counts.entry(sig).or_default() += 1;
            }
            "bad"
        }
    }
}

// CONSTRUCTORS TAKING INTEGERS
// ================================================================================================

pub fn constructor_checks(rep: &mut Report) {
    let grid: [(u64, bool); 4] = [(P - 1, true), (P, false), (P + 1, false), (u64::MAX, false)];
    for n in [1usize, 2, 16, 17, 40] {
        for pos in 0..n {
            for (v, ok) in grid {
                let mut vals = vec![3u64; n];
                vals[pos] = v;
                let wit = |c: &str| json!({"kind": "constructor", "constructor": c, "n": n, "pos": pos, "value": v.to_string()});
                // StackInputs::try_from_values
                rep.eval(&format!("ctor|StackInputs::try_from_values|{}", if ok { "canonical" } else { "non-canonical" }));
                rep.count("constructor", "StackInputs::try_from_values");
                match catch(|| StackInputs::try_from_values(vals.clone())) {
                    Ok(r) => {
                        if r.is_ok() != ok {
                            rep.violation(format!("constructor/StackInputs::try_from_values/{}", if ok { "rejects-canonical" } else { "accepts-non-canonical" }), format!("value {v} at position {pos} of {n}: is_ok={}", r.is_ok()), wit("StackInputs::try_from_values"));
                        }
                    }
                    Err(p) => rep.violation(format!("constructor/StackInputs::try_from_values/panic/{}", site_of(&p)), p.message, wit("StackInputs::try_from_values")),
                }
                // AdviceInputs::with_stack_values
                rep.eval(&format!("ctor|AdviceInputs::with_stack_values|{}", if ok { "canonical" } else { "non-canonical" }));
                rep.count("constructor", "AdviceInputs::with_stack_values");
                match catch(|| AdviceInputs::default().with_stack_values(vals.clone()).map(|a| a.stack().len())) {
                    Ok(r) => {
                        if r.is_ok() != ok {
                            rep.violation(format!("constructor/AdviceInputs::with_stack_values/{}", if ok { "rejects-canonical" } else { "accepts-non-canonical" }), format!("value {v} at position {pos} of {n}: is_ok={}", r.is_ok()), wit("AdviceInputs::with_stack_values"));
                        }
                    }
                    Err(p) => rep.violation(format!("constructor/AdviceInputs::with_stack_values/panic/{}", site_of(&p)), p.message, wit("AdviceInputs::with_stack_values")),
                }
                // StackOutputs::new: value in the stack part
                let ov = if n > 16 { vec![5u64; n + 1 - 16] } else { vec![] };
                rep.eval(&format!("ctor|StackOutputs::new/stack|{}", if ok { "canonical" } else { "non-canonical" }));
                rep.count("constructor", "StackOutputs::new");
                match catch(|| StackOutputs::new(vals.clone(), ov.clone())) {
                    Ok(r) => {
                        if r.is_ok() != ok {
                            rep.violation(format!("constructor/StackOutputs::new/stack/{}", if ok { "rejects-canonical" } else { "accepts-non-canonical" }), format!("value {v} at stack position {pos} of {n}: is_ok={}", r.is_ok()), wit("StackOutputs::new/stack"));
                        }
                    }
                    Err(p) => rep.violation(format!("constructor/StackOutputs::new/panic/{}", site_of(&p)), p.message, wit("StackOutputs::new/stack")),
                }
                // ... and in the overflow-address part
                if pos < ov.len() {
                    let mut o2 = ov.clone();
                    o2[pos] = v;
                    match catch(|| StackOutputs::new(vec![3u64; n], o2.clone())) {
                        Ok(r) => {
                            if r.is_ok() != ok {
                                rep.violation(format!("constructor/StackOutputs::new/overflow-addrs/{}", if ok { "rejects-canonical" } else { "accepts-non-canonical" }), format!("value {v} at overflow position {pos}: is_ok={}", r.is_ok()), wit("StackOutputs::new/overflow"));
                            }
                        }
                        Err(p) => rep.violation(format!("constructor/StackOutputs::new/panic/{}", site_of(&p)), p.message, wit("StackOutputs::new/overflow")),
                    }
                }
            }
        }
    }
}

// RECURSION DEPTH (CHILD PROCESS: A STACK OVERFLOW ABORTS AND CANNOT BE CAUGHT)
// ================================================================================================

/// A VALID ProgramAst encoding (no imports, no procedures) whose body is `depth` nested
/// `while.true` blocks around one `add`: 5 + 3*depth + 1 bytes.
pub fn nested_program_bytes(depth: usize) -> Vec<u8> {
    let mut b = vec![0u8, 0, 0, 1, 0];
    for _ in 0..depth {
        b.extend_from_slice(&[255, 1, 0]);
    }
    b.push(8);
    b
}

pub const CHILD_ENV: &str = "VERIF_C19_CHILD";
const CHILD_STACK: usize = 8 << 20;

/// Child mode: decode on a thread with the default main-thread stack size (8 MiB) and exit.
fn child_main(spec: &str) -> ! {
    let depth: usize = spec.strip_prefix("nest:").and_then(|d| d.parse().ok()).unwrap_or(1);
    let bytes = nested_program_bytes(depth);
    let h = std::thread::Builder::new()
        .stack_size(CHILD_STACK)
        .spawn(move || {
            let r = ProgramAst::from_bytes(&bytes);
            let ok = r.is_ok();
            // dropping a deeply nested AST recurses as well; leak it so only decoding is measured
            std::mem::forget(r);
            ok
        })
        .expect("spawn");
    let ok = h.join().unwrap_or(false);
    println!("child decoded depth={depth} ok={ok}");
    std::process::exit(if ok { 0 } else { 3 });
}

/// Some(true) = child died from a signal (stack overflow), Some(false) = returned, None = could not run.
fn child_crashes(depth: usize) -> Option<bool> {
    let exe = std::env::current_exe().ok()?;
    let out = std::process::Command::new(exe).args(["check", "C19", "quick"]).env(CHILD_ENV, format!("nest:{depth}")).output().ok()?;
    use std::os::unix::process::ExitStatusExt;
    Some(out.status.signal().is_some())
}

pub fn recursion_probe(rep: &mut Report) {
    // largest input considered: 1 MiB
    let max_depth = (1usize << 20) / 3;
    rep.eval("recursion|ProgramAst|nested-while");
    match child_crashes(max_depth) {
        None => rep.inconclusive("recursion-probe-child-could-not-run"),
        Some(false) => {
            rep.count("recursion_probe", "1MiB-input-decodes-on-8MiB-stack");
        }
        Some(true) => {
            // bisect the smallest crashing depth
            let (mut lo, mut hi) = (1usize, max_depth);
            while lo < hi {
                let mid = (lo + hi) / 2;
                match child_crashes(mid) {
                    Some(true) => hi = mid,
                    Some(false) => lo = mid + 1,
                    None => break,
                }
                rep.eval("recursion|ProgramAst|bisect");
            }
            rep.count("recursion_probe", "stack-overflow");
            rep.violation(
                "abort/ProgramAst/stack-overflow-nested-body",
                format!("Node::read_from recurses once per nested body without a depth limit: a VALID {}-byte ProgramAst encoding ({} nested while.true blocks: 00 0000 0100 (ff 0100)x{} 08) overflows an 8 MiB stack inside ProgramAst::from_bytes (process killed by a signal; about {} bytes of stack per level)", 6 + 3 * hi, hi, hi, CHILD_STACK / hi.max(1)),
                json!({"kind": "nest", "depth": hi, "input_len": 6 + 3 * hi}),
            );
        }
    }
}

// RUN
// ================================================================================================

fn export_corpus(seeds: &[Seed]) {
    let root = crate::report::verif_root().join("fuzz").join("corpus");
    for s in seeds {
        let (target, selector): (&str, Option<u8>) = match s.decoder {
            "ExecutionProof::from_bytes" => ("proof", Some(0)),
            "ExecutionProof::read_from" => ("proof", Some(1)),
            "ProgramAst" | "ProgramAst+locations" => ("program_ast", None),
            "ModuleAst" | "ModuleAst+locations" => ("module_ast", None),
            "MaslLibrary" => ("library", None),
            "Kernel" => ("statement", Some(0)),
            "ProgramInfo" => ("statement", Some(1)),
            "StackInputs" => ("statement", Some(2)),
            "StackOutputs" => ("statement", Some(3)),
            "PublicInputs" => ("statement", Some(4)),
            "LibraryPath" => ("small", Some(0)),
            "LibraryNamespace" => ("small", Some(1)),
            "Version" => ("small", Some(2)),
            "ProcedureName" => ("small", Some(3)),
            "ProcedureId" => ("small", Some(4)),
            "ModuleImports" => ("small", Some(5)),
            "ProcedureAst" => ("small", Some(6)),
            "ProcReExport" => ("small", Some(7)),
            "Node" => ("small", Some(8)),
            "Instruction" => ("small", Some(9)),
            "RpoDigest" => ("small", Some(10)),
            _ => continue,
        };
        let dir = root.join(target);
        let _ = std::fs::create_dir_all(&dir);
        let mut bytes = vec![];
        if let Some(sel) = selector {
            bytes.push(sel);
        }
        bytes.extend_from_slice(&s.bytes);
        let mut h: u64 = 0xcbf29ce484222325;
        for b in &bytes {
            h ^= *b as u64;
            h = h.wrapping_mul(0x100000001b3);
        }
        let _ = std::fs::write(dir.join(format!("seed-{h:016x}")), bytes);
    }
}

pub fn run(cfg: &Cfg) -> Report {
    if let Ok(spec) = std::env::var(CHILD_ENV) {
        child_main(&spec);
    }
    // corpus export for the fuzz lane (lanes/C19.sh): writes valid encodings and stops
    if std::env::var("VERIF_EXPORT_CORPUS").map(|v| v == "1").unwrap_or(false) {
        let mut rng = rng_for(cfg.seed, "C19-corpus", 0);
        let seeds = valid_seeds(&mut rng, 60, true);
        export_corpus(&seeds);
        let mut rep = Report::new();
        rep.note("corpus_exported", json!(seeds.len()));
        rep.inconclusive("corpus-export-only-run");
        return rep;
    }
    let mut rep0 = Report::new();
    let t0 = std::time::Instant::now();
    constructor_checks(&mut rep0);
    let t_ctor = t0.elapsed().as_secs_f64();
    recursion_probe(&mut rep0);
    let t_rec = t0.elapsed().as_secs_f64() - t_ctor;
    // make sure the proofs exist before the shards ask for them
    rep0.floor(proofs().len() >= 4, "at-least-4-real-proofs");
    let shards = 64;
    let n_src = cfg.n(6, 40);
    let per_seed = cfg.n(80, 800);
    let n_random = cfg.n(8000, 80000);
    let reports = par_map(shards, |sh| {
        let mut rng = rng_for(cfg.seed, "C19", sh as u64);
        let mut rep = Report::new();
        let mut budget = Budget::new(cfg.n(40, 400));
        // proofs are 30-50 kB each: mutate them in a quarter of the shards only
        let seeds = valid_seeds(&mut rng, n_src, sh % 4 == 0);
        let mut by_dec: BTreeMap<&str, Vec<usize>> = BTreeMap::new();
        for (i, s) in seeds.iter().enumerate() {
            by_dec.entry(s.decoder).or_default().push(i);
        }
        for s in &seeds {
            rep.count("valid_seeds", s.decoder);
            // (0) the valid encoding itself must be accepted
            if evaluate(s.decoder, "none", &s.bytes, &mut budget, &mut rep) == "err" {
                rep.inconclusive(format!("valid-seed-rejected:{}", s.decoder));
            }
            // (1) every truncation of small inputs, 24 random ones of large inputs
            if s.bytes.len() <= 300 {
                for cut in 0..s.bytes.len() {
                    evaluate(s.decoder, "truncate-every-offset", &s.bytes[..cut], &mut budget, &mut rep);
                }
            } else {
                for _ in 0..24 {
                    let cut = rng.gen_range(0..s.bytes.len());
                    evaluate(s.decoder, "truncate", &s.bytes[..cut], &mut budget, &mut rep);
                }
            }
            // (2) seeded mutations; big inputs (proofs) get fewer
            let n_mut = if s.bytes.len() > 8192 { per_seed / 2 } else { per_seed };
            for k in 0..n_mut {
                let kind = MUTATIONS[(k + sh) % MUTATIONS.len()];
                let other = by_dec.get(s.decoder).and_then(|v| v.choose(&mut rng)).map(|i| seeds[*i].bytes.as_slice()).unwrap_or(&[]);
                let mut m = mutate(kind, s.decoder, &s.bytes, other, &mut rng);
                // stacked mutations now and then
                if rng.gen_bool(0.15) {
                    let k2 = MUTATIONS[rng.gen_range(0..MUTATIONS.len())];
                    m = mutate(k2, s.decoder, &m, other, &mut rng);
                }
                evaluate(s.decoder, kind, &m, &mut budget, &mut rep);
            }
            // (3) the same bytes fed to a *different* decoder (type confusion)
            let other_dec = DECODERS[rng.gen_range(0..DECODERS.len())];
            evaluate(other_dec, "cross-decoder", &s.bytes, &mut budget, &mut rep);
        }
        // (3b) deterministic enumerations, spread over the first shards
        if sh == 0 {
            for (d, b) in crafted_inputs() {
                evaluate(d, "crafted", &b, &mut budget, &mut rep);
            }
        }
        if (1..=10).contains(&sh) {
            // headers of real proofs (context, options, commitments count ...): all single-byte edits
            let fx = proofs();
            let f = &fx[(sh - 1) % fx.len()];
            if sh <= 5 {
                byte_enumeration("ExecutionProof::from_bytes", &f.bytes, 72, &mut budget, &mut rep);
            } else {
                byte_enumeration("ExecutionProof::read_from", &Serializable::to_bytes(&f.proof), 72, &mut budget, &mut rep);
            }
        }
        if sh % 8 == 3 {
            for s in seeds.iter().filter(|s| s.bytes.len() <= 48).take(40) {
                byte_enumeration(s.decoder, &s.bytes, 48, &mut budget, &mut rep);
            }
        }
        // (4) random byte strings
        for i in 0..n_random {
            let dec = DECODERS[(i + sh) % DECODERS.len()];
            let len = match rng.gen_range(0..10) {
                0 => rng.gen_range(0..4),
                1..=5 => rng.gen_range(4..40),
                6..=8 => rng.gen_range(40..300),
                _ => rng.gen_range(300..3000),
            };
            let style = rng.gen_range(0..4);
            let bytes: Vec<u8> = (0..len)
                .map(|_| match style {
                    0 => rng.gen(),
                    1 => rng.gen_range(0..4),
                    2 => *[0u8, 1, 255, 254, 253, 8, 206, 226].choose(&mut rng).unwrap(),
                    _ => {
                        if rng.gen_bool(0.7) {
                            rng.gen_range(0..3)
                        } else {
                            rng.gen()
                        }
                    }
                })
                .collect();
            evaluate(dec, "random-bytes", &bytes, &mut budget, &mut rep);
        }
        if sh == 0 {
            for s in seeds.iter().take(4) {
                rep.sample(json!({"decoder": s.decoder, "valid_encoding_len": s.bytes.len(), "hex_prefix": hex(&s.bytes[..s.bytes.len().min(48)])}));
            }
        }
        rep
    });
    let mut rep = merge_all(reports);
    rep.merge(rep0);
    rep.note("phase_seconds", json!({"constructors": t_ctor, "recursion_probe": t_rec, "total": t0.elapsed().as_secs_f64()}));

    // floors: every decoder accepted some mutated inputs and rejected others
    let out = rep.hist.get("decoder_x_mutation").cloned().unwrap_or_default();
    for d in DECODERS {
        let ok_mut: u64 = out.iter().filter(|(k, _)| k.starts_with(&format!("{d}|")) && k.ends_with("|ok") && !k.contains("|none|")).map(|(_, v)| *v).sum();
        let err: u64 = out.iter().filter(|(k, _)| k.starts_with(&format!("{d}|")) && k.ends_with("|err")).map(|(_, v)| *v).sum();
        rep.floor(ok_mut >= 5, &format!("decoder-{d}-accepts-some-mutated-inputs"));
        rep.floor(err >= 5, &format!("decoder-{d}-rejects-some-inputs"));
        rep.floor(rep.get_count("valid_seeds", d) >= 4, &format!("decoder-{d}-has-valid-seeds"));
    }
    for m in MUTATIONS {
        let n: u64 = rep.hist.get("mutation").map(|h| h.iter().filter(|(k, _)| k.starts_with(&format!("{m}|"))).map(|(_, v)| *v).sum()).unwrap_or(0);
        rep.floor(n >= 100, &format!("mutation-{m}-applied"));
    }
    rep.floor(rep.hist.get("verify_on_decoded").map(|h| h.len()).unwrap_or(0) >= 5, "verify-called-on-decoded-statements");
    rep.floor(rep.get_count("constructor", "StackOutputs::new") >= 100, "constructor-grid");
    rep
}

pub fn replay(v: &Value, rep: &mut Report) {
    match v.get("kind").and_then(|k| k.as_str()).unwrap_or("") {
        "bytes" => {
            let dec = v.get("decoder").and_then(|d| d.as_str()).unwrap_or("");
            let name = match DECODERS.iter().find(|d| **d == dec) {
                Some(d) => *d,
                None => return,
            };
            let bytes = unhex(v.get("hex").and_then(|h| h.as_str()).unwrap_or(""));
            let mut budget = Budget::new(10);
            evaluate(name, "replay", &bytes, &mut budget, rep);
        }
        // a crash artifact of the fuzz lane: first byte may be the decoder selector of the target
        "fuzz-artifact" => {
            let path = v.get("path").and_then(|p| p.as_str()).unwrap_or("");
            let bytes = std::fs::read(path).unwrap_or_default();
            let mut budget = Budget::new(10);
            for d in DECODERS {
                evaluate(d, "replay", &bytes, &mut budget, rep);
                if bytes.len() > 1 {
                    evaluate(d, "replay", &bytes[1..], &mut budget, rep);
                }
            }
        }
        "constructor" => constructor_checks(rep),
        "nest" => {
            let depth = v.get("depth").and_then(|d| d.as_u64()).unwrap_or(1) as usize;
            rep.eval("recursion|replay");
            if child_crashes(depth) == Some(true) {
                rep.violation("abort/ProgramAst/stack-overflow-nested-body", format!("{depth} nested bodies overflow an 8 MiB stack in ProgramAst::from_bytes"), v.clone());
            }
        }
        _ => {}
    }
}

#[allow(dead_code)]
fn _keep(_: &str) {
    let _ = env_case;
}
