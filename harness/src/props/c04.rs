//! C04 — the AIR rejects any deviation from an operation's defined effect.
//!
//! F-cell fault injection: one cell of one honest transition is replaced by wrong values and the
//! REAL `ProcessorAir::evaluate_transition` (+ the aux constraint for `b_range`) is evaluated on
//! that single frame; for an *enforced* cell some constraint must become non-zero.
//!
//! The enforced-set table below is written from docs/src/design/stack/*.md, chiplets/*.md and
//! range.md (which cells an operation determines), not from the constraint code.

use crate::case::{AsmOutcome, Case, ExecOutcome};
use crate::gen::{gen_case, GenCfg};
use crate::props::c03::{rand_quad, Quad};
use crate::report::{merge_all, Cfg, Meta, Report};
use crate::tair::{make_air, op_name, PeriodicCtx};
use crate::tview::*;
use crate::util::{par_map, rng_for, Rng8, P};
use air::ProcessorAir;
use processor::ExecutionTrace;
use rand::Rng;
use serde_json::json;
use vm_core::{Felt, FieldElement, StarkField};
use winter_air::{Air, AuxTraceRandElements, EvaluationFrame};
use winter_prover::{matrix::ColMatrix, Trace};

pub fn meta() -> Meta {
    Meta {
        level: "fault_enumeration",
        rule: "each evaluation = one single-cell mutant: (honest trace row r, cell, role next|cur, wrong value) evaluated by the real evaluate_transition on the frame (r, r+1); wrong values = v+1, v-1, 0, 1, 2v, v+2^16, v+2^32, -v, neighbouring cells' values and 12 uniformly random elements; a cell escapes if some wrong value leaves all 181 main constraints (and the b_range aux constraint for range-checker cells) at zero; distinct = distinct (operation or chiplet-row kind, cell, role, depth regime, killed|escaped)".into(),
        assumptions: vec![
            "single-cell, single-transition alterations only (the statement's quantifier); coordinated multi-cell alterations and the decoder columns (unconstrained in this AIR version) are out of scope".into(),
            "each constraint has degree <= 9 in the mutated cell, so if 12 random wrong values are all detected at most 9 of 2^64 values can escape that frame".into(),
            "the enforced-set table is the trusted base; cells the docs declare prover-chosen or bus-delivered are classified free/outside and only reported in the evidence".into(),
        ],
    }
}

#[derive(Clone, Copy, PartialEq, Eq, Debug)]
pub enum Class {
    /// the docs say the constraint system determines this cell: an escape is a violation
    Enforced,
    /// prover-chosen / delivered through a bus or virtual table in this AIR version
    Free,
    /// operation class not listed in the property statement (I/O, crypto, CALLER, ...)
    Outside,
}

const LEFT_SHIFT: &[&str] = &[
    "ASSERT", "EQ", "ADD", "MUL", "AND", "OR", "U32AND", "U32XOR", "DROP", "CSWAP", "CSWAPW", "MLOADW", "MSTORE", "MSTOREW",
    "FMPUPDATE", "U32ADD3", "U32MADD", "SPLIT", "LOOP", "REPEAT", "FRIE2F4",
];
const RIGHT_SHIFT: &[&str] = &["PAD", "DUP0", "DUP1", "DUP2", "DUP3", "DUP4", "DUP5", "DUP6", "DUP7", "DUP9", "DUP11", "DUP13", "DUP15", "ADVPOP", "SDEPTH", "CLK", "U32SPLIT", "PUSH"];
/// operation classes outside the statement (I/O other than depth/clock, crypto, CALLER)
const OUTSIDE_OPS: &[&str] = &[
    "PUSH", "ADVPOP", "ADVPOPW", "MLOAD", "MLOADW", "MSTORE", "MSTOREW", "MSTREAM", "PIPE", "HPERM", "MPVERIFY", "MRUPDATE", "FRIE2F4", "RCOMBBASE", "CALLER",
];

fn is_left_shift(op: &str, tv: &TV, row: usize) -> bool {
    if op == "END" {
        // END of a loop pops the loop condition (is_loop flag in hasher state column 5)
        return tv.get(HASHER + 5, row) == 1;
    }
    LEFT_SHIFT.contains(&op)
}

/// Class of stack cell `s_i'` (role next) for the operation at `row`.
fn stack_next_class(op: &str, i: usize, tv: &TV, row: usize) -> Class {
    if OUTSIDE_OPS.contains(&op) {
        return Class::Outside;
    }
    let depth = tv.get(B0, row);
    // results delivered through the bitwise bus
    if (op == "U32AND" || op == "U32XOR") && i == 0 {
        return Class::Free;
    }
    // s15' refilled from the overflow table on a left shift at depth > 16
    if i == 15 && is_left_shift(op, tv, row) && depth > 16 {
        return Class::Free;
    }
    // EQZ / INV style results: fully determined given the helper; EQ: s0' determined
    Class::Enforced
}

/// user-op helper registers (decoder hasher columns h2.. = user helpers 0..5) validated on the
/// current row for u32 operations (docs/src/design/stack/u32_ops.md) and EQ/EQZ/EXPACC (field_ops.md)
fn helper_cur_class(op: &str, k: usize, tv: &TV, row: usize) -> Option<Class> {
    let s0 = tv.get(STACK, row);
    let s1 = tv.get(STACK + 1, row);
    match op {
        "U32ADD" | "U32ADD3" => (k < 3).then_some(Class::Enforced),
        "U32SUB" => (k < 2).then_some(Class::Enforced),
        "U32MUL" | "U32MADD" | "U32SPLIT" => {
            if k < 4 {
                Some(Class::Enforced)
            } else if k == 4 {
                // m certifies that the 64-bit value is a canonical field element:
                // (1 - m * (2^32 - 1 - hi)) * lo = 0 leaves m free when lo = 0 (u32_ops.md)
                let lo = tv.get(HASHER + 2, row) + (tv.get(HASHER + 3, row) << 16);
                Some(if lo != 0 { Class::Enforced } else { Class::Free })
            } else {
                None
            }
        }
        "U32DIV" | "U32ASSERT2" => (k < 4).then_some(Class::Enforced),
        "EXPACC" => (k == 0).then_some(Class::Enforced),
        // the helper is the inverse of the difference: determined when operands differ,
        // prover-chosen when they are equal
        "EQ" => (k == 0).then_some(if s0 != s1 { Class::Enforced } else { Class::Free }),
        "EQZ" => (k == 0).then_some(if s0 != 0 { Class::Enforced } else { Class::Free }),
        _ => None,
    }
}

struct Frame {
    f: EvaluationFrame<Felt>,
    periodic: Vec<Felt>,
    aux: Option<(EvaluationFrame<Quad>, AuxTraceRandElements<Quad>)>,
}

struct Engine<'a> {
    air: &'a ProcessorAir,
    ev: Vec<Felt>,
    aev: Vec<Quad>,
}

impl<'a> Engine<'a> {
    /// returns indices of non-zero constraints (main: idx, aux: 1000+idx)
    fn eval(&mut self, fr: &Frame, out: &mut Vec<usize>) {
        out.clear();
        self.ev.iter_mut().for_each(|e| *e = Felt::ZERO);
        self.air.evaluate_transition(&fr.f, &fr.periodic, &mut self.ev);
        for (i, e) in self.ev.iter().enumerate() {
            if *e != Felt::ZERO {
                out.push(i);
            }
        }
        if let Some((af, are)) = &fr.aux {
            self.aev.iter_mut().for_each(|e| *e = Quad::ZERO);
            self.air.evaluate_aux_transition(&fr.f, af, &fr.periodic, are, &mut self.aev);
            for (i, e) in self.aev.iter().enumerate() {
                if *e != Quad::ZERO {
                    out.push(1000 + i);
                }
            }
        }
    }
}

fn wrong_values(v: u64, neighbours: &[u64], rng: &mut Rng8, skip: &dyn Fn(u64) -> bool) -> Vec<(u64, &'static str)> {
    let f = |x: u128| (x % P as u128) as u64;
    let mut c: Vec<(u64, &'static str)> = vec![
        (f(v as u128 + 1), "v+1"),
        (f(v as u128 + P as u128 - 1), "v-1"),
        (0, "0"),
        (1, "1"),
        (f(2 * v as u128), "2v"),
        (f(v as u128 + (1 << 16)), "v+2^16"),
        (f(v as u128 + (1u128 << 32)), "v+2^32"),
        (f(P as u128 - v as u128), "-v"),
    ];
    for n in neighbours {
        c.push((*n, "neighbour"));
    }
    for _ in 0..12 {
        c.push((rng.gen::<u64>() % P, "random"));
    }
    c.retain(|(x, _)| *x != v && !skip(*x));
    c
}

#[derive(Clone, Copy, PartialEq)]
enum Role {
    Next,
    Cur,
}

/// Mutates one cell, returns (killed_all, escaped value kinds, killers)
#[allow(clippy::too_many_arguments)]
fn mutate_cell(
    eng: &mut Engine,
    fr: &mut Frame,
    col: usize,
    role: Role,
    neighbours: &[u64],
    rng: &mut Rng8,
    skip: &dyn Fn(u64) -> bool,
    killers: &mut [u64],
    n_mutants: &mut u64,
) -> Vec<(u64, &'static str)> {
    let orig = match role {
        Role::Next => fr.f.next()[col],
        Role::Cur => fr.f.current()[col],
    };
    let mut escapes = vec![];
    let mut nz = Vec::with_capacity(16);
    for (w, kind) in wrong_values(orig.as_int(), neighbours, rng, skip) {
        match role {
            Role::Next => fr.f.next_mut()[col] = Felt::new(w),
            Role::Cur => fr.f.current_mut()[col] = Felt::new(w),
        }
        eng.eval(fr, &mut nz);
        *n_mutants += 1;
        if nz.is_empty() {
            escapes.push((w, kind));
        } else {
            for i in &nz {
                let k = if *i >= 1000 { 181 + (i - 1000) } else { *i };
                if k < killers.len() {
                    killers[k] += 1;
                }
            }
        }
    }
    match role {
        Role::Next => fr.f.next_mut()[col] = orig,
        Role::Cur => fr.f.current_mut()[col] = orig,
    }
    escapes
}

pub struct Outcome {
    pub killers: Vec<u64>,
    pub mutants: u64,
}

fn record(
    rep: &mut Report,
    class: Class,
    kind: &str,
    cell: &str,
    role: &str,
    regime: &str,
    escapes: &[(u64, &'static str)],
    case: &Case,
    row: usize,
) {
    let key = format!("{kind}/{cell}/{role}");
    let killed = escapes.is_empty();
    rep.distinct_key(&format!("{key}|{regime}|{killed}"));
    match (class, killed) {
        (Class::Enforced, true) => rep.count("enforced_killed", &key),
        (Class::Enforced, false) => {
            rep.count("enforced_escaped", &key);
            let kinds: Vec<&str> = escapes.iter().map(|e| e.1).collect();
            rep.violation(
                format!("escape/{key}"),
                format!("row {row} ({kind}, {regime}): {cell} ({role}) replaced by {:?} ({:?}) leaves every transition constraint at zero", escapes[0].0, kinds),
                json!({"kind": "cell", "case": case.to_json(), "row": row, "cell": cell, "role": role, "value": escapes[0].0.to_string()}),
            );
        }
        (Class::Free, true) => rep.count("free_killed", &key),
        (Class::Free, false) => rep.count("free_escaped", &key),
        (Class::Outside, true) => rep.count("outside_statement_killed", &key),
        (Class::Outside, false) => rep.count("outside_statement_escaped", &key),
    }
}

/// Runs the mutation battery over (a sample of) the rows of one honest trace.
pub fn mutate_trace(case: &Case, trace: &mut ExecutionTrace, rng: &mut Rng8, rep: &mut Report, row_prob: f64, only_row: Option<usize>) -> Outcome {
    let si = case.stack_inputs();
    let rands = rand_quad(rng);
    let aux: ColMatrix<Quad> = match crate::util::catch(|| trace.build_aux_segment::<Quad>(&[], &rands)) {
        Ok(Some(a)) => a,
        _ => {
            rep.count("skipped", "aux-build-failed");
            return Outcome { killers: vec![0; 182], mutants: 0 };
        }
    };
    let air = make_air(trace, &si);
    let pc = PeriodicCtx::new(&air);
    let tv = TV::new(trace);
    let len = trace.length();
    let mut eng = Engine {
        air: &air,
        ev: vec![Felt::ZERO; air.context().num_main_transition_constraints()],
        aev: vec![Quad::ZERO; air.context().num_aux_transition_constraints()],
    };
    let mut killers = vec![0u64; 182];
    let mut mutants = 0u64;
    let mut nz = vec![];
    let no_skip = |_: u64| false;
    let mut are = AuxTraceRandElements::new();
    are.add_segment_elements(rands.clone());

    for row in 0..len - 2 {
        if let Some(r) = only_row {
            if r != row {
                continue;
            }
        } else if !rng.gen_bool(row_prob) {
            continue;
        }
        let mut fr = Frame { f: EvaluationFrame::new(70), periodic: pc.values_at(row), aux: None };
        trace.read_main_frame(row, &mut fr.f);
        // aux frame (b_range is aux column 4)
        let mut af = EvaluationFrame::<Quad>::new(7);
        for c in 0..7 {
            af.current_mut()[c] = aux.get(c, row);
            af.next_mut()[c] = aux.get(c, row + 1);
        }
        fr.aux = Some((af, {
            let mut a = AuxTraceRandElements::new();
            a.add_segment_elements(rands.clone());
            a
        }));
        // the honest frame must be clean, otherwise this row is C03's business
        eng.eval(&fr, &mut nz);
        if !nz.is_empty() {
            rep.count("skipped", "honest-frame-not-clean");
            continue;
        }

        // ---------------------------------------------------------------- stack / system side
        if row < tv.cycles {
            let opc = tv.op(row);
            let op = op_name(opc);
            let deep = tv.get(B0, row) > 16;
            let regime = if deep { "depth>16" } else { "depth=16" };
            rep.count("rows_mutated", &op);
            for i in 0..16 {
                let class = stack_next_class(&op, i, &tv, row);
                let nb = [tv.get(STACK + (i + 1) % 16, row + 1), tv.get(STACK + (i + 15) % 16, row + 1), tv.get(STACK + i, row)];
                let esc = mutate_cell(&mut eng, &mut fr, STACK + i, Role::Next, &nb, rng, &no_skip, &mut killers, &mut mutants);
                record(rep, class, &op, &format!("s{i}"), "next", regime, &esc, case, row);
            }
            // depth bookkeeping b0' (restored from the block-stack table at the END of a call)
            {
                let end_of_call = op == "END" && (tv.get(HASHER + 6, row) == 1 || tv.get(HASHER + 7, row) == 1);
                let class = if end_of_call { Class::Free } else { Class::Enforced };
                let esc = mutate_cell(&mut eng, &mut fr, B0, Role::Next, &[], rng, &no_skip, &mut killers, &mut mutants);
                record(rep, class, &op, "b0", "next", regime, &esc, case, row);
            }
            // b1' = clk on right shifts (the left-shift value comes from the overflow table)
            {
                let class = if RIGHT_SHIFT.contains(&op.as_str()) { Class::Enforced } else { Class::Free };
                let esc = mutate_cell(&mut eng, &mut fr, B1, Role::Next, &[], rng, &no_skip, &mut killers, &mut mutants);
                record(rep, class, &op, "b1", "next", regime, &esc, case, row);
            }
            // h0 = 1/(b0-16) when b0 != 16 (current row)
            {
                let class = if deep { Class::Enforced } else { Class::Free };
                let esc = mutate_cell(&mut eng, &mut fr, H0, Role::Cur, &[], rng, &no_skip, &mut killers, &mut mutants);
                record(rep, class, &op, "h0", "cur", regime, &esc, case, row);
            }
            // clk' always
            {
                let esc = mutate_cell(&mut eng, &mut fr, CLK, Role::Next, &[], rng, &no_skip, &mut killers, &mut mutants);
                record(rep, Class::Enforced, &op, "clk", "next", regime, &esc, case, row);
            }
            // fmp' for FMPUPDATE (elsewhere undocumented -> outside)
            {
                let class = if op == "FMPUPDATE" { Class::Enforced } else { Class::Outside };
                let esc = mutate_cell(&mut eng, &mut fr, FMP, Role::Next, &[], rng, &no_skip, &mut killers, &mut mutants);
                record(rep, class, &op, "fmp", "next", regime, &esc, case, row);
            }
            // helper registers (decoder columns h2..h7 = user helpers 0..5), current row
            for k in 0..6 {
                if let Some(class) = helper_cur_class(&op, k, &tv, row) {
                    let esc = mutate_cell(&mut eng, &mut fr, HASHER + 2 + k, Role::Cur, &[], rng, &no_skip, &mut killers, &mut mutants);
                    record(rep, class, &op, &format!("helper{k}"), "cur", regime, &esc, case, row);
                }
            }
        }

        // ---------------------------------------------------------------- range checker
        {
            let v = tv.get(RANGE_V, row);
            let vn = tv.get(RANGE_V, row + 1);
            // legal steps: v' - v in {0, 1, 3, 9, ..., 2187}: those candidates are equivalent mutants
            let legal = move |x: u64| {
                let d = x.wrapping_sub(v);
                [0u64, 1, 3, 9, 27, 81, 243, 729, 2187].contains(&d)
            };
            let kind = if vn == v { "range-repeat" } else { "range-step" };
            rep.count("rows_mutated", kind);
            let esc = mutate_cell(&mut eng, &mut fr, RANGE_V, Role::Next, &[], rng, &legal, &mut killers, &mut mutants);
            record(rep, Class::Enforced, kind, "v", "next", "-", &esc, case, row);
            // multiplicity: enforced through the b_range LogUp aux constraint
            let esc = mutate_cell(&mut eng, &mut fr, RANGE_M, Role::Cur, &[], rng, &no_skip, &mut killers, &mut mutants);
            record(rep, Class::Enforced, kind, "m", "cur", "-", &esc, case, row);
        }

        // ---------------------------------------------------------------- chiplets
        let ck = tv.chiplet_kind(row);
        let ckn = tv.chiplet_kind(row + 1);
        match ck {
            "hasher" if ckn == "hasher" => {
                let pos = row % 8;
                let kind = format!("hasher-row{pos}");
                rep.count("rows_mutated", &kind);
                // rows 0..6 of a cycle: the next row is the permutation round applied to this one
                for c in 0..12 {
                    let class = if pos < 7 { Class::Enforced } else { Class::Free };
                    let esc = mutate_cell(&mut eng, &mut fr, CHIP + 4 + c, Role::Next, &[], rng, &no_skip, &mut killers, &mut mutants);
                    record(rep, class, &kind, &format!("state{c}"), "next", "-", &esc, case, row);
                }
            }
            "bitwise" if ckn == "bitwise" => {
                let pos = row % 8;
                let kind = format!("bitwise-row{}", if pos == 7 { "7" } else { "0-6" });
                rep.count("rows_mutated", &kind);
                // bitwise columns: CHIP+2 selector, +3 a, +4 b, +5..+8 a bits, +9..+12 b bits, +13 prev output, +14 output
                for c in 0..8 {
                    // decomposition bits of the current row must be binary
                    let binary = |x: u64| x <= 1;
                    let esc = mutate_cell(&mut eng, &mut fr, CHIP + 5 + c, Role::Cur, &[], rng, &binary, &mut killers, &mut mutants);
                    record(rep, Class::Enforced, &kind, &format!("bit{c}"), "cur", "-", &esc, case, row);
                }
                // the output aggregates the previous output and this row's bits (validated on this row)
                {
                    let esc = mutate_cell(&mut eng, &mut fr, CHIP + 14, Role::Cur, &[], rng, &no_skip, &mut killers, &mut mutants);
                    record(rep, Class::Enforced, &kind, "output", "cur", "-", &esc, case, row);
                }
                if pos < 7 {
                    for (c, name) in [(3usize, "a"), (4, "b"), (13, "prev_output")] {
                        let esc = mutate_cell(&mut eng, &mut fr, CHIP + c, Role::Next, &[], rng, &no_skip, &mut killers, &mut mutants);
                        record(rep, Class::Enforced, &kind, name, "next", "-", &esc, case, row);
                    }
                }
            }
            "memory" => {
                // (a) the current row on its own: a first-access read (selectors [1,0]) must show zeros
                let cur_init_read = tv.get(CHIP + 3, row) == 1 && tv.get(CHIP + 4, row) == 0;
                if cur_init_read {
                    let kind = if ckn == "memory" { "memory-init-read" } else { "memory-init-read-last-row" };
                    rep.count("rows_mutated", kind);
                    for c in 0..4 {
                        let esc = mutate_cell(&mut eng, &mut fr, CHIP + 8 + c, Role::Cur, &[], rng, &no_skip, &mut killers, &mut mutants);
                        record(rep, Class::Enforced, kind, &format!("v{c}"), "cur", "-", &esc, case, row);
                    }
                }
                // (b) the next row relative to this one
                if ckn == "memory" {
                    let same_ctx = tv.get(CHIP + 5, row) == tv.get(CHIP + 5, row + 1);
                    let same_addr = same_ctx && tv.get(CHIP + 6, row) == tv.get(CHIP + 6, row + 1);
                    let next_sel = (tv.get(CHIP + 3, row + 1), tv.get(CHIP + 4, row + 1));
                    let kind = format!(
                        "memory-{}-{}",
                        if !same_ctx { "new-ctx" } else if !same_addr { "new-addr" } else { "same-addr" },
                        match next_sel {
                            (1, 1) => "copy-read",
                            (1, _) => "init-read",
                            _ => "write",
                        }
                    );
                    rep.count("rows_mutated", &kind);
                    for (c, name) in [(12usize, "d0"), (13, "d1"), (14, "d_inv")] {
                        // d_inv is the inverse of the context / address delta: prover-chosen when
                        // neither changes (memory.md: n0 = n1 = 0 for any t)
                        let class = if name == "d_inv" && same_addr { Class::Free } else { Class::Enforced };
                        let esc = mutate_cell(&mut eng, &mut fr, CHIP + c, Role::Next, &[], rng, &no_skip, &mut killers, &mut mutants);
                        record(rep, class, &kind, name, "next", "-", &esc, case, row);
                    }
                    for c in 0..4 {
                        // a copy read repeats the previous row's values; written values arrive through
                        // the bus; first-access reads are validated on their own row (a)
                        let class = if next_sel == (1, 1) { Class::Enforced } else { Class::Free };
                        let esc = mutate_cell(&mut eng, &mut fr, CHIP + 8 + c, Role::Next, &[], rng, &no_skip, &mut killers, &mut mutants);
                        record(rep, class, &kind, &format!("v{c}"), "next", "-", &esc, case, row);
                    }
                    // the selectors of the next row: s1' = 1 exactly for a read of the same (ctx, addr)
                    let esc = mutate_cell(&mut eng, &mut fr, CHIP + 4, Role::Next, &[], rng, &no_skip, &mut killers, &mut mutants);
                    record(rep, Class::Enforced, &kind, "sel1", "next", "-", &esc, case, row);
                }
            }
            _ => {}
        }
    }
    let _ = are;
    Outcome { killers, mutants }
}

pub fn run(cfg: &Cfg) -> Report {
    let shards = 64;
    let per = cfg.n(40, 600);
    let reports = par_map(shards, |sh| {
        let mut rng = rng_for(cfg.seed, "C04", sh as u64);
        let mut rep = Report::new();
        let mut killers = vec![0u64; 182];
        for i in 0..per {
            let size = rng.gen_range(4..40);
            let mut gc = GenCfg::random(&mut rng, size);
            if i % 3 == 0 {
                gc.mem = true;
                gc.crypto = true;
            }
            let case = gen_case(&mut rng, &gc);
            let prog = match case.assemble() {
                AsmOutcome::Ok(p) => p,
                _ => continue,
            };
            let mut trace = match case.execute(&prog) {
                ExecOutcome::Ok(t) => t,
                _ => continue,
            };
            if trace.length() > 4096 {
                continue;
            }
            rep.count("traces", "mutated");
            let prob = (300.0 / trace.length() as f64).min(1.0);
            let out = mutate_trace(&case, &mut trace, &mut rng, &mut rep, prob, None);
            rep.evals(out.mutants);
            for (i, k) in out.killers.iter().enumerate() {
                killers[i] += k;
            }
            if rep.samples.len() < 2 {
                rep.sample(json!({"src": crate::report::truncate(&case.src, 200), "trace_len": trace.length(), "mutants": out.mutants}));
            }
        }
        for (i, k) in killers.iter().enumerate() {
            if *k > 0 {
                rep.count_n("constraint_kills", &format!("{}{}", if i >= 181 { "aux" } else { "main" }, if i >= 181 { i - 181 } else { i }), *k);
            }
        }
        rep
    });
    let mut rep = merge_all(reports);
    let never: Vec<usize> = (0..181).filter(|i| rep.get_count("constraint_kills", &format!("main{i}")) == 0).collect();
    rep.note("constraints_that_never_killed", json!(never));
    rep.note("enforced_pairs_killed", json!(rep.hist_len("enforced_killed")));
    rep.floor(rep.hist_len("enforced_killed") >= 600, "at-least-600-enforced-(op,cell)-pairs-mutated");
    rep.floor(rep.hist_len("rows_mutated") >= 80, "at-least-80-row-kinds");
    rep.floor(never.len() <= 40, "at-least-141-of-181-constraints-killed-a-mutant");
    rep
}

pub fn replay(v: &serde_json::Value, rep: &mut Report) {
    if let Some(case) = v.get("case").and_then(Case::from_json) {
        let row = v.get("row").and_then(|r| r.as_u64()).map(|r| r as usize);
        if let AsmOutcome::Ok(prog) = case.assemble() {
            if let ExecOutcome::Ok(mut trace) = case.execute(&prog) {
                let mut rng = rng_for(0, "C04-replay", 0);
                let out = mutate_trace(&case, &mut trace, &mut rng, rep, 1.0, row);
                rep.evals(out.mutants);
            }
        }
    }
}
